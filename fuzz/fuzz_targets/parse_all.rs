//! Raw text into every parser (C11 text target + C10 fixed-point oracle).
#![no_main]
use libfuzzer_sys::fuzz_target;
use mvh::runner::Report;

fuzz_target!(
    init: {
        mvh::runner::install_panic_hook();
    },
    |data: &[u8]| {
        if let Ok(s) = std::str::from_utf8(data) {
            let mut rep = Report::default();
            if let Err(f) = mvh::checks::c11::text_target(s, &mut rep) {
                eprintln!("VIOLATION-CANDIDATE property=C11 sig={} :: {}", f.sig, f.msg);
                std::process::abort();
            }
        }
    }
);
