//! Raw bytes into the script decoders (C11 crash oracle + C04 canonical-decoding oracle).
#![no_main]
use libfuzzer_sys::fuzz_target;
use mvh::runner::Report;

fuzz_target!(
    init: {
        mvh::runner::install_panic_hook();
    },
    |data: &[u8]| {
        let mut rep = Report::default();
        if let Err(f) = mvh::checks::c11::script_target(data, &mut rep) {
            eprintln!("VIOLATION-CANDIDATE property=C11 sig={} :: {}", f.sig, f.msg);
            std::process::abort();
        }
        if let Err(f) = mvh::checks::c04::decode_all_contexts(data, &mut rep) {
            eprintln!("VIOLATION-CANDIDATE property=C04 sig={} :: {}", f.sig, f.msg);
            std::process::abort();
        }
    }
);
