//! Coverage-guided search over the choice stream of any registered check:
//! MVH_FUZZ_CHECK=C07 cargo +nightly fuzz run case
//! byte 0 selects the lane, the rest is the little-endian u16 choice stream.
#![no_main]
use libfuzzer_sys::fuzz_target;
use mvh::runner::{guard, Check, Report, Src};
use std::collections::HashSet;
use std::sync::OnceLock;

struct Ctx {
    chk: Box<dyn Check>,
    lanes: Vec<&'static str>,
    open: HashSet<String>,
}
static CTX: OnceLock<Ctx> = OnceLock::new();

fn ctx() -> &'static Ctx {
    CTX.get_or_init(|| {
        let id = std::env::var("MVH_FUZZ_CHECK").unwrap_or_else(|_| "C04".to_string());
        let chk = mvh::checks::all().into_iter().find(|c| c.id() == id).expect("unknown check id in MVH_FUZZ_CHECK");
        let lanes: Vec<&'static str> = chk.lanes(mvh::runner::Tier::Quick).into_iter().map(|l| l.0).filter(|l| *l != "big").collect();
        let dir = std::env::var("MVH_VERIF_DIR").unwrap_or_else(|_| "/verif".to_string());
        let open = mvh::runner::load_known(&format!("{}/known_findings.json", dir)).into_iter().filter(|k| k.property == id && k.status == "open").map(|k| k.signature).collect();
        Ctx { chk, lanes, open }
    })
}

fuzz_target!(
    init: {
        mvh::runner::install_panic_hook();
        let _ = ctx();
    },
    |data: &[u8]| {
        if data.is_empty() {
            return;
        }
        let c = ctx();
        let lane = c.lanes[data[0] as usize % c.lanes.len()];
        let v: Vec<u16> = data[1..].chunks(2).map(|p| u16::from_le_bytes([p[0], *p.get(1).unwrap_or(&0)])).collect();
        let mut src = Src::new(&v);
        let mut rep = Report::default();
        let r = guard("case", || c.chk.run_case(lane, &mut src, &mut rep)).and_then(|x| x);
        if let Err(f) = r {
            if c.open.contains(&f.sig) || f.sig == "harness-panic" {
                return;
            }
            eprintln!("VIOLATION-CANDIDATE property={} lane={} sig={} :: {}\ncase: {}", c.chk.id(), lane, f.sig, f.msg, rep.desc);
            std::process::abort();
        }
    }
);
