#!/bin/bash
# usage: fuzz_sweep.sh <seconds per target> [jobs]  -- one libFuzzer campaign per check + raw targets;
# prints one line per target; exit 1 if any campaign printed a VIOLATION, 2 if any was inconclusive.
SECS="${1:-120}"; JOBS="${2:-16}"
rc=0
for t in C01 C02 C03 C04 C05 C06 C07 C08 C09 C10 C11 C12 C13 C14 C15 C16 C17 C18 C19 C20 parse_all decode_script; do
  out=$(/verif/tools/fuzz_campaign.sh $t $SECS $JOBS 2>&1); r=$?
  echo "[$t] rc=$r $(echo "$out" | grep -E '^fuzz campaign|VIOLATION|KNOWN|inconclusive' | tr '\n' ' ' | cut -c1-400)"
  [ $r -eq 1 ] && rc=1
  [ $r -eq 2 ] && [ $rc -eq 0 ] && rc=2
done
exit $rc
