#!/bin/bash
# usage: fuzz_campaign.sh <target> <seconds> [jobs]
#   <target> = C01..C20 (coverage-guided search over that check's choice stream, `case` target)
#            | parse_all | decode_script (raw inputs)
# exit 0: nothing found; exit 1: VIOLATION line printed; exit 2: infrastructure problem / inconclusive.
set -u
T="$1"; SECS="${2:-120}"; JOBS="${3:-8}"
SEED="${VERIF_SEED:-1}"
FUZZ=/verif/fuzz
BIN_DIR=$FUZZ/target/x86_64-unknown-linux-gnu/release
case "$T" in
  C[0-9][0-9]) BIN=case; export MVH_FUZZ_CHECK="$T"; MAXLEN=1200 ;;
  parse_all) BIN=parse_all; MAXLEN=4096 ;;
  decode_script) BIN=decode_script; MAXLEN=1024 ;;
  *) echo "unknown target $T"; exit 2 ;;
esac
# (re)build the fuzz targets against the current /repo tree
( cd /verif/harness && CARGO_NET_OFFLINE=true cargo +nightly fuzz build --fuzz-dir $FUZZ --sanitizer none >/tmp/mvh-fuzz-build.log 2>&1 ) || { echo "fuzz build failed (see /tmp/mvh-fuzz-build.log)"; exit 2; }
WORK=/verif/work/fuzz-$T
rm -rf "$WORK"; mkdir -p "$WORK/corpus" "$WORK/artifacts"
[ -d /verif/corpus/$T ] && cp /verif/corpus/$T/* "$WORK/corpus/" 2>/dev/null
pids=()
for j in $(seq 1 "$JOBS"); do
  mkdir -p "$WORK/c$j"
  cp "$WORK"/corpus/* "$WORK/c$j/" 2>/dev/null
  "$BIN_DIR/$BIN" "$WORK/c$j" -max_total_time="$SECS" -seed=$((SEED * 1000 + j)) -len_control=0 -max_len=$MAXLEN \
      -timeout=60 -rss_limit_mb=4096 -artifact_prefix="$WORK/artifacts/j$j-" >"$WORK/log$j.txt" 2>&1 &
  pids+=($!)
done
for p in "${pids[@]}"; do wait "$p"; done
# executions: the "Done N runs" line of each job, or (when a job was stopped inside a long case)
# the last "#N" status line
execs=0
for lf in "$WORK"/log*.txt; do
  n=$(grep -h "^Done" "$lf" | awk '{print $2}' | tail -1)
  [ -z "$n" ] && n=$(grep -ho "^#[0-9]*" "$lf" | tr -d '#' | sort -n | tail -1)
  execs=$((execs + ${n:-0}))
done
cov=$(grep -h "cov: " "$WORK"/log*.txt | sed 's/.*cov: \([0-9]*\).*/\1/' | sort -n | tail -1)
corp=$(ls "$WORK"/c1 2>/dev/null | wc -l)
echo "fuzz campaign $T: $JOBS jobs x ${SECS}s, $execs executions, max edge coverage ${cov:-0}, corpus of job 1: $corp files"
# record the campaign in the evidence file of the property it serves (written just before by `check`)
EV_ID="$T"; [ "$T" = parse_all ] && EV_ID="${FUZZ_EVIDENCE_ID:-C11}"; [ "$T" = decode_script ] && EV_ID="${FUZZ_EVIDENCE_ID:-C04}"
EV="${MVH_VERIF_DIR:-/verif}/evidence/$EV_ID.json"
if [ -f "$EV" ]; then
python3 - "$EV" "$T" "$JOBS" "$SECS" "$execs" "${cov:-0}" "$corp" <<'PY'
import json,sys
ev,t,jobs,secs,execs,cov,corp=sys.argv[1:]
d=json.load(open(ev))
c=d.setdefault('coverage',{})
f=c.setdefault('fuzz_campaigns',[])
f.append({"target":t,"engine":"libFuzzer (cargo-fuzz, coverage-guided over the check's choice stream)" if t.startswith('C') else "libFuzzer (raw input)","jobs":int(jobs),"seconds_per_job":int(secs),"executions":int(execs),"max_edge_coverage":int(cov),"corpus_files_job1":int(corp)})
json.dump(d,open(ev,'w'),indent=1)
PY
fi
rc=0
for a in "$WORK"/artifacts/*; do
  [ -e "$a" ] || continue
  case "$a" in
    *timeout-*|*oom-*) echo "inconclusive artifact (timeout/oom): $a"; [ $rc -eq 0 ] && rc=2; continue ;;
  esac
  if [ "$BIN" = case ]; then
    ( cd /verif/harness && ./target/release/check "$T" --from-fuzz "$a" ); r=$?
    [ $r -eq 1 ] && rc=1
  else
    ext=rawtext; prop=C11; [ "$BIN" = decode_script ] && ext=rawscript
    dst=/verif/replays/$(basename "$a").$ext
    cp "$a" "$dst"
    out=$(cd /verif/harness && ./target/release/check C11 --replay "$dst"); r=$?
    if [ $r -ne 1 ] && [ "$BIN" = decode_script ]; then out=$(cd /verif/harness && ./target/release/check C04 --replay "$dst"); r=$?; fi
    echo "$out" | tail -3
    if [ $r -eq 1 ]; then rc=1; else rm -f "$dst"; fi
  fi
done
exit $rc
