#!/bin/bash
# usage: run_all.sh [seed] [tier]  -- runs every check once (scratch evidence dir unless KEEP=1), prints one line each
SEED=${1:-1}; TIER=${2:-quick}
D=/tmp/mvh-all-$SEED; rm -rf $D; mkdir -p $D; cp /verif/known_findings.json $D/; [ -d /verif/replays ] && cp -r /verif/replays $D/ 
[ "${KEEP:-0}" = 1 ] && D=/verif
for i in $(seq -w 1 20); do
  out=$(MVH_VERIF_DIR=$D MVH_SCALE=${SCALE:-1} ${BIN:-/verif/harness/target/release/check} C$i --tier $TIER --seed $SEED 2>&1 | grep -v "^KNOWN" | tail -3 | cut -c1-900)
  echo "$out" | tail -2
done
