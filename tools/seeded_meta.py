#!/usr/bin/env python3
"""Writes /verif/seeded/<id>/meta.json from the table below, the confirm.log of each seeded change and
a matrix log produced by tools/mutant_matrix.sh (argument 1).  Also prints a markdown summary."""
import json, os, re, sys

T = {
 "C01-A": ("C01", "sat_dissat.rs: sortedmulti_a satisfier sorts keys with into_sorted_bip67 (full key) while the encoder sorts x-only", "tr leaf with sortedmulti_a, full (non x-only) keys, at least one odd-Y key so both orders differ"),
 "C01-B": ("C01", "psbt/mod.rs PsbtInputSatisfier::check_older: `version < 2 || !relative` became `&&`", "nVersion-1 transaction, older() branch, matching nSequence"),
 "C02-A": ("C02", "RelLockTime::max / AbsLockTime::max return None on equal values (treated as unit mismatch)", "the same lock value twice on one satisfaction path"),
 "C02-B": ("C02", "Satisfaction::minimum (true,true) arm labels the cheaper signed branch has_sig:false", "two sibling ORs of signature branches under an or/thresh parent, signer holds all keys"),
 "C03-A": ("C03", "Satisfaction::minimum (false,true) arm labels the chosen unsigned branch has_sig:true", "nested disjunctions, unsigned branch first and dearer than a signature (>=3 preimages), signer holds everything"),
 "C03-B": ("C03", "Satisfaction::thresh sort key uses the dissatisfactions' has_sig (always false)", "thresh k<n with k+1 signing children and an unsigned child that is dear or whose preimage the signer lacks"),
 "C04-A": ("C04", "script_size() of multi_a sizes the push of n instead of k", "multi_a/sortedmulti_a with >=17 keys and k<=16"),
 "C04-B": ("C04", "Terminal::encode pushes older() through relative::LockTime (drops bits BIP68 ignores)", "older(n) with bits outside 0x0040ffff"),
 "C05-A": ("C05", "Malleability::or_c drops the (s_X or s_Z) condition", "or_c with unsigned d/u/e/m left child and unsigned V right child"),
 "C05-B": ("C05", "Correctness::cast_or_i_false yields OneNonZero for l:/u:", "only the compiler's cast table (stored with from_components_unchecked) uses it: compile thresh(2,pk,pk,older)"),
 "C06-A": ("C06", "Correctness::threshold no longer requires the first child to be a unit", "thresh whose first child is l:after(k) with lock value == k"),
 "C06-B": ("C06", "Correctness::cast_swap accepts zero-argument children", "s: over a z fragment (s:1, s:after(n)) with an extra element underneath"),
 "C07-A": ("C07", "Semantic::normalized counts trivial/unsatisfiable children before normalising them", "or_i(1,X) / andor(X,Y,1) under another combinator (consensus-only scripts)"),
 "C07-B": ("C07", "TapTree::lift drops leaves whose lift fails", "taproot tree with a liftable leaf and a spendable leaf that mixes lock units"),
 "C08-A": ("C08", "compiler and-or block compiles x[1] twice: or(X,and(P,Q)) drops P", "right child of or() is an and() whose first conjunct is dearer than its key-bearing second"),
 "C08-B": ("C08", "has_if_fragment checks n: instead of j:", "compile_tr_native with too few leaves and a thresh child and(pk,hash)"),
 "C09-A": ("C09", "ExtData::or_i dissat_data uses with_0/with_1 swapped", "or_i(L,R) with only L dissatisfiable, dissatisfied on the dearest path, worst-case signature sizes"),
 "C09-B": ("C09", "ExtData::cast_zeronotequal inherits has_free_verify", "v: directly on n: directly on a fragment with a free verify"),
 "C10-A": ("C10", "verify_checksum compares decoded symbols (case-insensitive)", "a checksum letter replaced by its upper-case form"),
 "C10-B": ("C10", "TapTreeBuilder::push_leaf forgets to clear complete_128", "two separate sibling pairs at depth 128"),
 "C11-A": ("C11", "interpreter CHECKMULTISIG stack-depth guard k instead of k+1", "multi(k,..) reached with exactly k stack elements, top one empty"),
 "C11-B": ("C11", "checksum character test admits DEL (0x7f)", "0x7f before a '#' + 8 characters, or pkh(A\\x7f) then to_string()"),
 "C12-A": ("C12", "TimelockInfo::combine_threshold misses height-before-time for relative locks", "conjunction with a height older before a time older"),
 "C12-B": ("C12", "ValidationParams::intersect keeps the larger max_opcode_count", "otherwise sane script with >201 opcodes in Legacy/Bare/Segwitv0"),
 "C13-A": ("C13", "Stack::evaluate_older compares consensus u32 instead of is_implied_by", "height-based older under a time-based nSequence"),
 "C13-B": ("C13", "interpreter thresh accepts >= k when the last child is satisfied", "witness mutated so that more than k children are satisfied, last one among them"),
 "C14-A": ("C14", "PsbtInputSatisfier::check_older `||` -> `&&` (same site as C01-B)", "nVersion-1 PSBT, older() branch"),
 "C14-B": ("C14", "finalize_input 'already final' guard ignores final_script_sig", "second finalize call reaching a final pre-segwit input"),
 "C15-A": ("C15", "TapTreeBuilder::push_leaf forgets to clear complete_128 (as C10-B)", "two sibling pairs at depth 128"),
 "C15-B": ("C15", "BitStack128 rewritten with a sentinel bit: capacity 127", "leaf at depth 128 whose path starts with left branches"),
 "C16-A": ("C16", "into_single_descriptors picks from full_derivation_paths (origin leaks into the path)", "multipath key with a non-empty origin"),
 "C16-B": ("C16", "at_derivation_index derives a hardened wildcard as a normal child", "xpub/*h derived at an index"),
 "C17-A": ("C17", "Assets::has_* look only at the first matching key source", "same key source twice with different CanSign"),
 "C17-B": ("C17", "DupIf arm of the satisfier rebuilds the satisfaction without the child's time locks", "chosen path passes through d: over a lock"),
 "C18-A": ("C18", "Policy::normalized: n no longer subtracts trivial_count", "threshold with TRIVIAL and UNSATISFIABLE children and a nested and()"),
 "C18-B": ("C18", "Policy::at_age compares raw consensus values", "height older() filtered at a time-based age"),
 "C19-A": ("C19", "RelLockTime::cmp_by_consensus masks with 0x0040ffff", "two older values equal modulo the mask"),
 "C19-B": ("C19", "PartialEq for Terminal merges multi/sortedmulti arms", "pair differing only in multi vs sortedmulti"),
 "C20-A": ("C20", "PkIter::next moves on one leaf only", "tr with a key-less leaf followed by leaves with keys (constructor-built)"),
 "C20-B": ("C20", "Concrete::translate_pk reverses the odds of or()", "or() with unequal odds"),
 "C01-C": ("C01", "Satisfaction::minimum (true,false) arm takes relative_timelock from the wrong candidate", "plan API, non-malleable, or-fragment: signed first branch, unsigned second branch with older, nested under something signed; caller holds both"),
 "C01-D": ("C01", "sat_dissat.rs AndOr dissatisfaction: concatenate_rev receiver and argument swapped", "andor dissatisfied on the chosen path with a pkh / hash / or_i child (non-empty dissatisfactions)"),
 "C02-C": ("C02", "sat_dissat.rs: j: folded into the no-effect wrapper group (dissatisfaction of j:X becomes X's)", "j: over a forced X, dissatisfied while a sibling is satisfied (or_b / andor / thresh)"),
 "C02-D": ("C02", "PsbtInputSatisfier::check_older accepts relative locks only for nVersion == 2", "PSBT with nVersion 3, older() path is the only option"),
 "C03-C": ("C03", "psbt/finalizer.rs construct_tap_witness: non-malleable and malleable satisfier calls swapped", "PSBT finalize of a taproot script path where the two satisfiers differ"),
 "C03-D": ("C03", "Witness::ripemd160_preimage: missing preimage is Impossible instead of Unavailable", "ripemd160() as the unsigned alternative next to a signed one; signer lacks the preimage"),
 "C04-C": ("C04", "DefiniteDescriptorKey loses its is_uncompressed() forwarder", "DefiniteDescriptorKey with a raw uncompressed key in pk_k / multi in Legacy / Bare"),
 "C04-D": ("C04", "lexer drops NumEqual from the non-minimal VERIFY check", "tapscript with a hand-split NUMEQUAL VERIFY after multi_a"),
 "C05-C": ("C05", "Miniscript::multi_a constructor stores the type of multi", "multi_a built by the direct constructor / decoder / compiler (not from_str / from_ast)"),
 "C05-D": ("C05", "Correctness::and_or input table: swapped tuple fields in one arm", "andor(X,Y,Z) with X,Z exactly Input::One and Y zero-argument"),
 "C06-C": ("C06", "Legacy::check_global_consensus_validity no longer refuses sortedmulti_a", "Miniscript::<_, Legacy>::from_ast(Terminal::SortedMultiA) (from_str still rejects)"),
 "C06-D": ("C06", "RelLockTime validation accepts 0", "older(0) through any entry point"),
 "C07-C": ("C07", "Correctness::sortedmulti_a typed AnyNonZero", "tr leaf j:sortedmulti_a(..), spend without the first-sorted key"),
 "C07-D": ("C07", "push_ms_key_hash hashes the compressed serialisation", "pk_h / pkh fragment (not the pkh() descriptor) with an uncompressed key in sh / bare"),
 "C08-C": ("C08", "RelLockTime::cmp_by_consensus ignores the unit flag (compiler cache key collision)", "policy with a block and a time older of equal low 16 bits"),
 "C08-D": ("C08", "Concrete::timelock_info reads only k of a thresh's n children", "thresh(1<k<n) with height vs time children, one at position > k"),
 "C09-C": ("C09", "Plan::scriptsig_size: OP_PUSHDATA1 boundary 76 instead of 75", "plan on bare sh(ms) with a redeem script of exactly 76 bytes, worst-case signatures"),
 "C09-D": ("C09", "Miniscript::pk_h constructor computes ExtData without the key (assumes compressed)", "uncompressed key in a parsed / compiled pk_h (translate_pk restores the figure)"),
 "C10-C": ("C10", "FromTree for Miniscript: every childless child of thresh treated like k", "thresh with a (wrapped) constant child: thresh(1,pk(A),a:0)"),
 "C10-D": ("C10", "Display for DescriptorSecretKey prints a hardened wildcard as /*", "single-path xprv with /*h"),
 "C11-C": ("C11", "into_single_descriptors indexes derivation paths unchecked", "tr with multipath keys of different lengths in leaf and internal key, then into_single_descriptors()"),
 "C11-D": ("C11", "expression::verify_threshold no longer rejects a k that has children", "policy thresh(2(pk(A),pk(B)),pk(C),pk(D))"),
 "C12-C": ("C12", "Segwitv0::check_global_consensus_validity skips sortedmulti keys", "wsh(sortedmulti(..)) with an uncompressed key via Descriptor::from_str / from_ast"),
 "C12-D": ("C12", "ExtData::and_or tree_height ignores the third child", "deepest path through an andor else-branch; max_recursive_depth"),
 "C13-C": ("C13", "interpreter stack Element::from treats any all-zero byte string as Dissatisfied", "empty witness element replaced by zero junk (00), or an all-zero preimage"),
 "C13-D": ("C13", "from_txdata sh(wsh) branch lost the NonEmptyScriptSig check", "sh(wsh()) spend with extra pushes below the redeem-script push"),
 "C14-C": ("C14", "Interpreter::verify_sig Schnorr: sighash failure counts as success", "taproot input signed SIGHASH_SINGLE at an index >= number of outputs"),
 "C14-D": ("C14", "construct_tap_witness builds the raw-pkh map with the ECDSA key hash", "taproot leaf containing pkh() as the only satisfiable leaf"),
 "C15-C": ("C15", "TapTree::combine depth check off by one", "combine-built tree with a leaf at depth exactly 128"),
 "C15-D": ("C15", "TrSpendInfo::to_tap_tree drops single-leaf trees", "tr(KEY,leaf).to_tap_tree() / PSBT output update"),
 "C16-C": ("C16", "DefiniteDescriptorKey::derive_public_key compresses uncompressed single keys", "raw 04.. key as descriptor key in pkh / bare / sh"),
 "C16-D": ("C16", "Threshold::into_sorted_bip67_xonly sorts by the 33-byte key", "tr(.., sortedmulti_a(..)) with parity-carrying keys"),
 "C17-C": ("C17", "Sh::plan_satisfaction_mall uses build_template (non-malleable) for ShInner::Ms", "plain sh(ms), malleable plan mode, script where the two algorithms differ"),
 "C17-D": ("C17", "RelLockTime::max picks by raw consensus value", "two same-unit older() on the path, one with bits BIP68 ignores"),
 "C18-C": ("C18", "TimelockInfo::combine_threshold carries contains_combination only for k > 1", "height/time conflict inside a conjunction below a disjunction"),
 "C18-D": ("C18", "semantic variant_name names Hash160 'ripemd160'", "ripemd160() and hash160() atoms as siblings, then sorted()/Ord"),
 "C19-C": ("C19", "Terminal::nary_len forgets multi_a / sortedmulti_a", "Tap: multi_a key lists where one is a strict prefix of the other"),
 "C19-D": ("C19", "Clone for Terminal rebuilds n: as j:", "clone of a bare Terminal whose top node is n:"),
 "C20-C": ("C20", "DefiniteDescriptorKey loses is_uncompressed (as C04-C)", "translate_pk to an uncompressed DefiniteDescriptorKey in segwit / taproot"),
 "C20-D": ("C20", "ForEachKey for Miniscript skips SortedMultiA", "tr with a sortedmulti_a leaf"),
 "C01-E": ("C01", "Placeholder::satisfy_self Pubkey arm decides x-only by the key's own form instead of the context's pk_len", "tr leaf with pkh() on the path and a full (33-byte / xpub) key"),
 "C01-F": ("C01", "RelLockTime::max compares raw values (as C17-D, written independently)", "two same-unit older() on a path, the smaller one with BIP68-ignored bits"),
 "C02-E": ("C02", "Placeholder::PubkeyHash completion drops the lookup_raw_pkh_ecdsa_sig fallback", "decoded script (raw pkh), satisfier that knows the key only together with a signature"),
 "C02-F": ("C02", "Sh::get_satisfaction_mall calls the non-malleable satisfier for sh(wsh(..))", "sh(wsh()) in malleable mode where only the malleable algorithm succeeds"),
 "C03-E": ("C03", "Miniscript::get_nth_child drops the second child of or_c (duplicate-key check blind there)", "or_c whose right branch shares a key with the rest of the script"),
 "C03-F": ("C03", "PsbtInputSatisfier::check_older only for nVersion == 2 (as C02-D, C03 angle)", "PSBT nVersion 3, older as unsigned alternative, extra signatures present"),
 "C04-E": ("C04", "Correctness::sortedmulti_a input AnyNonZero (as C07-C)", "sortedmulti_a round trip: type differs / j:sortedmulti_a accepted"),
 "C04-F": ("C04", "ParseableKey for bitcoin::PublicKey parses via secp (accepts hybrid 06/07 keys)", "script with a hybrid-encoded 65-byte key in Bare / Legacy"),
 "C05-E": ("C05", "Malleability::or_i: wildcard arm grants Unique dissat when one side is Unknown", "or_i with a forced branch and a branch with unknown dissatisfaction"),
 "C05-F": ("C05", "Correctness::threshold skips the unit check for the first child (as C06-A)", "thresh whose first child is dissatisfiable but not unit"),
 "C06-E": ("C06", "Miniscript::expr_raw_pkh constructor carries the type of pk_k", "raw pkh through the constructor path (text with raw pkh allowed, script decoder)"),
 "C06-F": ("C06", "older encoder pushes relative::LockTime-converted value (as C04-B)", "older(65536) encodes as OP_0 CSV"),
 "C07-E": ("C07", "Legacy::check_local_consensus_validity reads only max_exec_op_count", "sh script with more than 201 opcodes under 520 bytes built by from_ast / MAX parameters, then lift()"),
 "C07-F": ("C07", "lexer maps OP_PUSHNUM_14 to 13", "script containing OP_14 as lock value or threshold"),
 "C08-E": ("C08", "Policy::enumerate_leaves pushes the wrong variable (a branch disappears from the tap tree)", "compile_tr_private / native: or of a non-splittable and a splittable branch"),
 "C08-F": ("C08", "Segwitv0::check_global_consensus_validity no longer checks pk_h keys", "compile to segwit v0 with an uncompressed bitcoin::PublicKey"),
 "C09-E": ("C09", "Tr::max_weight_to_satisfy: control block length prefix from the script size", "tap leaf at depth >= 7 with a script under 253 bytes, spent through it"),
 "C09-F": ("C09", "ExtData::or_c: max_exec_op_count max instead of sum", "or_c with multi on both sides, pre-taproot"),
 "C10-E": ("C10", "Sh Display passes the alternate flag to the inner miniscript", "sh(ms) containing after() or a hash"),
 "C10-F": ("C10", "checksum CHAR_MAP: '.' shares the value of '-'", "strings containing '.' (only String key names)"),
 "C11-E": ("C11", "ExtData::or_i tree_height ignores the right child (depth limit blind, stack overflow)", "100k l: wrappers / deep IF 0 ELSE nesting in tapscript"),
 "C11-F": ("C11", "at_derivation_index skips DefiniteDescriptorKey::new (hardened step after xpub reaches unreachable!)", "xpub/1h/* descriptor, derive then use"),
 "C12-E": ("C12", "get_nth_child drops the second child of or_c (as C03-E; validate switches blind there)", "or_c with the defect only in its right branch"),
 "C12-F": ("C12", "DefiniteDescriptorKey loses is_uncompressed (as C04-C / C20-C)", "DefiniteDescriptorKey with an uncompressed key in segwit / taproot"),
 "C13-E": ("C13", "interpreter Multi arm does not consume a matched key", "multi k>=2, witness with the same signature twice"),
 "C13-F": ("C13", "from_txdata P2TR: annex detected without the two-element requirement", "key-path spend whose signature starts with 0x50"),
 "C14-E": ("C14", "PsbtInputSatisfier::lookup_hash256 converts the hash via its (reversed) string form", "descriptor with hash256(), preimage supplied through the PSBT"),
 "C14-F": ("C14", "update_item_with_descriptor_helper: a rejected update still writes into the PSBT", "update with a mismatching descriptor, then the right one"),
 "C15-E": ("C15", "TapTree fmt_helper closes braces lazily and loses a level", "tree where a non-last leaf completes two or more nested branches"),
 "C15-F": ("C15", "TapTree::translate_pk rebuilds through the builder opening at most one level per leaf", "key translation of a tree that does not lean right"),
 "C16-E": ("C16", "Miniscript::for_each_key loses sortedmulti_a keys (as C20-D)", "tr(fixed key, sortedmulti_a(k, xpub/<0;1>/*, ..))"),
 "C16-F": ("C16", "PSBT updater returns the witness script as redeem script of sh(wsh())", "sh(wsh()) PSBT input / output update"),
 "C17-E": ("C17", "is_key_direct_child_of matches every descendant of a key source", "asset key source two or more levels above the descriptor key"),
 "C17-F": ("C17", "Plan::scriptsig_size: OP_PUSHDATA1 boundary (as C09-C)", "plain sh(ms) with a 76-byte redeem script"),
 "C18-E": ("C18", "minimum_n_keys sums Option with early exit (work stack corrupted)", "conjunction with an unsatisfiable non-last child nested under another threshold, not normalized"),
 "C18-F": ("C18", "concrete timelock_info: time-based older recorded as cltv_with_time", "concrete policy with a time-based older() in a conjunction"),
 "C19-E": ("C19", "concrete Policy::variant_name labels Hash160 'hash256'", "hash160 vs hash256 concrete policy pair"),
 "C19-F": ("C19", "Ord for Tr compares leaves without their depths", "same leaves, different tree shapes"),
 "C20-E": ("C20", "get_nth_child drops the second child of or_c (as C03-E; iter_pk misses keys)", "or_c with a key in its right child"),
 "C20-F": ("C20", "translate_pk_ctx rebuilds a: as s:", "any key translation of a miniscript using the a: wrapper"),
 "C01-G": ("C01", "Pkh::get_satisfaction pushes the key always in compressed form", "top-level pkh(K) with an uncompressed key, direct satisfaction"),
 "C01-H": ("C01", "Plan::satisfy drops placeholders the satisfier cannot fill instead of failing", "plan completed with a satisfier holding a strict non-empty subset of what the plan uses"),
 "C04-G": ("C04", "decoder validates the multi_a threshold against the CHECKMULTISIG limit (20)", "tapscript multi_a with k > 20"),
 "C04-H": ("C04", "MsKeyBuilder::push_ms_key (ECDSA arm) always pushes the compressed key", "pk_k with an uncompressed key in Bare / Legacy"),
 "C08-G": ("C08", "check_binary_ops accepts or() with more than two children (third branch silently lost)", "n-ary Concrete::Or built through the enum constructor"),
 "C08-H": ("C08", "compiler insert_elem no longer refuses d: where the context forbids it", "Legacy / Bare target, thresh(k<n) with a timelock child"),
 "C10-G": ("C10", "expression parser depth guard > became >= (limit 402)", "text of bracket depth exactly 402"),
 "C10-H": ("C10", "WalletPolicy key translation hard-codes an unhardened wildcard", "descriptor with /<0;1>/*h keys through WalletPolicy::from_descriptor"),
 "C12-G": ("C12", "BareCtx multisig key-count check uses k instead of n", "bare multi with k <= 3 < n"),
 "C12-H": ("C12", "Tap::SANE max_exec_stack_size taken from MAX_SCRIPT_SIZE", "tap leaf needing 1001..10000 stack elements (multi_a with 999 keys)"),
 "C13-G": ("C13", "from_txdata plain P2SH branch decodes the redeem script in the Segwitv0 context", "sh() with an uncompressed key in pk_k / multi"),
 "C13-H": ("C13", "Stack::evaluate_after: operands swapped in the time-based arm", "after(n >= 500000000) with nLockTime on either side of n"),
 "C14-G": ("C14", "finalizer get_utxo indexes non_witness_utxo by the input's position instead of vout", "pre-segwit input whose vout differs from its index"),
 "C14-H": ("C14", "update_input_with_descriptor compares only the script of witness_utxo and non_witness_utxo", "both utxo forms present with different amounts"),
 "C16-G": ("C16", "DescriptorMultiXKey<Xpriv>::to_public shared-prefix uses any instead of all", "secret multipath key with 3+ alternatives, a later one repeating the first"),
 "C16-H": ("C16", "Wsh::new_sortedmulti builds Terminal::Multi", "wsh / sh(wsh) sortedmulti through the constructors with unsorted keys"),
 "C18-G": ("C18", "Semantic::at_lock_time via is_satisfied_by with the other unit pinned to its minimum", "after(500000000) filtered at a block height"),
 "C18-H": ("C18", "Concrete::lift: or() with an UNSATISFIABLE child lifts to UNSATISFIABLE", "concrete or() with an unsatisfiable and a satisfiable branch"),
 "C20-G": ("C20", "Miniscript::translate_pk runs top_level_checks on the result", "translate_pk on a V/K/W sub-node or a non-standard bare miniscript"),
 "C20-H": ("C20", "Semantic::translate_pk maps TRIVIAL to UNSATISFIABLE", "semantic policy containing TRIVIAL"),
 "C02-G": ("C02", "best_tap_spend passes allow_mall in the root_has_sig slot of build_template", "tr script-path leaf with a signed branch or-ed with an unmet timelock branch, non-malleable mode"),
 "C02-H": ("C02", "thresh_mall sort key drops the forced-satisfaction arm for children with no dissatisfaction", "malleable mode, decoded thresh with a raw pkh child whose key is known only with its signature"),
 "C03-G": ("C03", "ValidationParams::intersect takes allow_or_i from one side only", "sane legacy/bare or_i (no MINIMALIF in P2SH): selector swap"),
 "C03-H": ("C03", "has_repeated_keys ignores sortedmulti / sortedmulti_a", "key shared between a sorted multisig and another fragment"),
 "C05-G": ("C05", "Type::type_check groups RawPkH with PkK (claims o)", "expr_raw_pkh typed through from_ast / translate / type_check"),
 "C05-H": ("C05", "Correctness::or_i accepts (W,W)", "or_i of two a:/s: wrapped children"),
 "C06-G": ("C06", "Type::sortedmulti_a uses the sortedmulti correctness (claims n)", "tap sortedmulti_a k<n, n flag / j: wrapper"),
 "C06-H": ("C06", "substitute_raw_pkh rebuilds andor with b and c swapped, old type reattached", "andor with asymmetric children through substitute_raw_pkh"),
 "C07-G": ("C07", "Wsh::new uses other_top_level_checks (no B-type rule)", "constructor with a K-typed miniscript"),
 "C07-H": ("C07", "substitute_raw_pkh rebuilds andor with b and c swapped", "decode -> substitute_raw_pkh -> lift of an asymmetric andor"),
 "C09-G": ("C09", "script_size thresh arm assumes a one-byte k push", "thresh with k >= 17"),
 "C09-H": ("C09", "Segwitv0::max_satisfaction_size returns max_script_sig_size", "wsh whose costliest path pushes a 1 (or_i left / d:)"),
 "C11-G": ("C11", "PsbtInputSatisfier preimage helper panics on a preimage longer than 32 bytes", "psbt with an over-long preimage for a hash of the script"),
 "C11-H": ("C11", "is_key_direct_child_of split_at panics on a deeper asset path", "Assets with same fingerprint and a strictly longer derivation path"),
 "C15-G": ("C15", "Tr::translate_pk swallows errors from the script tree", "fallible translation failing inside a leaf only"),
 "C15-H": ("C15", "taptree branch arity check lost its upper bound", "descriptor text with a 3-child branch"),
 "C17-G": ("C17", "Placeholder::Pubkey always pushes the compressed serialization", "uncompressed key revealed by hash, plan completed"),
 "C17-H": ("C17", "TaprootAvailableLeaves::Many searched with binary_search", "script_spend = Many(unsorted list of >=2 leaf hashes)"),
 "C19-G": ("C19", "Miniscript::eq also compares cached ty/ext", "substitute_raw_pkh result vs parsed pkh with an uncompressed key"),
 "C19-H": ("C19", "semantic After ordering via LockTime::partial_cmp (height vs time Equal)", "two semantic policies differing in after leaves straddling 500000000"),
}

def main():
    mlog = sys.argv[1] if len(sys.argv) > 1 else None
    res = {}
    if mlog and os.path.exists(mlog):
        cur = None
        for line in open(mlog):
            m = re.match(r'##### (\S+)', line)
            if m:
                cur = m.group(1); res.setdefault(cur, []); continue
            m = re.match(r'\[(C\d\d)\] (DETECTED|missed): (.*)', line)
            if m and cur:
                res[cur] = [x for x in res[cur] if x["check"] != m.group(1)]  # a later run of the same check replaces the earlier one
                res[cur].append({"check": m.group(1), "result": m.group(2).lower(), "detail": m.group(3).strip()[:300]})
    rows = []
    for mid, (prop, what, needs) in sorted(T.items()):
        d = f'/verif/seeded/{mid}'
        if not os.path.isdir(d):
            continue
        conf = open(f'{d}/confirm.log').read().strip().splitlines() if os.path.exists(f'{d}/confirm.log') else []
        r = res.get(mid, [])
        old = json.load(open(f'{d}/meta.json')) if os.path.exists(f'{d}/meta.json') else {}
        if not r:
            r = old.get('checks_run', [])
        det = sorted({x['check'] for x in r if x['result'] == 'detected'})
        meta = {
            "id": mid, "breaks_property": prop, "change": what, "needs_to_manifest": needs,
            "files": {"patch": "patch.diff", "demonstration": "demo.rs (integration test: fails with the change, passes without)", "author_notes": "NOTES.md"},
            "confirmed_by": "tools/confirm_mutant.sh in the author's scratch worktree (removed afterwards): build with --features compiler, whole existing suite with the change, demonstration with and without the change",
            "confirmation": conf,
            "how_run_against_checks": "tools/run_mutant.sh <patch> <checks> (git apply on /repo or, with MUT_SCRATCH=1, on a scratch clone of /repo HEAD; quick tier, seed 1; always reverted)",
            "checks_run": r,
            "detected_by": det,
        }
        if 'note' in old:
            meta['note'] = old['note']
        json.dump(meta, open(f'{d}/meta.json', 'w'), indent=1)
        rows.append((mid, prop, what, ", ".join(det) if det else "— (quick tier)"))
    print("| change | breaks | what | caught by (quick tier, seed 1) |\n|---|---|---|---|")
    for r in rows:
        print("| %s | %s | %s | %s |" % r)

main()
