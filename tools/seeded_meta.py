#!/usr/bin/env python3
"""Writes /verif/seeded/<id>/meta.json from the table below, the confirm.log of each seeded change and
a matrix log produced by tools/mutant_matrix.sh (argument 1).  Also prints a markdown summary."""
import json, os, re, sys

T = {
 "C01-A": ("C01", "sat_dissat.rs: sortedmulti_a satisfier sorts keys with into_sorted_bip67 (full key) while the encoder sorts x-only", "tr leaf with sortedmulti_a, full (non x-only) keys, at least one odd-Y key so both orders differ"),
 "C01-B": ("C01", "psbt/mod.rs PsbtInputSatisfier::check_older: `version < 2 || !relative` became `&&`", "nVersion-1 transaction, older() branch, matching nSequence"),
 "C02-A": ("C02", "RelLockTime::max / AbsLockTime::max return None on equal values (treated as unit mismatch)", "the same lock value twice on one satisfaction path"),
 "C02-B": ("C02", "Satisfaction::minimum (true,true) arm labels the cheaper signed branch has_sig:false", "two sibling ORs of signature branches under an or/thresh parent, signer holds all keys"),
 "C03-A": ("C03", "Satisfaction::minimum (false,true) arm labels the chosen unsigned branch has_sig:true", "nested disjunctions, unsigned branch first and dearer than a signature (>=3 preimages), signer holds everything"),
 "C03-B": ("C03", "Satisfaction::thresh sort key uses the dissatisfactions' has_sig (always false)", "thresh k<n with k+1 signing children and an unsigned child that is dear or whose preimage the signer lacks"),
 "C04-A": ("C04", "script_size() of multi_a sizes the push of n instead of k", "multi_a/sortedmulti_a with >=17 keys and k<=16"),
 "C04-B": ("C04", "Terminal::encode pushes older() through relative::LockTime (drops bits BIP68 ignores)", "older(n) with bits outside 0x0040ffff"),
 "C05-A": ("C05", "Malleability::or_c drops the (s_X or s_Z) condition", "or_c with unsigned d/u/e/m left child and unsigned V right child"),
 "C05-B": ("C05", "Correctness::cast_or_i_false yields OneNonZero for l:/u:", "only the compiler's cast table (stored with from_components_unchecked) uses it: compile thresh(2,pk,pk,older)"),
 "C06-A": ("C06", "Correctness::threshold no longer requires the first child to be a unit", "thresh whose first child is l:after(k) with lock value == k"),
 "C06-B": ("C06", "Correctness::cast_swap accepts zero-argument children", "s: over a z fragment (s:1, s:after(n)) with an extra element underneath"),
 "C07-A": ("C07", "Semantic::normalized counts trivial/unsatisfiable children before normalising them", "or_i(1,X) / andor(X,Y,1) under another combinator (consensus-only scripts)"),
 "C07-B": ("C07", "TapTree::lift drops leaves whose lift fails", "taproot tree with a liftable leaf and a spendable leaf that mixes lock units"),
 "C08-A": ("C08", "compiler and-or block compiles x[1] twice: or(X,and(P,Q)) drops P", "right child of or() is an and() whose first conjunct is dearer than its key-bearing second"),
 "C08-B": ("C08", "has_if_fragment checks n: instead of j:", "compile_tr_native with too few leaves and a thresh child and(pk,hash)"),
 "C09-A": ("C09", "ExtData::or_i dissat_data uses with_0/with_1 swapped", "or_i(L,R) with only L dissatisfiable, dissatisfied on the dearest path, worst-case signature sizes"),
 "C09-B": ("C09", "ExtData::cast_zeronotequal inherits has_free_verify", "v: directly on n: directly on a fragment with a free verify"),
 "C10-A": ("C10", "verify_checksum compares decoded symbols (case-insensitive)", "a checksum letter replaced by its upper-case form"),
 "C10-B": ("C10", "TapTreeBuilder::push_leaf forgets to clear complete_128", "two separate sibling pairs at depth 128"),
 "C11-A": ("C11", "interpreter CHECKMULTISIG stack-depth guard k instead of k+1", "multi(k,..) reached with exactly k stack elements, top one empty"),
 "C11-B": ("C11", "checksum character test admits DEL (0x7f)", "0x7f before a '#' + 8 characters, or pkh(A\\x7f) then to_string()"),
 "C12-A": ("C12", "TimelockInfo::combine_threshold misses height-before-time for relative locks", "conjunction with a height older before a time older"),
 "C12-B": ("C12", "ValidationParams::intersect keeps the larger max_opcode_count", "otherwise sane script with >201 opcodes in Legacy/Bare/Segwitv0"),
 "C13-A": ("C13", "Stack::evaluate_older compares consensus u32 instead of is_implied_by", "height-based older under a time-based nSequence"),
 "C13-B": ("C13", "interpreter thresh accepts >= k when the last child is satisfied", "witness mutated so that more than k children are satisfied, last one among them"),
 "C14-A": ("C14", "PsbtInputSatisfier::check_older `||` -> `&&` (same site as C01-B)", "nVersion-1 PSBT, older() branch"),
 "C14-B": ("C14", "finalize_input 'already final' guard ignores final_script_sig", "second finalize call reaching a final pre-segwit input"),
 "C15-A": ("C15", "TapTreeBuilder::push_leaf forgets to clear complete_128 (as C10-B)", "two sibling pairs at depth 128"),
 "C15-B": ("C15", "BitStack128 rewritten with a sentinel bit: capacity 127", "leaf at depth 128 whose path starts with left branches"),
 "C16-A": ("C16", "into_single_descriptors picks from full_derivation_paths (origin leaks into the path)", "multipath key with a non-empty origin"),
 "C16-B": ("C16", "at_derivation_index derives a hardened wildcard as a normal child", "xpub/*h derived at an index"),
 "C17-A": ("C17", "Assets::has_* look only at the first matching key source", "same key source twice with different CanSign"),
 "C17-B": ("C17", "DupIf arm of the satisfier rebuilds the satisfaction without the child's time locks", "chosen path passes through d: over a lock"),
 "C18-A": ("C18", "Policy::normalized: n no longer subtracts trivial_count", "threshold with TRIVIAL and UNSATISFIABLE children and a nested and()"),
 "C18-B": ("C18", "Policy::at_age compares raw consensus values", "height older() filtered at a time-based age"),
 "C19-A": ("C19", "RelLockTime::cmp_by_consensus masks with 0x0040ffff", "two older values equal modulo the mask"),
 "C19-B": ("C19", "PartialEq for Terminal merges multi/sortedmulti arms", "pair differing only in multi vs sortedmulti"),
 "C20-A": ("C20", "PkIter::next moves on one leaf only", "tr with a key-less leaf followed by leaves with keys (constructor-built)"),
 "C20-B": ("C20", "Concrete::translate_pk reverses the odds of or()", "or() with unequal odds"),
}

def main():
    mlog = sys.argv[1] if len(sys.argv) > 1 else None
    res = {}
    if mlog and os.path.exists(mlog):
        cur = None
        for line in open(mlog):
            m = re.match(r'##### (\S+)', line)
            if m:
                cur = m.group(1); res.setdefault(cur, []); continue
            m = re.match(r'\[(C\d\d)\] (DETECTED|missed): (.*)', line)
            if m and cur:
                res[cur].append({"check": m.group(1), "result": m.group(2).lower(), "detail": m.group(3).strip()[:300]})
    rows = []
    for mid, (prop, what, needs) in sorted(T.items()):
        d = f'/verif/seeded/{mid}'
        if not os.path.isdir(d):
            continue
        conf = open(f'{d}/confirm.log').read().strip().splitlines() if os.path.exists(f'{d}/confirm.log') else []
        r = res.get(mid, [])
        if not r and os.path.exists(f'{d}/meta.json'):
            r = json.load(open(f'{d}/meta.json')).get('checks_run', [])
        det = sorted({x['check'] for x in r if x['result'] == 'detected'})
        meta = {
            "id": mid, "breaks_property": prop, "change": what, "needs_to_manifest": needs,
            "files": {"patch": "patch.diff", "demonstration": "demo.rs (integration test: fails with the change, passes without)", "author_notes": "NOTES.md"},
            "confirmed_by": "tools/confirm_mutant.sh in the author's scratch worktree (removed afterwards): build with --features compiler, whole existing suite with the change, demonstration with and without the change",
            "confirmation": conf,
            "how_run_against_checks": "tools/run_mutant.sh <patch> <checks> (git apply on /repo or, with MUT_SCRATCH=1, on a scratch clone of /repo HEAD; quick tier, seed 1; always reverted)",
            "checks_run": r,
            "detected_by": det,
        }
        json.dump(meta, open(f'{d}/meta.json', 'w'), indent=1)
        rows.append((mid, prop, what, ", ".join(det) if det else "— (quick tier)"))
    print("| change | breaks | what | caught by (quick tier, seed 1) |\n|---|---|---|---|")
    for r in rows:
        print("| %s | %s | %s | %s |" % r)

main()
