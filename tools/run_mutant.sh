#!/bin/bash
# usage: run_mutant.sh <patch.diff> <check id>...   -- applies the patch to /repo, runs the checks'
# quick tier against it (scratch evidence/replay dir), and always reverts /repo afterwards.
set -u
PATCH="$1"; shift
SCR=/tmp/mvh-mut
rm -rf "$SCR"; mkdir -p "$SCR"
cp /verif/known_findings.json "$SCR/"
cd /repo || exit 2
if ! git diff --quiet; then echo "repo dirty"; exit 2; fi
if ! git apply "$PATCH"; then echo "patch does not apply"; exit 2; fi
trap 'cd /repo && git checkout -- . && cd /verif/harness && cargo build --release --offline --bin check 2>/dev/null >/dev/null' EXIT
cd /verif/harness
cargo build --release --offline --bin check 2>&1 | grep -E "^error" -A 8 | head -20
for c in "$@"; do
  out=$(MVH_VERIF_DIR=$SCR MVH_SCALE=${SCALE:-1} timeout 1800 ./target/release/check $c --tier quick ${SEED:+--seed $SEED} 2>&1 | grep -v "^KNOWN" | tail -4 | cut -c1-700)
  if echo "$out" | grep -q "VIOLATION"; then echo "[$c] DETECTED: $(echo "$out" | grep '^FAIL' | cut -c1-400)"; else echo "[$c] missed: $(echo "$out" | tail -1 | cut -c1-200)"; fi
done
