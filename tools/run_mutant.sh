#!/bin/bash
# usage: run_mutant.sh <patch.diff> <check id>...
# Applies the patch to /repo, rebuilds the harness, runs the checks' quick tier against it with a
# scratch evidence/replay dir, and always reverts /repo afterwards (git checkout -- .).
# With MUT_SCRATCH=1 the same is done on a scratch copy (/tmp/mm-repo = clone of /repo HEAD,
# /tmp/mm-harness = copy of the harness pointing at it) so that /repo and /verif/harness stay
# usable meanwhile (MUT_SLOT=<n> selects one of several independent scratch copies so that
# several changes can be tried in parallel); the scratch copies are removed by `run_mutant.sh --clean`.
set -u
if [ "${1:-}" = "--clean" ]; then rm -rf /tmp/mm-repo* /tmp/mm-harness* /tmp/mvh-mut*; exit 0; fi
SLOT="${MUT_SLOT:-}"
PATCH="$1"; shift
SCR=/tmp/mvh-mut$SLOT
rm -rf "$SCR"; mkdir -p "$SCR"
cp /verif/known_findings.json "$SCR/"
if [ "${MUT_SCRATCH:-0}" = 1 ]; then
  REPO=/tmp/mm-repo$SLOT; H=/tmp/mm-harness$SLOT
  if [ ! -d $REPO/.git ]; then git clone -q /repo $REPO || exit 2; fi
  git -C $REPO checkout -q -- . ; git -C $REPO fetch -q origin; git -C $REPO reset -q --hard "$(git -C /repo rev-parse HEAD)"
  mkdir -p $H; rsync -a --delete --exclude target --exclude 'target-*' /verif/harness/ $H/
  sed -i "s#path = \"/repo\"#path = \"$REPO\"#" $H/Cargo.toml
else
  REPO=/repo; H=/verif/harness
fi
cd $REPO || exit 2
if ! git diff --quiet; then echo "repo dirty"; exit 2; fi
if ! git apply "$PATCH"; then echo "patch does not apply"; exit 2; fi
if [ "${MUT_SCRATCH:-0}" = 1 ]; then
  trap 'cd $REPO && git checkout -- .' EXIT
else
  trap 'cd /repo && git checkout -- . && cd /verif/harness && cargo build --release --offline --bin check 2>/dev/null >/dev/null' EXIT
fi
cd $H
cargo build --release --offline --bin check 2>&1 | grep -E "^error" -A 8 | head -20
for c in "$@"; do
  out=$(MVH_VERIF_DIR=$SCR MVH_SCALE=${SCALE:-1} timeout 3600 ./target/release/check $c --tier ${TIER:-quick} ${SEED:+--seed $SEED} ${THREADS:+--threads $THREADS} 2>&1 | grep -v "^KNOWN" | tail -4 | cut -c1-700)
  if echo "$out" | grep -q "VIOLATION"; then echo "[$c] DETECTED: $(echo "$out" | grep -E '^FAIL|^VIOLATION' | head -1 | cut -c1-400)"; else echo "[$c] missed: $(echo "$out" | tail -1 | cut -c1-200)"; fi
done
