#!/usr/bin/env python3
"""Regenerate /verif/MANIFEST.json from the table below."""
import json
CHECKS = {
 "C01": ("Generated descriptors of every output type x generated worlds x 5 entry points; every returned satisfaction is executed by an independent reference Script interpreter under consensus+standardness flags with real signatures over the real transaction.", "property-based testing (proptest choice streams, shrinking) against a reference script interpreter", "§3 C01"),
 "C02": ("Ground truth for `a spend exists` by lazy exhaustive witness search over the holder's alphabet on the independently encoded script; compared with malleable (any consensus-valid script) and non-malleable (sane scripts, all preimages known) entry points.", "property-based testing; differential against exhaustive witness search", "§3 C02"),
 "C03": ("All accepting witnesses over the adversary alphabet are enumerated for every script of the descriptor; the set must be exactly the library's witness.", "property-based testing; exhaustive alternative-witness search (uniqueness oracle)", "§3 C03"),
 "C04": ("Round trip through an independent encoder and the library decoder modulo a stated normal form; token-level mutated and random scripts must be rejected or re-encode byte-identically.", "property-based testing; round-trip + differential encoder + grammar-aware mutation", "§3 C04"),
 "C05": ("Complete enumeration of the finite type domain (all constructors x all 960^n child tuples, n<=2 quick / n<=3 thorough) against a transcription of the specification's type rules; random larger thresholds and whole ASTs.", "exhaustive enumeration + property-based testing against spec tables", "§3 C05"),
 "C06": ("Every non-aborting execution of a fragment over a type alphabet (found by lazy enumeration) is compared with the library's static type claims (z,o,n,u,d,f,s,e under m, base shapes).", "property-based testing; exhaustive input-stack enumeration on a reference interpreter", "§3 C06"),
 "C07": ("Own evaluation of the lifted Semantic policy vs. ground-truth satisfiability of the script over all asset subsets (<=6 atoms) x lock contexts.", "property-based testing; truth-table differential against witness search", "§3 C07"),
 "C08": ("Compiled outputs of all compile entry points: truth tables (lift) and sampled script-level ground truth equal the policy; sanity, signedness, non-malleability, stored-type consistency, default re-parse.", "property-based testing; semantic differential + validity predicates", "§3 C08"),
 "C18": ("Truth-table oracles for normalized/sorted/at_age/at_lock_time/entails/minimum_n_keys/lift/check_timelocks/is_safe_nonmalleable over generated policies with constants, nesting and repeated atoms.", "property-based testing against own truth tables", "§3 C18"),
}
NOTE = "Bounded exploration, not proof. Trusts rustc, proptest, rust-bitcoin (sighash, script iteration, hashes), libsecp256k1 and the harness' own oracles (refscript self-tested on hand-built spends; mirror spec tables)."
def chk(pid, text, tech, ref):
    return {"property_id": pid,
     "quick_cmd": f"cd /verif/harness && cargo run --release --offline -q --bin check -- {pid} --tier quick",
     "thorough_cmd": f"cd /verif/harness && cargo run --release --offline -q --bin check -- {pid} --tier thorough",
     "evidence_file": f"/verif/evidence/{pid}.json",
     "replay_cmd_template": f"cd /verif/harness && cargo run --release --offline -q --bin check -- {pid} --replay {{path}}",
     "engine": "mvh",
     "level_claimed": {"category": "exploration", "text": text, "design_ref": "DESIGN.md " + ref},
     "level_note": NOTE,
     "technique": tech}
ALL = ["C%02d" % i for i in range(1, 21)]
m = {
 "version": 1,
 "setup_cmd": "cd /verif/harness && cargo build --release --offline --bin check",
 "hooks": {"guard": "miniscript_verif", "enable": "rustc --cfg miniscript_verif via /verif/harness/.cargo/config.toml build.rustflags (no hook is currently needed; the guard is reserved)", "baseline_off_cmd": "cd /repo && cargo test --workspace --no-fail-fast --offline", "source_commits": [], "add_only": True},
 "engines": [{"name": "mvh", "path": "/verif/harness", "serves_properties": sorted(CHECKS), "kind_free_text": "Rust harness: proptest-driven choice streams (shrinking, fixed seeds) over typed generators; oracles: independent reference Script interpreter with lazy witness search, mirror AST / spec type tables / encoder, own BIP32/341/380, policy truth tables"}],
 "checks": [chk(p, *CHECKS[p]) for p in sorted(CHECKS)],
 "not_applicable": [{"property_id": p, "reason": "not yet built in this session (planned; see DESIGN.md §3)"} for p in ALL if p not in CHECKS],
 "notes": "Every check exits 0 / 1 (VIOLATION line) / 2 (inconclusive or infrastructure). VERIF_SEED selects the proptest seeds; known findings live in /verif/known_findings.json."
}
json.dump(m, open('/verif/MANIFEST.json', 'w'), indent=1)
print("checks:", len(m['checks']))
