#!/usr/bin/env python3
"""Regenerate /verif/MANIFEST.json from the table below."""
import json
CHECKS = {
 "C01": ("Generated descriptors of every output type x generated worlds x 5 entry points; every returned satisfaction is executed by an independent reference Script interpreter under consensus+standardness flags with real signatures over the real transaction.", "property-based testing (proptest choice streams, shrinking) against a reference script interpreter", "§3 C01"),
 "C02": ("Ground truth for `a spend exists` by lazy exhaustive witness search over the holder's alphabet on the independently encoded script; compared with malleable (any consensus-valid script) and non-malleable (sane scripts, all preimages known) entry points; or-heavy lane with signers holding everything; raw-pkh lane: decoded scripts and a satisfier that knows keys only together with signatures, truth by enumeration of canonical satisfactions.", "property-based testing; differential against exhaustive witness search", "§3 C02"),
 "C03": ("All accepting witnesses over the adversary alphabet are enumerated for every script of the descriptor; the set must be exactly the library's witness.", "property-based testing; exhaustive alternative-witness search (uniqueness oracle)", "§3 C03"),
 "C04": ("Round trip through an independent encoder and the library decoder modulo a stated normal form; token-level mutated and random scripts must be rejected or re-encode byte-identically.", "property-based testing; round-trip + differential encoder + grammar-aware mutation", "§3 C04"),
 "C05": ("Direct constructors store what the type checker computes; complete enumeration of the finite type domain (all constructors x all 960^n child tuples, n<=2 quick / n<=3 thorough) against a transcription of the specification's type rules; random larger thresholds and whole ASTs.", "exhaustive enumeration + property-based testing against spec tables", "§3 C05"),
 "C06": ("Every non-aborting execution of a fragment over a type alphabet (found by lazy enumeration) is compared with the library's static type claims (z,o,n,u,d,f,s,e under m, base shapes).", "property-based testing; exhaustive input-stack enumeration on a reference interpreter", "§3 C06"),
 "C07": ("Own evaluation of the lifted Semantic policy vs. ground-truth satisfiability of the script over all asset subsets (<=6 atoms) x lock contexts.", "property-based testing; truth-table differential against witness search", "§3 C07"),
 "C08": ("Compiled outputs of all compile entry points: truth tables (lift) and sampled script-level ground truth equal the policy; sanity, signedness, non-malleability, stored-type consistency, default re-parse.", "property-based testing; semantic differential + validity predicates", "§3 C08"),
 "C09": ("Every produced satisfaction (random descriptors and scripts built near each limit, signatures stretched to the documented worst-case sizes) is executed with a trace; measured element counts, sizes, weight, opcode count and stack depth are compared with the static figures; every sub-expression's static figures are compared with the exact worst case over the canonical (dis)satisfactions of the specification table (own recursion); all canonical satisfactions are executed (op count, stack depth); accepted / declared-within-limits scripts must execute within the limits of their rule set.", "property-based testing; measured-vs-static bound on a tracing reference interpreter", "§3 C09"),
 "C10": ("Value -> string -> value round trips compared on mirror ASTs (miniscripts, descriptors with every key form, keys, policies, wallet policies), alias spellings, fixed point for any accepted mutated string, own BIP380 checksum, 1-4 symbol corruption of checksummed strings.", "property-based testing; round-trip + mutation + independent checksum implementation", "§3 C10"),
 "C11": ("Six entry classes (all text parsers with post-processing, script decoders, interpreter, PSBT finalizer/updater with corrupted fields, planner with adversarial assets, compiler) fed grammar-mutated, deep, wide and random inputs under catch_unwind with a per-call time limit.", "property-based testing / in-process fuzzing with crash oracle", "§3 C11"),
 "C12": ("One-violation inputs at every parser / decoder / AST entry (from_ast) / constructor (incl. the sortedmulti ones) must be rejected or obey the mirror's context rules; public analysis predicates vs mirror predicates; each validation switch compared with an independent predicate (single-switch parameter sets); numeric limits at actual-1/actual/actual+1; parameter lattice laws and monotonicity.", "property-based testing against mirror predicates; metamorphic lattice laws", "§3 C12"),
 "C13": ("Interpreter verdict and reported constraints vs. the reference interpreter's verdict and trace on library satisfactions, their mutations and lock variations with re-made signatures.", "property-based testing; differential against a tracing reference interpreter", "§3 C13"),
 "C14": ("Operation histories on multi-input PSBTs (nVersion 1/2/3) with invariants after every step (validity of newly final inputs, immutability, atomic failure, idempotence, result consistency, agreement of single-input and all-input finalizers, agreement of the finalizer with the descriptor's own satisfier holding the input's material, extract, update fields vs. own BIP32/BIP341 model, sighash_msg digests, output updates) and twin histories with shuffled add-operations.", "stateful property-based testing (operation sequences + invariants + twin histories)", "§3 C14"),
 "C15": ("Tree shapes incl. all chains of depth 1..128 vs. own BIP341 Merkle/tweak implementation: output key, control blocks byte-for-byte, leaf order/depth through constructor, parser, print-parse, translate, clone, spend info.", "property-based testing + exhaustive chain depths against an independent BIP341 model", "§3 C15"),
 "C16": ("scriptPubKey / explicit script / script code / scriptSig / addresses vs. own templates; derivation APIs vs. text substitution + own BIP32; sortedmulti permutations; multipath splitting.", "property-based testing; differential against own templates and own BIP32", "§3 C16"),
 "C17": ("Plan existence vs. a satisfier with exactly the same capabilities; completed plan validates with the reported locks and equals the satisfier's output; each reported lock is necessary (lock-1, other unit, none fail); announced sizes >= real.", "property-based testing; differential + necessity/sufficiency metamorphic checks on a reference interpreter", "§3 C17"),
 "C19": ("==, cmp, hash, clone and set cardinality vs. structural equality of a derived-Eq mirror AST on one-edit neighbour pairs and triples of miniscripts, terminals, descriptors, tap trees and policies.", "property-based testing with one-edit neighbour generation against a mirror AST", "§3 C19"),
 "C20": ("translate_pk (identity, renaming, composition, to concrete keys, failing, context-illegal) vs. key-mapped mirror AST and own encoder; key iterators vs. key multiset of the mirror and of the string.", "property-based testing against mirror AST key mapping", "§3 C20"),
 "C18": ("Truth-table oracles for normalized/sorted/at_age/at_lock_time/entails/minimum_n_keys/lift/check_timelocks/is_safe_nonmalleable over generated policies with constants, nesting and repeated atoms.", "property-based testing against own truth tables", "§3 C18"),
}
NOTE = "Bounded exploration, not proof. Trusts rustc, proptest, rust-bitcoin (sighash, script iteration, hashes), libsecp256k1 and the harness' own oracles (refscript self-tested on hand-built spends; mirror spec tables)."
# libFuzzer campaigns appended to the thorough tier (coverage-guided search over the check's own
# choice stream; raw-input targets where the property is about arbitrary text / bytes)
FUZZ = {"C04": ["C04", "decode_script"], "C10": ["C10", "parse_all"], "C11": ["C11", "parse_all", "decode_script"]}
def chk(pid, text, tech, ref):
    return {"property_id": pid,
     "quick_cmd": f"cd /verif/harness && cargo run --release --offline -q --bin check -- {pid} --tier quick",
     "thorough_cmd": f"cd /verif/harness && cargo run --release --offline -q --bin check -- {pid} --tier thorough" + "".join(f" && FUZZ_EVIDENCE_ID={pid} /verif/tools/fuzz_campaign.sh {t} 180 16" for t in FUZZ.get(pid, [pid])),
     "evidence_file": f"/verif/evidence/{pid}.json",
     "replay_cmd_template": f"cd /verif/harness && cargo run --release --offline -q --bin check -- {pid} --replay {{path}}",
     "engine": "mvh",
     "level_claimed": {"category": "exploration", "text": text, "design_ref": "DESIGN.md " + ref},
     "level_note": NOTE,
     "technique": tech + "; thorough tier adds coverage-guided fuzzing (libFuzzer) of the same oracle"}
ALL = ["C%02d" % i for i in range(1, 21)]
m = {
 "version": 1,
 "setup_cmd": "cd /verif/harness && cargo build --release --offline --bin check",
 "hooks": {"guard": "miniscript_verif", "enable": "rustc --cfg miniscript_verif via /verif/harness/.cargo/config.toml build.rustflags (no hook is currently needed; the guard is reserved)", "baseline_off_cmd": "cd /repo && cargo test --workspace --no-fail-fast --offline", "source_commits": [], "add_only": True},
 "engines": [{"name": "mvh", "path": "/verif/harness", "serves_properties": sorted(CHECKS), "kind_free_text": "Rust harness + cargo-fuzz crate (/verif/fuzz): proptest-driven choice streams (shrinking, fixed seeds) over typed generators; oracles: independent reference Script interpreter with lazy witness search, mirror AST / spec type tables / encoder, own BIP32/341/380, policy truth tables"}],
 "checks": [chk(p, *CHECKS[p]) for p in sorted(CHECKS)],
 "not_applicable": [{"property_id": p, "reason": "not yet built in this session (planned; see DESIGN.md §3)"} for p in ALL if p not in CHECKS],
 "notes": "Every check exits 0 / 1 (VIOLATION line) / 2 (inconclusive or infrastructure). VERIF_SEED selects the proptest seeds; known findings live in /verif/known_findings.json."
}
json.dump(m, open('/verif/MANIFEST.json', 'w'), indent=1)
print("checks:", len(m['checks']))
