#!/bin/bash
# usage: confirm_mutant.sh <scratch worktree> <dir with patch.diff demo.rs> <tag>
# Confirms in the scratch worktree: demo passes without the patch; with the patch the crate builds,
# the whole existing suite (no demo present) passes, and the demo fails.  Leaves src/ unmodified.
set -u
WT="$1"; D="$2"; TAG="$3"
cd "$WT" || exit 2
git checkout -q -- src; git clean -fdq tests src
export CARGO_NET_OFFLINE=true
cp "$D/demo.rs" "tests/zz_demo_$TAG.rs"
base=$(cargo test --offline --features compiler --test "zz_demo_$TAG" 2>&1 | grep -E "^test result" | tail -1)
rm -f "tests/zz_demo_$TAG.rs"
git apply "$D/patch.diff" || { echo "$TAG: patch does not apply"; exit 2; }
build=$(cargo build --offline --features compiler 2>&1 | grep -cE "^error")
suite=$(cargo test --workspace --no-fail-fast --offline 2>&1 | grep -E "^test result" | awk '{p+=$4; f+=$6} END {print "passed=" p " failed=" f}')
cp "$D/demo.rs" "tests/zz_demo_$TAG.rs"
demo=$(cargo test --offline --features compiler --test "zz_demo_$TAG" 2>&1 | grep -E "^test result|error(\[|:)" | tail -2 | tr '\n' ' ')
git checkout -q -- src; rm -f "tests/zz_demo_$TAG.rs"
echo "$TAG: demo-without-patch: $base"
echo "$TAG: build-errors-with-patch: $build; suite-with-patch: $suite"
echo "$TAG: demo-with-patch: $demo"
