#!/bin/bash
# usage: confirm_mutant.sh <scratch worktree> <dir with patch.diff demo.rs> <tag>
# Confirms in the scratch worktree: demo passes without the patch; with the patch the crate builds,
# the whole existing suite passes, and the demo fails.  Leaves src/ unmodified.
set -u
WT="$1"; D="$2"; TAG="$3"
cd "$WT" || exit 2
git checkout -q -- src
cp "$D/demo.rs" "tests/zz_demo_$TAG.rs"
export CARGO_NET_OFFLINE=true
base=$(cargo test --offline --features compiler --test "zz_demo_$TAG" 2>&1 | grep -E "^test result" | tail -1)
git apply "$D/patch.diff" || { echo "$TAG: patch does not apply"; exit 2; }
suite=$(cargo test --workspace --no-fail-fast --offline 2>&1 | grep -E "^test result" | awk '{p+=$4; f+=$6} END {print "passed=" p " failed=" f}')
demo=$(cargo test --offline --features compiler --test "zz_demo_$TAG" 2>&1 | grep -E "^test result|error(\[|:)" | tail -1)
git checkout -q -- src; rm -f "tests/zz_demo_$TAG.rs"
echo "$TAG: demo-without-patch: $base"
echo "$TAG: suite-with-patch: $suite (other tests)"
echo "$TAG: demo-with-patch: $demo"
