#!/bin/bash
# Run the repository's own test suite (hooks off) and print a one-line summary.
cd /repo && cargo test --workspace --no-fail-fast --offline 2>&1 | awk '
/^test result:/ { p+=$4; f+=$6 }
/^test .* FAILED/ { print }
/error(\[|:)/ { print }
END { printf "SUMMARY passed=%d failed=%d\n", p, f; if (f>0 || p<191) exit 1 }'
