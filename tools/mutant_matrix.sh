#!/bin/bash
# usage: mutant_matrix.sh <out log> <mutant id> <checks...> [-- <mutant id> <checks...>]...
# Runs /verif/seeded/<id>/patch.diff against the named checks (quick tier) via run_mutant.sh.
# With MUT_SCRATCH=1, JOBS=<n> (default 1) changes are tried in parallel in n scratch slots.
OUT="$1"; shift
: > "$OUT"
JOBS="${JOBS:-1}"
specs=()
while [ $# -gt 0 ]; do
  spec=""
  while [ $# -gt 0 ] && [ "$1" != "--" ]; do spec="$spec $1"; shift; done
  [ "${1:-}" = "--" ] && shift
  specs+=("$spec")
done
run_one() {
  slot="$1"; shift
  id="$1"; shift
  { echo "##### $id"; MUT_SLOT="$slot" /verif/tools/run_mutant.sh /verif/seeded/$id/patch.diff "$@" 2>&1 | tail -8 | cut -c1-400; } > "/tmp/mm-part-$id.log"
}
i=0
for spec in "${specs[@]}"; do
  slot=$((i % JOBS)); i=$((i+1))
  eval "pid=\${pid_$slot:-}"
  [ -n "$pid" ] && wait "$pid"
  run_one "$slot" $spec &
  eval "pid_$slot=$!"
done
wait
for spec in "${specs[@]}"; do set -- $spec; cat "/tmp/mm-part-$1.log" >> "$OUT"; rm -f "/tmp/mm-part-$1.log"; done
