#!/bin/bash
# usage: mutant_matrix.sh <out log> <mutant id> <checks...> [-- <mutant id> <checks...>]...
# Runs /verif/seeded/<id>/patch.diff against the named checks (quick tier) via run_mutant.sh.
OUT="$1"; shift
: > "$OUT"
while [ $# -gt 0 ]; do
  id="$1"; shift; checks=()
  while [ $# -gt 0 ] && [ "$1" != "--" ]; do checks+=("$1"); shift; done
  [ "${1:-}" = "--" ] && shift
  echo "##### $id" >> "$OUT"
  /verif/tools/run_mutant.sh /verif/seeded/$id/patch.diff "${checks[@]}" 2>&1 | tail -8 | cut -c1-400 >> "$OUT"
done
