use miniscript::DescriptorPublicKey;
use std::str::FromStr;
fn main() {
    use miniscript::descriptor::WalletPolicy;
    for t in ["wsh(pk(@0/**))", "tr(@0/**)", "wpkh(@0/**)", "sh(wsh(pk(@0/**)))", "pkh(@0/**)"] {
        for k in [mvh::keys::key_uncompressed(1), mvh::keys::key_xonly(1), mvh::keys::key_compressed(1)] {
            let mut wp = WalletPolicy::from_str(t).unwrap();
            let k = DescriptorPublicKey::from_str(&k).unwrap();
            let a = wp.set_key_info(&[k]).is_ok();
            println!("{} {} {:?}", t, a, std::panic::catch_unwind(|| wp.into_descriptor().map(|d| d.to_string())).map_err(|_| "PANIC"));
        }
    }
}
