//! Own BIP380 descriptor checksum, written from the BIP's reference code.

const INPUT_CHARSET: &str = "0123456789()[],'/*abcdefgh@:$%{}IJKLMNOPQRSTUVWXYZ&+-.;<=>?!^_|~ijklmnopqrstuvwxyzABCDEFGH`#\"\\ ";
const CHECKSUM_CHARSET: &[u8] = b"qpzry9x8gf2tvdw0s3jn54khce6mua7l";
const GENERATOR: [u64; 5] = [0xf5dee51989, 0xa9fdca3312, 0x1bab10e32d, 0x3706b1677a, 0x644d626ffd];

fn polymod(symbols: &[u64]) -> u64 {
    let mut chk: u64 = 1;
    for v in symbols {
        let top = chk >> 35;
        chk = (chk & 0x7ffffffff) << 5 ^ v;
        for (i, g) in GENERATOR.iter().enumerate() {
            if (top >> i) & 1 == 1 {
                chk ^= g;
            }
        }
    }
    chk
}

fn expand(s: &str) -> Option<Vec<u64>> {
    let mut groups = Vec::new();
    let mut symbols = Vec::new();
    for c in s.chars() {
        let v = INPUT_CHARSET.find(c)? as u64;
        symbols.push(v & 31);
        groups.push(v >> 5);
        if groups.len() == 3 {
            symbols.push(groups[0] * 9 + groups[1] * 3 + groups[2]);
            groups.clear();
        }
    }
    if groups.len() == 1 {
        symbols.push(groups[0]);
    } else if groups.len() == 2 {
        symbols.push(groups[0] * 3 + groups[1]);
    }
    Some(symbols)
}

/// checksum of the part before '#'
pub fn checksum(desc: &str) -> Option<String> {
    let mut symbols = expand(desc)?;
    symbols.extend_from_slice(&[0; 8]);
    let c = polymod(&symbols) ^ 1;
    let mut out = String::new();
    for i in 0..8 {
        out.push(CHECKSUM_CHARSET[((c >> (5 * (7 - i))) & 31) as usize] as char);
    }
    Some(out)
}

/// Is the character in the first group (index < 32) of the input charset?
pub fn in_first_group(c: char) -> bool { INPUT_CHARSET.find(c).map(|i| i < 32).unwrap_or(false) }
pub fn input_charset() -> &'static str { INPUT_CHARSET }
pub fn checksum_charset() -> &'static [u8] { CHECKSUM_CHARSET }
