//! Lazy, demand-driven witness search: ground truth for "which witnesses over an alphabet make
//! this script succeed".
//!
//! The script is run on the current choice sequence as initial stack.  When execution touches
//! below the bottom of that stack the run is abandoned and one child per alphabet symbol is
//! explored with that symbol inserted *below* the existing elements.  Scripts have no loops,
//! and re-execution from scratch per node keeps the procedure trivially correct.

use crate::refscript::{cast_to_bool, eval_script, ExecData, Flags, ScriptError, SigChecker, SigVersion, Trace};
use bitcoin::taproot::TapLeafHash;

#[derive(Clone, Copy, Debug)]
pub struct Budget {
    pub max_len: usize,
    pub max_nodes: usize,
}

impl Budget {
    pub const DEFAULT: Budget = Budget { max_len: 14, max_nodes: 200_000 };
}

pub struct Run<'a> {
    /// initial stack, bottom first
    pub inputs: &'a [Vec<u8>],
    pub result: &'a Result<(), ScriptError>,
    /// final main stack (meaningful when result is Ok)
    pub stack: &'a [Vec<u8>],
    pub trace: &'a Trace,
}

pub struct Explore {
    pub nodes: usize,
    pub truncated: bool,
}

/// Explore all *complete* runs (runs that never touch below the provided inputs).
/// `extend_on_empty`: a run that ends `Ok` with an empty main stack is treated as a demand
/// (needed for top-level success rules; not wanted for V-typed fragments).
/// `visit` returns `false` to stop the whole exploration.
#[allow(clippy::too_many_arguments)]
pub fn explore(
    script: &[u8],
    sv: SigVersion,
    flags: &Flags,
    alphabet: &[Vec<u8>],
    checker: &dyn SigChecker,
    leaf: Option<TapLeafHash>,
    budget: Budget,
    extend_on_empty: bool,
    prefix_top: &[Vec<u8>],
    visit: &mut dyn FnMut(&Run) -> bool,
) -> Explore {
    let mut ex = Explore { nodes: 0, truncated: false };
    // DFS over choice sequences; `cur` holds elements top-first (cur[0] is the top), i.e. the
    // order in which the script demanded them.
    let mut stack_of_iters: Vec<usize> = Vec::new();
    let mut cur: Vec<Vec<u8>> = Vec::new();
    // iterative DFS with explicit "next symbol index" per level
    let mut need_eval = true;
    loop {
        if need_eval {
            ex.nodes += 1;
            if ex.nodes > budget.max_nodes {
                ex.truncated = true;
                return ex;
            }
            // build initial stack bottom-first: reversed cur, then the fixed prefix on top
            let mut init: Vec<Vec<u8>> = cur.iter().rev().cloned().collect();
            init.extend(prefix_top.iter().cloned());
            let inputs = init.clone();
            let mut trace = Trace::default();
            let mut exec = ExecData { leaf, annex: None, validation_weight_left: 1_000_000 };
            let r = eval_script(&mut init, script, flags, checker, sv, &mut exec, &mut trace);
            let demand = match &r {
                Err(ScriptError::Underflow) => true,
                Ok(()) if extend_on_empty && init.is_empty() => true,
                _ => false,
            };
            if demand {
                if cur.len() >= budget.max_len {
                    ex.truncated = true;
                    // cannot extend: backtrack
                    need_eval = false;
                } else {
                    // descend: first symbol
                    stack_of_iters.push(0);
                    cur.push(alphabet[0].clone());
                    need_eval = true;
                    continue;
                }
            } else {
                let run = Run { inputs: &inputs, result: &r, stack: &init, trace: &trace };
                if !visit(&run) {
                    return ex;
                }
                need_eval = false;
            }
        }
        // advance to next sibling, backtracking as needed
        loop {
            match stack_of_iters.last_mut() {
                None => return ex,
                Some(i) => {
                    *i += 1;
                    if *i < alphabet.len() {
                        let l = cur.len();
                        cur[l - 1] = alphabet[*i].clone();
                        need_eval = true;
                        break;
                    } else {
                        stack_of_iters.pop();
                        cur.pop();
                    }
                }
            }
        }
    }
}

pub struct SearchResult {
    /// accepting witnesses, bottom first
    pub accepting: Vec<Vec<Vec<u8>>>,
    pub truncated: bool,
    pub nodes: usize,
}

/// All witnesses over `alphabet` that make `script` succeed as a complete script
/// (final stack exactly one true element).  `limit` = stop after that many.
#[allow(clippy::too_many_arguments)]
pub fn search(
    script: &[u8],
    sv: SigVersion,
    flags: &Flags,
    alphabet: &[Vec<u8>],
    checker: &dyn SigChecker,
    leaf: Option<TapLeafHash>,
    budget: Budget,
    limit: usize,
) -> SearchResult {
    let mut acc: Vec<Vec<Vec<u8>>> = Vec::new();
    let mut alpha: Vec<Vec<u8>> = Vec::new();
    for a in alphabet {
        if flags.policy_limits && sv != SigVersion::Base && a.len() > 80 {
            continue;
        }
        if a.len() > 520 {
            continue;
        }
        if !alpha.contains(a) {
            alpha.push(a.clone());
        }
    }
    if alpha.is_empty() {
        alpha.push(vec![]);
    }
    let ex = explore(script, sv, flags, &alpha, checker, leaf, budget, true, &[], &mut |run| {
        if run.result.is_ok() && run.stack.len() == 1 && cast_to_bool(&run.stack[0]) {
            acc.push(run.inputs.to_vec());
            if acc.len() >= limit {
                return false;
            }
        }
        true
    });
    SearchResult { accepting: acc, truncated: ex.truncated, nodes: ex.nodes }
}
