//! Worlds (what the caller holds), transactions, signing, and the satisfier built from them.

use crate::bip341;
use crate::keys::{self, u};
use crate::mdesc::{p2pkh_script, MDesc};
use crate::mirror::encode::{encode, key_bytes};
use crate::mirror::spec::Ctx;
use crate::refscript::{self, SymbolicChecker};
use bitcoin::hashes::{hash160, sha256, Hash};
use bitcoin::sighash::{Prevouts, SighashCache};
use bitcoin::taproot::TapLeafHash;
use bitcoin::{
    absolute, relative, transaction, Amount, EcdsaSighashType, OutPoint, Script, ScriptBuf, Sequence, TapSighashType,
    Transaction, TxIn, TxOut, Txid, Witness,
};
use miniscript::{MiniscriptKey, Preimage32, Satisfier, ToPublicKey};
use secp256k1::{Keypair, Message, Scalar};
use std::collections::{BTreeSet, HashMap, HashSet};

#[derive(Clone, Debug, PartialEq, Eq)]
pub struct World {
    /// x-only bytes of keys the caller can sign with
    pub keys: BTreeSet<[u8; 32]>,
    /// preimages the caller knows
    pub preimages: BTreeSet<[u8; 32]>,
    pub lock_time: u32,
    pub sequence: u32,
    /// nVersion of the spending transaction (BIP68/112: relative locks need >= 2)
    pub tx_version: i32,
}

impl World {
    pub fn describe(&self) -> String {
        let ks: Vec<String> = self.keys.iter().map(|k| keys::hex(&k[..4])).collect();
        let ps: Vec<String> = self.preimages.iter().map(|k| keys::hex(&k[..4])).collect();
        format!(
            "keys=[{}] preimages=[{}] nLockTime={} nSequence={:#x}{}",
            ks.join(","),
            ps.join(","),
            self.lock_time,
            self.sequence,
            if self.tx_version == 2 { String::new() } else { format!(" nVersion={}", self.tx_version) }
        )
    }
    pub fn has_key_bytes(&self, b: &[u8]) -> bool { keys::xonly_of(b).map(|x| self.keys.contains(&x)).unwrap_or(false) }
}

#[derive(Clone, Debug)]
pub struct TxCtx {
    pub tx: Transaction,
    pub idx: usize,
    pub prevouts: Vec<TxOut>,
}

pub fn make_tx(spk: &[u8], lock_time: u32, sequence: u32, n_inputs: usize, idx: usize) -> TxCtx {
    make_tx_v(spk, lock_time, sequence, n_inputs, idx, 2)
}

/// Spending transaction for a world (its nLockTime, nSequence and nVersion).
pub fn make_tx_w(spk: &[u8], w: &World, n_inputs: usize, idx: usize) -> TxCtx {
    make_tx_v(spk, w.lock_time, w.sequence, n_inputs, idx, w.tx_version)
}

pub fn make_tx_v(spk: &[u8], lock_time: u32, sequence: u32, n_inputs: usize, idx: usize, version: i32) -> TxCtx {
    let mut inputs = Vec::new();
    let mut prevouts = Vec::new();
    for i in 0..n_inputs {
        let txid = Txid::from_byte_array(sha256::Hash::hash(format!("mvh-prev-{}", i).as_bytes()).to_byte_array());
        inputs.push(TxIn {
            previous_output: OutPoint { txid, vout: i as u32 },
            script_sig: ScriptBuf::new(),
            sequence: Sequence(if i == idx { sequence } else { 0xffff_fffd }),
            witness: Witness::new(),
        });
        let spk_i = if i == idx {
            ScriptBuf::from_bytes(spk.to_vec())
        } else {
            ScriptBuf::from_bytes(crate::mdesc::p2wpkh_spk(&[i as u8 + 1; 20]))
        };
        prevouts.push(TxOut { value: Amount::from_sat(100_000 + i as u64), script_pubkey: spk_i });
    }
    let tx = Transaction {
        version: transaction::Version(version),
        lock_time: absolute::LockTime::from_consensus(lock_time),
        input: inputs,
        output: vec![TxOut {
            value: Amount::from_sat(90_000),
            script_pubkey: ScriptBuf::from_bytes(crate::mdesc::p2wpkh_spk(&[0xaa; 20])),
        }],
    };
    TxCtx { tx, idx, prevouts }
}

/// Satisfier made of exactly what a world holds.
#[derive(Clone, Debug, Default)]
pub struct WorldSat {
    /// key = serialized public key as the script sees it (33/65 bytes)
    pub ecdsa: HashMap<Vec<u8>, bitcoin::ecdsa::Signature>,
    pub tap_key: Option<bitcoin::taproot::Signature>,
    pub tap_leaf: HashMap<([u8; 32], [u8; 32]), bitcoin::taproot::Signature>,
    pub preimages: HashMap<Vec<u8>, [u8; 32]>,
    pub lock_time: u32,
    pub sequence: u32,
    pub tx_version: i32,
    /// hash160 -> key bytes, for raw pkh lookups (all keys the world can name)
    pub pkh_keys: HashMap<[u8; 20], Vec<u8>>,
    /// answer time lock queries? (false: answers `false` to all, like a satisfier without locks)
    pub locks: bool,
    /// when true, `lookup_raw_pkh_pk` / `lookup_raw_pkh_x_only_pk` answer `None`: the satisfier
    /// knows the key behind a hash only together with a signature (a PSBT with partial
    /// signatures but no key origins)
    pub no_raw_pkh_pk: bool,
}

impl<Pk: MiniscriptKey + ToPublicKey> Satisfier<Pk> for WorldSat {
    fn lookup_ecdsa_sig(&self, pk: &Pk) -> Option<bitcoin::ecdsa::Signature> {
        self.ecdsa.get(&pk.to_public_key().to_bytes()).copied()
    }
    fn lookup_tap_key_spend_sig(&self, _pk: &Pk) -> Option<bitcoin::taproot::Signature> { self.tap_key }
    fn lookup_tap_leaf_script_sig(&self, pk: &Pk, lh: &TapLeafHash) -> Option<bitcoin::taproot::Signature> {
        self.tap_leaf.get(&(pk.to_x_only_pubkey().serialize(), lh.to_byte_array())).copied()
    }
    fn lookup_raw_pkh_pk(&self, h: &hash160::Hash) -> Option<bitcoin::PublicKey> {
        if self.no_raw_pkh_pk {
            return None;
        }
        let b = self.pkh_keys.get(&h.to_byte_array())?;
        bitcoin::PublicKey::from_slice(b).ok()
    }
    fn lookup_raw_pkh_x_only_pk(&self, h: &hash160::Hash) -> Option<bitcoin::key::XOnlyPublicKey> {
        if self.no_raw_pkh_pk {
            return None;
        }
        let b = self.pkh_keys.get(&h.to_byte_array())?;
        bitcoin::key::XOnlyPublicKey::from_slice(b).ok()
    }
    fn lookup_raw_pkh_ecdsa_sig(&self, h: &hash160::Hash) -> Option<(bitcoin::PublicKey, bitcoin::ecdsa::Signature)> {
        let b = self.pkh_keys.get(&h.to_byte_array())?;
        let pk = bitcoin::PublicKey::from_slice(b).ok()?;
        let sig = self.ecdsa.get(b)?;
        Some((pk, *sig))
    }
    fn lookup_raw_pkh_tap_leaf_script_sig(
        &self,
        hl: &(hash160::Hash, TapLeafHash),
    ) -> Option<(bitcoin::key::XOnlyPublicKey, bitcoin::taproot::Signature)> {
        let b = self.pkh_keys.get(&hl.0.to_byte_array())?;
        let pk = bitcoin::key::XOnlyPublicKey::from_slice(b).ok()?;
        let sig = self.tap_leaf.get(&(pk.serialize(), hl.1.to_byte_array()))?;
        Some((pk, *sig))
    }
    fn lookup_sha256(&self, h: &Pk::Sha256) -> Option<Preimage32> {
        self.preimages.get(&Pk::to_sha256(h).to_byte_array().to_vec()).copied()
    }
    fn lookup_hash256(&self, h: &Pk::Hash256) -> Option<Preimage32> {
        self.preimages.get(&Pk::to_hash256(h).to_byte_array().to_vec()).copied()
    }
    fn lookup_ripemd160(&self, h: &Pk::Ripemd160) -> Option<Preimage32> {
        self.preimages.get(&Pk::to_ripemd160(h).to_byte_array().to_vec()).copied()
    }
    fn lookup_hash160(&self, h: &Pk::Hash160) -> Option<Preimage32> {
        self.preimages.get(&Pk::to_hash160(h).to_byte_array().to_vec()).copied()
    }
    fn check_older(&self, n: relative::LockTime) -> bool {
        self.locks && refscript::check_sequence_raw(self.tx_version, self.sequence, n.to_consensus_u32() as i64)
    }
    fn check_after(&self, n: absolute::LockTime) -> bool {
        self.locks && refscript::check_locktime_raw(self.lock_time, self.sequence, n.to_consensus_u32() as i64)
    }
}

fn base_sat(world: &World) -> WorldSat {
    let mut s = WorldSat {
        lock_time: world.lock_time,
        sequence: world.sequence,
        tx_version: world.tx_version,
        locks: true,
        ..Default::default()
    };
    for p in &world.preimages {
        s.preimages.insert(sha256::Hash::hash(p).to_byte_array().to_vec(), *p);
        s.preimages.insert(bitcoin::hashes::sha256d::Hash::hash(p).to_byte_array().to_vec(), *p);
        s.preimages.insert(bitcoin::hashes::ripemd160::Hash::hash(p).to_byte_array().to_vec(), *p);
        s.preimages.insert(hash160::Hash::hash(p).to_byte_array().to_vec(), *p);
    }
    s
}

fn add_pkh(s: &mut WorldSat, kb: &[u8]) {
    s.pkh_keys.insert(hash160::Hash::hash(kb).to_byte_array(), kb.to_vec());
}

/// Leaf hashes of a taproot descriptor (own computation).
pub fn leaf_scripts(d: &MDesc) -> Result<Vec<(Vec<u8>, [u8; 32])>, String> {
    let mut v = Vec::new();
    if let MDesc::Tr(_, Some(t)) = d {
        for (_, n) in t.leaves() {
            let s = encode(n, Ctx::Tap)?;
            let lh = bip341::tapleaf_hash(0xc0, &s);
            v.push((s, lh));
        }
    }
    Ok(v)
}

/// Real signatures for every key of `d` the world holds, over input `idx` of `tx`.
pub fn sign_real(d: &MDesc, world: &World, t: &TxCtx) -> Result<WorldSat, String> { sign_real_with(d, world, t, &BTreeSet::new()) }

/// As `sign_real`; taproot keys in `tap_all` sign with an explicit SIGHASH_ALL (65-byte signatures).
pub fn sign_real_with(d: &MDesc, world: &World, t: &TxCtx, tap_all: &BTreeSet<[u8; 32]>) -> Result<WorldSat, String> {
    let secp = &u().secp;
    let mut s = base_sat(world);
    let scripts = d.scripts()?;
    let ctx = d.ctx();
    let amount = t.prevouts[t.idx].value;
    match d {
        MDesc::Tr(ik, tree) => {
            let ikb = key_bytes(ik, Ctx::Tap)?;
            if world.has_key_bytes(&ikb) {
                let sk = keys::secret_for(&ikb).ok_or("no secret for internal key")?;
                let kp = Keypair::from_secret_key(secp, &sk);
                let mut ik32 = [0u8; 32];
                ik32.copy_from_slice(&ikb);
                let root = match tree {
                    Some(t) => Some(t.to_model()?.root()),
                    None => None,
                };
                let tw = bip341::taptweak_hash(&ik32, root.as_ref());
                let kp2 = kp.add_xonly_tweak(secp, &Scalar::from_be_bytes(tw).map_err(|_| "tweak")?).map_err(|_| "tweak")?;
                let ty = if tap_all.contains(&ik32) { TapSighashType::All } else { TapSighashType::Default };
                let mut cache = SighashCache::new(&t.tx);
                let h = cache.taproot_signature_hash(t.idx, &Prevouts::All(&t.prevouts), None, None, ty).map_err(|e| e.to_string())?;
                let sig = secp.sign_schnorr_no_aux_rand(&Message::from_digest(h.to_byte_array()), &kp2);
                s.tap_key = Some(bitcoin::taproot::Signature { signature: sig, sighash_type: ty });
            }
            if let Some(tree) = tree {
                for (_, n) in tree.leaves() {
                    let script = encode(n, Ctx::Tap)?;
                    let lh = bip341::tapleaf_hash(0xc0, &script);
                    for k in n.keys() {
                        let kb = key_bytes(&k, Ctx::Tap)?;
                        add_pkh(&mut s, &kb);
                        if !world.has_key_bytes(&kb) {
                            continue;
                        }
                        let sk = keys::secret_for(&kb).ok_or("no secret")?;
                        let kp = Keypair::from_secret_key(secp, &sk);
                        let mut x = [0u8; 32];
                        x.copy_from_slice(&kb);
                        let ty = if tap_all.contains(&x) { TapSighashType::All } else { TapSighashType::Default };
                        let mut cache = SighashCache::new(&t.tx);
                        let h = cache
                            .taproot_signature_hash(t.idx, &Prevouts::All(&t.prevouts), None, Some((TapLeafHash::from_byte_array(lh), 0xffff_ffff)), ty)
                            .map_err(|e| e.to_string())?;
                        let sig = secp.sign_schnorr_no_aux_rand(&Message::from_digest(h.to_byte_array()), &kp);
                        s.tap_leaf.insert((x, lh), bitcoin::taproot::Signature { signature: sig, sighash_type: ty });
                    }
                }
            }
        }
        _ => {
            for k in d.all_keys() {
                let kb = key_bytes(&k, ctx)?;
                add_pkh(&mut s, &kb);
                if !world.has_key_bytes(&kb) {
                    continue;
                }
                let sk = keys::secret_for(&kb).ok_or("no secret")?;
                let digest: [u8; 32] = match d {
                    MDesc::Bare(_) | MDesc::Pkh(_) => {
                        let cache = SighashCache::new(&t.tx);
                        cache
                            .legacy_signature_hash(t.idx, Script::from_bytes(&scripts.spk), EcdsaSighashType::All as u32)
                            .map_err(|e| e.to_string())?
                            .to_byte_array()
                    }
                    MDesc::Sh(_) => {
                        let cache = SighashCache::new(&t.tx);
                        cache
                            .legacy_signature_hash(
                                t.idx,
                                Script::from_bytes(scripts.redeem.as_ref().unwrap()),
                                EcdsaSighashType::All as u32,
                            )
                            .map_err(|e| e.to_string())?
                            .to_byte_array()
                    }
                    MDesc::Wpkh(_) | MDesc::ShWpkh(_) => {
                        let h = hash160::Hash::hash(&kb).to_byte_array();
                        let sc = p2pkh_script(&h);
                        let mut cache = SighashCache::new(&t.tx);
                        cache
                            .p2wsh_signature_hash(t.idx, Script::from_bytes(&sc), amount, EcdsaSighashType::All)
                            .map_err(|e| e.to_string())?
                            .to_byte_array()
                    }
                    MDesc::Wsh(_) | MDesc::ShWsh(_) => {
                        let mut cache = SighashCache::new(&t.tx);
                        cache
                            .p2wsh_signature_hash(
                                t.idx,
                                Script::from_bytes(scripts.witness_script.as_ref().unwrap()),
                                amount,
                                EcdsaSighashType::All,
                            )
                            .map_err(|e| e.to_string())?
                            .to_byte_array()
                    }
                    MDesc::Tr(..) => unreachable!(),
                };
                let sig = secp.sign_ecdsa(&Message::from_digest(digest), &sk);
                s.ecdsa.insert(kb, bitcoin::ecdsa::Signature { signature: sig, sighash_type: EcdsaSighashType::All });
            }
        }
    }
    Ok(s)
}

/// Symbolic signature bytes for a key (deterministic, well-formed, low-S).
pub fn sym_ecdsa(kb: &[u8]) -> Option<bitcoin::ecdsa::Signature> {
    let sk = keys::secret_for(kb)?;
    // one signature per key (not per serialization): a real signature verifies under the
    // compressed and the uncompressed form alike
    let canon = keys::compressed_of(kb).unwrap_or_else(|| kb.to_vec());
    let m = sha256::Hash::hash(&[&b"mvh-sym-ecdsa"[..], &canon[..]].concat()).to_byte_array();
    let sig = u().secp.sign_ecdsa(&Message::from_digest(m), &sk);
    Some(bitcoin::ecdsa::Signature { signature: sig, sighash_type: EcdsaSighashType::All })
}
pub fn sym_schnorr(x: &[u8; 32], leaf: Option<&[u8; 32]>) -> Option<bitcoin::taproot::Signature> {
    let sk = keys::secret_for(x)?;
    let kp = Keypair::from_secret_key(&u().secp, &sk);
    let l = leaf.copied().unwrap_or([0u8; 32]);
    let m = sha256::Hash::hash(&[&b"mvh-sym-schnorr"[..], &x[..], &l[..]].concat()).to_byte_array();
    let sig = u().secp.sign_schnorr_no_aux_rand(&Message::from_digest(m), &kp);
    Some(bitcoin::taproot::Signature { signature: sig, sighash_type: TapSighashType::Default })
}

/// Symbolic satisfier + the checker that accepts exactly its signatures.
/// `keys_in_scope`: (key bytes as in script, optional leaf hash) for every key position.
pub fn sign_symbolic(
    world: &World,
    ecdsa_keys: &[Vec<u8>],
    leaf_keys: &[([u8; 32], [u8; 32])],
    internal_key: Option<[u8; 32]>,
) -> (WorldSat, SymbolicChecker) {
    let mut s = base_sat(world);
    let mut chk = SymbolicChecker {
        ecdsa: HashSet::new(),
        schnorr: HashSet::new(),
        lock_time: world.lock_time,
        sequence: world.sequence,
        tx_version: world.tx_version,
    };
    for kb in ecdsa_keys {
        add_pkh(&mut s, kb);
        if let Some(sig) = sym_ecdsa(kb) {
            // the signature is valid whether or not the world holds the key
            chk.ecdsa.insert((kb.clone(), sig.to_vec()));
            if let Ok(p) = secp256k1::PublicKey::from_slice(kb) {
                chk.ecdsa.insert((p.serialize().to_vec(), sig.to_vec()));
                chk.ecdsa.insert((p.serialize_uncompressed().to_vec(), sig.to_vec()));
            }
            if world.has_key_bytes(kb) {
                s.ecdsa.insert(kb.clone(), sig);
            }
        }
    }
    for (x, lh) in leaf_keys {
        add_pkh(&mut s, x);
        if let Some(sig) = sym_schnorr(x, Some(lh)) {
            chk.schnorr.insert((x.to_vec(), sig.to_vec(), Some(*lh)));
            if world.keys.contains(x) {
                s.tap_leaf.insert((*x, *lh), sig);
            }
        }
    }
    if let Some(ik) = internal_key {
        // key path: the checker sees the *output* key; handled by callers that need it
        if let Some(sig) = sym_schnorr(&ik, None) {
            if world.keys.contains(&ik) {
                s.tap_key = Some(sig);
            }
        }
    }
    (s, chk)
}
