//! Shared oracle plumbing: script units of a descriptor, symbolic signatures, alphabets,
//! ground-truth satisfiability.

use crate::keys;
use crate::mdesc::MDesc;
use crate::mirror::ast::{b, Node};
use crate::mirror::encode::{encode, key_bytes};
use crate::mirror::spec::Ctx;
use crate::refscript::{Flags, SigVersion, SymbolicChecker};
use crate::search::{search, Budget, SearchResult};
use crate::world::{sign_symbolic, World, WorldSat};
use bitcoin::hashes::Hash;
use bitcoin::taproot::TapLeafHash;

/// One executable script of a descriptor.
#[derive(Clone, Debug)]
pub struct Unit {
    pub node: Node,
    pub ctx: Ctx,
    pub script: Vec<u8>,
    pub sv: SigVersion,
    pub leaf: Option<[u8; 32]>,
}

pub fn sv_of(ctx: Ctx) -> SigVersion {
    match ctx {
        Ctx::Bare | Ctx::Legacy => SigVersion::Base,
        Ctx::Segwitv0 => SigVersion::WitnessV0,
        Ctx::Tap => SigVersion::Tapscript,
    }
}

pub fn unit_of(node: &Node, ctx: Ctx) -> Result<Unit, String> {
    let script = encode(node, ctx)?;
    let leaf = if ctx == Ctx::Tap { Some(crate::bip341::tapleaf_hash(0xc0, &script)) } else { None };
    Ok(Unit { node: node.clone(), ctx, script, sv: sv_of(ctx), leaf })
}

pub fn units(d: &MDesc) -> Result<Vec<Unit>, String> {
    let ctx = d.ctx();
    match d {
        MDesc::Pkh(k) | MDesc::Wpkh(k) | MDesc::ShWpkh(k) => {
            Ok(vec![unit_of(&Node::Check(b(Node::PkH(k.clone()))), ctx)?])
        }
        _ => {
            let mut v = Vec::new();
            for n in d.nodes() {
                v.push(unit_of(n, ctx)?);
            }
            Ok(v)
        }
    }
}

pub struct Sym {
    pub sat: WorldSat,
    pub checker: SymbolicChecker,
}

/// Symbolic signatures for all key positions of the units (+ internal key).
pub fn symbolic(d: &MDesc, us: &[Unit], world: &World) -> Result<Sym, String> {
    let mut ecdsa = Vec::new();
    let mut leafk = Vec::new();
    for u in us {
        for k in u.node.keys() {
            let kb = key_bytes(&k, u.ctx)?;
            match u.leaf {
                Some(lh) => {
                    let mut x = [0u8; 32];
                    x.copy_from_slice(&kb);
                    leafk.push((x, lh));
                }
                None => ecdsa.push(kb),
            }
        }
    }
    let ik = match d {
        MDesc::Tr(k, _) => {
            let kb = key_bytes(k, Ctx::Tap)?;
            let mut x = [0u8; 32];
            x.copy_from_slice(&kb);
            Some(x)
        }
        _ => None,
    };
    let (sat, checker) = sign_symbolic(world, &ecdsa, &leafk, ik);
    Ok(Sym { sat, checker })
}

pub const ZERO32: [u8; 32] = [0u8; 32];

/// Everything the holder of `world` can put on the stack for `u`.
pub fn holder_alphabet(u: &Unit, world: &World, sat: &WorldSat) -> Vec<Vec<u8>> {
    let mut a: Vec<Vec<u8>> = vec![vec![], vec![1]];
    for k in u.node.keys() {
        if let Ok(kb) = key_bytes(&k, u.ctx) {
            match u.leaf {
                Some(lh) => {
                    let mut x = [0u8; 32];
                    x.copy_from_slice(&kb);
                    if let Some(s) = sat.tap_leaf.get(&(x, lh)) {
                        a.push(s.to_vec());
                    }
                }
                None => {
                    if let Some(s) = sat.ecdsa.get(&kb) {
                        a.push(s.to_vec());
                    }
                }
            }
            a.push(kb);
        }
    }
    // raw pkh: the holder knows the universe's public keys
    u.node.walk(&mut |n| {
        if let Node::RawPkH(h) = n {
            if let Ok(hb) = keys::unhex(h) {
                if hb.len() == 20 {
                    let mut h20 = [0u8; 20];
                    h20.copy_from_slice(&hb);
                    if let Some(kb) = sat.pkh_keys.get(&h20) {
                        a.push(kb.clone());
                        if let Some(s) = sat.ecdsa.get(kb) {
                            a.push(s.to_vec());
                        }
                        if let (Some(lh), Some(x)) = (u.leaf, keys::xonly_of(kb)) {
                            if let Some(s) = sat.tap_leaf.get(&(x, lh)) {
                                a.push(s.to_vec());
                            }
                        }
                    }
                }
            }
        }
    });
    for p in &world.preimages {
        a.push(p.to_vec());
    }
    a.push(ZERO32.to_vec());
    let mut out: Vec<Vec<u8>> = Vec::new();
    for x in a {
        if !out.contains(&x) {
            out.push(x);
        }
    }
    out
}

pub fn search_unit(u: &Unit, flags: &Flags, alphabet: &[Vec<u8>], sym: &Sym, budget: Budget, limit: usize) -> SearchResult {
    search(&u.script, u.sv, flags, alphabet, &sym.checker, u.leaf.map(TapLeafHash::from_byte_array), budget, limit)
}

#[derive(Clone, Copy, Debug, PartialEq, Eq)]
pub enum Truth {
    Yes,
    No,
    Unknown,
}

/// Ground truth: can the holder of `world` spend `d`?
pub fn satisfiable(d: &MDesc, us: &[Unit], world: &World, sym: &Sym, budget: Budget) -> (Truth, usize) {
    let mut nodes = 0;
    if let MDesc::Tr(k, _) = d {
        if let Ok(kb) = key_bytes(k, Ctx::Tap) {
            if world.has_key_bytes(&kb) {
                return (Truth::Yes, 0);
            }
        }
    }
    let mut unknown = false;
    for u in us {
        let alpha = holder_alphabet(u, world, &sym.sat);
        let r = search_unit(u, &Flags::STANDARD, &alpha, sym, budget, 1);
        nodes += r.nodes;
        if !r.accepting.is_empty() {
            return (Truth::Yes, nodes);
        }
        if r.truncated {
            unknown = true;
        }
    }
    (if unknown { Truth::Unknown } else { Truth::No }, nodes)
}

#[derive(Clone, Debug, PartialEq, Eq)]
pub enum Path {
    KeyPath,
    /// index into `units`
    Script(usize),
}

fn pushes_of(script_sig: &[u8]) -> Result<Vec<Vec<u8>>, String> {
    let ins = crate::refscript::parse_script(script_sig).map_err(|_| "unparsable scriptSig".to_string())?;
    let mut v = Vec::new();
    for i in ins {
        match (i.opcode, i.data) {
            (_, Some(d)) => v.push(d),
            (0x4f, None) => v.push(vec![0x81]),
            (o, None) if (0x51..=0x60).contains(&o) => v.push(vec![o - 0x50]),
            (o, None) => return Err(format!("non-push opcode {:#x} in scriptSig", o)),
        }
    }
    Ok(v)
}

/// Split a library satisfaction into (spending path, the stack elements consumed by the script).
pub fn extract_stack(d: &MDesc, us: &[Unit], witness: &[Vec<u8>], script_sig: &[u8]) -> Result<(Path, Vec<Vec<u8>>), String> {
    match d {
        MDesc::Bare(_) | MDesc::Pkh(_) => Ok((Path::Script(0), pushes_of(script_sig)?)),
        MDesc::Sh(_) => {
            let mut p = pushes_of(script_sig)?;
            let redeem = p.pop().ok_or("empty scriptSig")?;
            if redeem != us[0].script {
                return Err("redeem script in scriptSig is not the descriptor's script".into());
            }
            Ok((Path::Script(0), p))
        }
        MDesc::Wpkh(_) | MDesc::ShWpkh(_) => Ok((Path::Script(0), witness.to_vec())),
        MDesc::Wsh(_) | MDesc::ShWsh(_) => {
            let mut w = witness.to_vec();
            let ws = w.pop().ok_or("empty witness")?;
            if ws != us[0].script {
                return Err("witness script is not the descriptor's script".into());
            }
            Ok((Path::Script(0), w))
        }
        MDesc::Tr(..) => {
            if witness.len() == 1 {
                return Ok((Path::KeyPath, witness.to_vec()));
            }
            let mut w = witness.to_vec();
            let _control = w.pop().ok_or("empty witness")?;
            let script = w.pop().ok_or("short witness")?;
            match us.iter().position(|u| u.script == script) {
                Some(i) => Ok((Path::Script(i), w)),
                None => Err("tapscript in witness is not a leaf of the descriptor".into()),
            }
        }
    }
}

/// Everything a third party who saw `w` can put on the stack of unit `u`.
pub fn adversary_alphabet(u: &Unit, w: &[Vec<u8>]) -> Vec<Vec<u8>> {
    let mut a: Vec<Vec<u8>> = Vec::new();
    a.push(vec![]);
    a.push(vec![1]);
    for e in w {
        a.push(e.clone());
        // high-S twin of visible ECDSA signatures
        if u.leaf.is_none() && e.len() >= 9 && e[0] == 0x30 {
            if let Ok(s) = secp256k1::ecdsa::Signature::from_der(&e[..e.len() - 1]) {
                let c = s.serialize_compact();
                // n - s
                let mut sb = [0u8; 32];
                sb.copy_from_slice(&c[32..]);
                if let Ok(sk) = secp256k1::SecretKey::from_slice(&sb) {
                    let neg = sk.negate().secret_bytes();
                    let mut c2 = c;
                    c2[32..].copy_from_slice(&neg);
                    if let Ok(s2) = secp256k1::ecdsa::Signature::from_compact(&c2) {
                        let mut v = s2.serialize_der().to_vec();
                        v.push(e[e.len() - 1]);
                        a.push(v);
                    }
                }
            }
        }
    }
    a.push(vec![2]);
    a.push(vec![0]);
    a.push(vec![0x80]);
    a.push(ZERO32.to_vec());
    a.push([0x11u8; 32].to_vec());
    // every public key of the script, every preimage of every hash in the script
    for k in u.node.keys() {
        if let Ok(kb) = key_bytes(&k, u.ctx) {
            a.push(kb);
        }
    }
    u.node.walk(&mut |n| match n {
        Node::Sha256(h) | Node::Hash256(h) | Node::Ripemd160(h) | Node::Hash160(h) => {
            if let Ok(hb) = keys::unhex(h) {
                if let Some(p) = keys::preimage_for_digest(&hb) {
                    a.push(p.to_vec());
                }
            }
        }
        _ => {}
    });
    a.push(vec![0x22; 33]);
    a.push(vec![0x33; 65]);
    let mut out: Vec<Vec<u8>> = Vec::new();
    for x in a {
        if !out.contains(&x) {
            out.push(x);
        }
    }
    out
}
