//! Reference Bitcoin Script interpreter, written from the BIPs / Bitcoin Core's
//! `interpreter.cpp` semantics.  Independent of the `miniscript` crate.
//!
//! Only the opcode set that Miniscript and the standard output templates can produce is
//! implemented; any other opcode fails (or succeeds, for `OP_SUCCESSx` in tapscript).

use bitcoin::hashes::{hash160, ripemd160, sha256, sha256d, Hash};
use bitcoin::sighash::{Prevouts, SighashCache};
use bitcoin::taproot::TapLeafHash;
use bitcoin::{Amount, EcdsaSighashType, Script, TapSighashType, Transaction, TxOut};
use secp256k1::{Message, Secp256k1, VerifyOnly};
use std::collections::HashSet;

#[derive(Clone, Copy, Debug, PartialEq, Eq)]
pub struct Flags {
    pub p2sh: bool,
    pub dersig: bool,
    pub nulldummy: bool,
    pub cltv: bool,
    pub csv: bool,
    pub witness: bool,
    pub taproot: bool,
    // standardness
    pub strictenc: bool,
    pub low_s: bool,
    pub minimaldata: bool,
    pub sigpushonly: bool,
    pub cleanstack: bool,
    pub minimalif: bool,
    pub nullfail: bool,
    pub witness_pubkeytype: bool,
    pub const_scriptcode: bool,
    pub discourage_upgradable: bool,
    /// relay policy limits that are not script flags (item sizes, item counts, script sizes)
    pub policy_limits: bool,
}

impl Flags {
    pub const CONSENSUS: Flags = Flags {
        p2sh: true,
        dersig: true,
        nulldummy: true,
        cltv: true,
        csv: true,
        witness: true,
        taproot: true,
        strictenc: false,
        low_s: false,
        minimaldata: false,
        sigpushonly: false,
        cleanstack: false,
        minimalif: false,
        nullfail: false,
        witness_pubkeytype: false,
        const_scriptcode: false,
        discourage_upgradable: false,
        policy_limits: false,
    };
    pub const STANDARD: Flags = Flags {
        p2sh: true,
        dersig: true,
        nulldummy: true,
        cltv: true,
        csv: true,
        witness: true,
        taproot: true,
        strictenc: true,
        low_s: true,
        minimaldata: true,
        sigpushonly: true,
        cleanstack: true,
        minimalif: true,
        nullfail: true,
        witness_pubkeytype: true,
        const_scriptcode: true,
        discourage_upgradable: true,
        policy_limits: true,
    };
}

#[derive(Clone, Copy, Debug, PartialEq, Eq)]
pub enum SigVersion {
    Base,
    WitnessV0,
    Taproot,
    Tapscript,
}

#[derive(Clone, Debug, PartialEq, Eq)]
pub enum ScriptError {
    /// main stack accessed below its bottom ("demand" in the lazy search)
    Underflow,
    AltUnderflow,
    EvalFalse,
    Verify(&'static str),
    BadOpcode(u8),
    DisabledOpcode(u8),
    UnbalancedConditional,
    PushSize,
    ScriptSize,
    OpCount,
    StackSize,
    SigCount,
    PubkeyCount,
    MinimalData,
    MinimalIf,
    SigDer,
    SigHashType,
    SigHighS,
    PubkeyType,
    NullDummy,
    NullFail,
    WitnessPubkeyType,
    SigPushOnly,
    CleanStack,
    NegativeLocktime,
    UnsatisfiedLocktime,
    ScriptNum,
    WitnessProgramWrongLength,
    WitnessProgramWitnessEmpty,
    WitnessProgramMismatch,
    WitnessMalleated,
    WitnessMalleatedP2sh,
    WitnessUnexpected,
    DiscourageUpgradable,
    TaprootWrongControlSize,
    TaprootCommitment,
    SchnorrSigSize,
    SchnorrSigHashType,
    SchnorrSig,
    TapscriptValidationWeight,
    TapscriptCheckMultisig,
    TapscriptMinimalIf,
    TapscriptEmptyPubkey,
    Policy(&'static str),
    SigFindAndDelete,
    Other(&'static str),
}

/// What the interpreter observed while executing.
#[derive(Clone, Debug, Default)]
pub struct Trace {
    /// non-push opcode count, consensus counting, max over all scripts evaluated for the input
    /// (not incremented in tapscript)
    pub op_count: usize,
    /// number of opcodes > OP_16 that were actually executed (in an executed branch),
    /// plus pubkeys of executed CHECKMULTISIGs
    pub executed_ops: usize,
    /// max(stack+altstack) observed after any opcode
    pub max_stack: usize,
    /// per evaluated script, in evaluation order: (non-push opcode count, max stack+altstack)
    pub per_script: Vec<(usize, usize)>,
    /// (pubkey bytes, sig bytes incl. hashtype, success)
    pub sig_checks: Vec<(Vec<u8>, Vec<u8>, bool)>,
    /// (opcode, preimage, digest)
    pub hashes: Vec<(u8, Vec<u8>, Vec<u8>)>,
    /// for each entry of `hashes`: was the input length-checked by `SIZE <32> EQUALVERIFY`
    /// immediately before (i.e. is this a hash-lock fragment rather than a pk_h)?
    pub hash_after_size32: Vec<bool>,
    /// (digest, ok) comparisons via EQUAL/EQUALVERIFY
    pub equal_checks: Vec<(Vec<u8>, Vec<u8>, bool)>,
    pub cltv_args: Vec<i64>,
    pub csv_args: Vec<i64>,
    /// number of initial stack elements touched by the script
    pub consumed_initial: usize,
}

pub trait SigChecker {
    /// `sig` includes the trailing hashtype byte. Encoding checks already done by caller.
    fn check_ecdsa(&self, sig: &[u8], pubkey: &[u8], script_code: &[u8], sv: SigVersion) -> bool;
    /// `sig` is 64 or 65 bytes.
    fn check_schnorr(
        &self,
        sig: &[u8],
        pubkey32: &[u8],
        sv: SigVersion,
        leaf: Option<TapLeafHash>,
        annex: Option<&[u8]>,
    ) -> Result<bool, ScriptError>;
    fn check_locktime(&self, n: i64) -> bool;
    fn check_sequence(&self, n: i64) -> bool;
}

// ---------------------------------------------------------------------------------------
// opcodes
pub mod op {
    pub const OP_0: u8 = 0x00;
    pub const PUSHDATA1: u8 = 0x4c;
    pub const PUSHDATA2: u8 = 0x4d;
    pub const PUSHDATA4: u8 = 0x4e;
    pub const OP_1NEGATE: u8 = 0x4f;
    pub const OP_RESERVED: u8 = 0x50;
    pub const OP_1: u8 = 0x51;
    pub const OP_16: u8 = 0x60;
    pub const NOP: u8 = 0x61;
    pub const VER: u8 = 0x62;
    pub const IF: u8 = 0x63;
    pub const NOTIF: u8 = 0x64;
    pub const VERIF: u8 = 0x65;
    pub const VERNOTIF: u8 = 0x66;
    pub const ELSE: u8 = 0x67;
    pub const ENDIF: u8 = 0x68;
    pub const VERIFY: u8 = 0x69;
    pub const RETURN: u8 = 0x6a;
    pub const TOALTSTACK: u8 = 0x6b;
    pub const FROMALTSTACK: u8 = 0x6c;
    pub const DROP2: u8 = 0x6d;
    pub const IFDUP: u8 = 0x73;
    pub const DEPTH: u8 = 0x74;
    pub const DROP: u8 = 0x75;
    pub const DUP: u8 = 0x76;
    pub const SWAP: u8 = 0x7c;
    pub const SIZE: u8 = 0x82;
    pub const EQUAL: u8 = 0x87;
    pub const EQUALVERIFY: u8 = 0x88;
    pub const NOT: u8 = 0x91;
    pub const ZERONOTEQUAL: u8 = 0x92;
    pub const ADD: u8 = 0x93;
    pub const BOOLAND: u8 = 0x9a;
    pub const BOOLOR: u8 = 0x9b;
    pub const NUMEQUAL: u8 = 0x9c;
    pub const NUMEQUALVERIFY: u8 = 0x9d;
    pub const RIPEMD160: u8 = 0xa6;
    pub const SHA1: u8 = 0xa7;
    pub const SHA256: u8 = 0xa8;
    pub const HASH160: u8 = 0xa9;
    pub const HASH256: u8 = 0xaa;
    pub const CODESEPARATOR: u8 = 0xab;
    pub const CHECKSIG: u8 = 0xac;
    pub const CHECKSIGVERIFY: u8 = 0xad;
    pub const CHECKMULTISIG: u8 = 0xae;
    pub const CHECKMULTISIGVERIFY: u8 = 0xaf;
    pub const NOP1: u8 = 0xb0;
    pub const CLTV: u8 = 0xb1;
    pub const CSV: u8 = 0xb2;
    pub const NOP4: u8 = 0xb3;
    pub const NOP10: u8 = 0xb9;
    pub const CHECKSIGADD: u8 = 0xba;
}
use op::*;

/// One parsed script element: opcode and, for pushes, the data.
#[derive(Clone, Debug, PartialEq, Eq)]
pub struct Instr {
    pub opcode: u8,
    pub data: Option<Vec<u8>>,
}

/// Parse a script completely. `Err` if a push runs past the end.
pub fn parse_script(s: &[u8]) -> Result<Vec<Instr>, ()> {
    let mut out = Vec::new();
    let mut i = 0usize;
    while i < s.len() {
        let opc = s[i];
        i += 1;
        if opc <= PUSHDATA4 {
            let n: usize = if opc < PUSHDATA1 {
                opc as usize
            } else if opc == PUSHDATA1 {
                if i + 1 > s.len() {
                    return Err(());
                }
                let n = s[i] as usize;
                i += 1;
                n
            } else if opc == PUSHDATA2 {
                if i + 2 > s.len() {
                    return Err(());
                }
                let n = u16::from_le_bytes([s[i], s[i + 1]]) as usize;
                i += 2;
                n
            } else {
                if i + 4 > s.len() {
                    return Err(());
                }
                let n = u32::from_le_bytes([s[i], s[i + 1], s[i + 2], s[i + 3]]) as usize;
                i += 4;
                n
            };
            if i + n > s.len() {
                return Err(());
            }
            out.push(Instr { opcode: opc, data: Some(s[i..i + n].to_vec()) });
            i += n;
        } else {
            out.push(Instr { opcode: opc, data: None });
        }
    }
    Ok(out)
}

fn is_op_success(opc: u8) -> bool {
    opc == 80
        || opc == 98
        || (126..=129).contains(&opc)
        || (131..=134).contains(&opc)
        || (137..=138).contains(&opc)
        || (141..=142).contains(&opc)
        || (149..=153).contains(&opc)
        || (187..=254).contains(&opc)
}

fn is_disabled(opc: u8) -> bool {
    matches!(opc, 0x7e | 0x7f | 0x80 | 0x81 | 0x83 | 0x84 | 0x85 | 0x86 | 0x8d | 0x8e | 0x95 | 0x96 | 0x97 | 0x98 | 0x99)
}

pub fn cast_to_bool(v: &[u8]) -> bool {
    for (i, b) in v.iter().enumerate() {
        if *b != 0 {
            // negative zero
            if i == v.len() - 1 && *b == 0x80 {
                return false;
            }
            return true;
        }
    }
    false
}

pub fn scriptnum_decode(v: &[u8], require_minimal: bool, max_len: usize) -> Result<i64, ScriptError> {
    if v.len() > max_len {
        return Err(ScriptError::ScriptNum);
    }
    if require_minimal && !v.is_empty() {
        if v[v.len() - 1] & 0x7f == 0 && (v.len() <= 1 || v[v.len() - 2] & 0x80 == 0) {
            return Err(ScriptError::MinimalData);
        }
    }
    if v.is_empty() {
        return Ok(0);
    }
    let mut r: i64 = 0;
    for (i, b) in v.iter().enumerate() {
        r |= (*b as i64) << (8 * i);
    }
    if v[v.len() - 1] & 0x80 != 0 {
        r &= !(0x80i64 << (8 * (v.len() - 1)));
        r = -r;
    }
    Ok(r)
}

pub fn scriptnum_encode(n: i64) -> Vec<u8> {
    if n == 0 {
        return vec![];
    }
    let neg = n < 0;
    let mut abs = n.unsigned_abs();
    let mut out = Vec::new();
    while abs > 0 {
        out.push((abs & 0xff) as u8);
        abs >>= 8;
    }
    if out[out.len() - 1] & 0x80 != 0 {
        out.push(if neg { 0x80 } else { 0 });
    } else if neg {
        let l = out.len();
        out[l - 1] |= 0x80;
    }
    out
}

fn check_minimal_push(data: &[u8], opcode: u8) -> bool {
    if data.is_empty() {
        return opcode == OP_0;
    }
    if data.len() == 1 && data[0] >= 1 && data[0] <= 16 {
        return false; // should have used OP_1..16
    }
    if data.len() == 1 && data[0] == 0x81 {
        return false; // OP_1NEGATE
    }
    if data.len() <= 75 {
        return opcode as usize == data.len();
    }
    if data.len() <= 255 {
        return opcode == PUSHDATA1;
    }
    if data.len() <= 65535 {
        return opcode == PUSHDATA2;
    }
    true
}

/// Core's IsValidSignatureEncoding (strict DER + hashtype byte)
pub fn is_valid_signature_encoding(sig: &[u8]) -> bool {
    if sig.len() < 9 || sig.len() > 73 {
        return false;
    }
    if sig[0] != 0x30 {
        return false;
    }
    if sig[1] as usize != sig.len() - 3 {
        return false;
    }
    let len_r = sig[3] as usize;
    if 5 + len_r >= sig.len() {
        return false;
    }
    let len_s = sig[5 + len_r] as usize;
    if len_r + len_s + 7 != sig.len() {
        return false;
    }
    if sig[2] != 0x02 {
        return false;
    }
    if len_r == 0 {
        return false;
    }
    if sig[4] & 0x80 != 0 {
        return false;
    }
    if len_r > 1 && sig[4] == 0 && sig[5] & 0x80 == 0 {
        return false;
    }
    if sig[len_r + 4] != 0x02 {
        return false;
    }
    if len_s == 0 {
        return false;
    }
    if sig[len_r + 6] & 0x80 != 0 {
        return false;
    }
    if len_s > 1 && sig[len_r + 6] == 0 && sig[len_r + 7] & 0x80 == 0 {
        return false;
    }
    true
}

fn is_low_der_signature(sig: &[u8]) -> bool {
    // sig includes hashtype
    let der = &sig[..sig.len() - 1];
    match secp256k1::ecdsa::Signature::from_der(der) {
        Ok(s) => {
            let mut n = s;
            n.normalize_s();
            n == s
        }
        Err(_) => false,
    }
}

fn is_defined_hashtype(sig: &[u8]) -> bool {
    if sig.is_empty() {
        return false;
    }
    let ht = sig[sig.len() - 1] & !0x80u8;
    (1..=3).contains(&ht)
}

fn is_compressed_or_uncompressed_pubkey(pk: &[u8]) -> bool {
    if pk.len() < 33 {
        return false;
    }
    if pk[0] == 0x04 {
        pk.len() == 65
    } else if pk[0] == 0x02 || pk[0] == 0x03 {
        pk.len() == 33
    } else {
        false
    }
}

fn is_compressed_pubkey(pk: &[u8]) -> bool { pk.len() == 33 && (pk[0] == 2 || pk[0] == 3) }

fn check_signature_encoding(sig: &[u8], flags: &Flags) -> Result<(), ScriptError> {
    if sig.is_empty() {
        return Ok(());
    }
    if (flags.dersig || flags.low_s || flags.strictenc) && !is_valid_signature_encoding(sig) {
        return Err(ScriptError::SigDer);
    }
    if flags.low_s && !is_low_der_signature(sig) {
        return Err(ScriptError::SigHighS);
    }
    if flags.strictenc && !is_defined_hashtype(sig) {
        return Err(ScriptError::SigHashType);
    }
    Ok(())
}

fn check_pubkey_encoding(pk: &[u8], flags: &Flags, sv: SigVersion) -> Result<(), ScriptError> {
    if flags.strictenc && !is_compressed_or_uncompressed_pubkey(pk) {
        return Err(ScriptError::PubkeyType);
    }
    if flags.witness_pubkeytype && sv == SigVersion::WitnessV0 && !is_compressed_pubkey(pk) {
        return Err(ScriptError::WitnessPubkeyType);
    }
    Ok(())
}

pub const MAX_SCRIPT_SIZE: usize = 10_000;
pub const MAX_ELEMENT_SIZE: usize = 520;
pub const MAX_OPS: usize = 201;
pub const MAX_STACK: usize = 1000;
pub const MAX_PUBKEYS_PER_MULTISIG: i64 = 20;
const VALIDATION_WEIGHT_PER_SIGOP_PASSED: i64 = 50;
const VALIDATION_WEIGHT_OFFSET: i64 = 50;

pub struct ExecData {
    pub leaf: Option<TapLeafHash>,
    pub annex: Option<Vec<u8>>,
    pub validation_weight_left: i64,
}

struct St<'a> {
    stack: &'a mut Vec<Vec<u8>>,
    floor: usize,
}
impl<'a> St<'a> {
    fn need(&mut self, n: usize) -> Result<(), ScriptError> {
        if self.stack.len() < n {
            self.floor = 0;
            return Err(ScriptError::Underflow);
        }
        let f = self.stack.len() - n;
        if f < self.floor {
            self.floor = f;
        }
        Ok(())
    }
    fn pop(&mut self) -> Result<Vec<u8>, ScriptError> {
        self.need(1)?;
        Ok(self.stack.pop().unwrap())
    }
    fn top(&mut self, i: usize) -> Result<&Vec<u8>, ScriptError> {
        // i = 1 is top
        self.need(i)?;
        let l = self.stack.len();
        Ok(&self.stack[l - i])
    }
    fn push(&mut self, v: Vec<u8>) { self.stack.push(v) }
}

/// Evaluate one script on `stack`.
pub fn eval_script(
    stack: &mut Vec<Vec<u8>>,
    script: &[u8],
    flags: &Flags,
    checker: &dyn SigChecker,
    sv: SigVersion,
    exec: &mut ExecData,
    trace: &mut Trace,
) -> Result<(), ScriptError> {
    let initial_len = stack.len();
    let mut st = St { stack, floor: initial_len };
    let (save_ops, save_stack) = (trace.op_count, trace.max_stack);
    trace.op_count = 0;
    trace.max_stack = 0;
    let r = eval_inner(&mut st, script, flags, checker, sv, exec, trace);
    trace.per_script.push((trace.op_count, trace.max_stack));
    trace.op_count = trace.op_count.max(save_ops);
    trace.max_stack = trace.max_stack.max(save_stack);
    let consumed = initial_len - st.floor.min(initial_len);
    if consumed > trace.consumed_initial {
        trace.consumed_initial = consumed;
    }
    r
}

fn eval_inner(
    st: &mut St,
    script: &[u8],
    flags: &Flags,
    checker: &dyn SigChecker,
    sv: SigVersion,
    exec: &mut ExecData,
    trace: &mut Trace,
) -> Result<(), ScriptError> {
    let tapscript = sv == SigVersion::Tapscript;
    if (sv == SigVersion::Base || sv == SigVersion::WitnessV0) && script.len() > MAX_SCRIPT_SIZE {
        return Err(ScriptError::ScriptSize);
    }
    let instrs = parse_script(script);
    // In Core parsing is incremental: a bad push only fails when reached. We emulate by
    // parsing the valid prefix and failing at the end of it.
    let (instrs, truncated) = match instrs {
        Ok(v) => (v, false),
        Err(()) => (parse_prefix(script), true),
    };
    let require_minimal = flags.minimaldata;
    let mut altstack: Vec<Vec<u8>> = Vec::new();
    let mut vf_exec: Vec<bool> = Vec::new();
    let mut op_count = 0usize;
    // last three executed instructions (opcode, pushed data)
    let mut recent: Vec<(u8, Option<Vec<u8>>)> = Vec::new();
    if trace.max_stack < st.stack.len() {
        trace.max_stack = st.stack.len();
    }

    for ins in instrs.iter() {
        let opcode = ins.opcode;
        let f_exec = vf_exec.iter().all(|b| *b);
        if let Some(ref d) = ins.data {
            if d.len() > MAX_ELEMENT_SIZE {
                return Err(ScriptError::PushSize);
            }
        }
        if !tapscript && opcode > OP_16 {
            op_count += 1;
            if op_count > trace.op_count {
                trace.op_count = op_count;
            }
            if op_count > MAX_OPS {
                return Err(ScriptError::OpCount);
            }
        }
        if is_disabled(opcode) {
            return Err(ScriptError::DisabledOpcode(opcode));
        }
        if opcode == CODESEPARATOR && sv == SigVersion::Base && flags.const_scriptcode {
            return Err(ScriptError::Other("codeseparator"));
        }
        if f_exec && opcode > OP_16 {
            trace.executed_ops += 1;
        }

        if f_exec && ins.data.is_some() {
            let d = ins.data.as_ref().unwrap();
            if require_minimal && !check_minimal_push(d, opcode) {
                return Err(ScriptError::MinimalData);
            }
            st.push(d.clone());
        } else if f_exec || (IF..=ENDIF).contains(&opcode) {
            match opcode {
                OP_1NEGATE => st.push(scriptnum_encode(-1)),
                OP_1..=OP_16 => st.push(scriptnum_encode((opcode - OP_1 + 1) as i64)),
                NOP => {}
                CLTV => {
                    if !flags.cltv {
                        // treated as NOP2
                    } else {
                        let n = scriptnum_decode(st.top(1)?, require_minimal, 5)?;
                        if n < 0 {
                            return Err(ScriptError::NegativeLocktime);
                        }
                        trace.cltv_args.push(n);
                        if !checker.check_locktime(n) {
                            return Err(ScriptError::UnsatisfiedLocktime);
                        }
                    }
                }
                CSV => {
                    if !flags.csv {
                    } else {
                        let n = scriptnum_decode(st.top(1)?, require_minimal, 5)?;
                        if n < 0 {
                            return Err(ScriptError::NegativeLocktime);
                        }
                        trace.csv_args.push(n);
                        if (n & (1i64 << 31)) == 0 {
                            if !checker.check_sequence(n) {
                                return Err(ScriptError::UnsatisfiedLocktime);
                            }
                        }
                    }
                }
                NOP1 | NOP4..=NOP10 => {
                    if flags.discourage_upgradable {
                        return Err(ScriptError::DiscourageUpgradable);
                    }
                }
                IF | NOTIF => {
                    let mut value = false;
                    if f_exec {
                        let v = st.top(1)?.clone();
                        if tapscript {
                            if v.len() > 1 || (v.len() == 1 && v[0] != 1) {
                                return Err(ScriptError::TapscriptMinimalIf);
                            }
                        }
                        if sv == SigVersion::WitnessV0 && flags.minimalif {
                            if v.len() > 1 {
                                return Err(ScriptError::MinimalIf);
                            }
                            if v.len() == 1 && v[0] != 1 {
                                return Err(ScriptError::MinimalIf);
                            }
                        }
                        value = cast_to_bool(&v);
                        if opcode == NOTIF {
                            value = !value;
                        }
                        st.pop()?;
                    }
                    vf_exec.push(value);
                }
                ELSE => {
                    if vf_exec.is_empty() {
                        return Err(ScriptError::UnbalancedConditional);
                    }
                    let l = vf_exec.len();
                    vf_exec[l - 1] = !vf_exec[l - 1];
                }
                ENDIF => {
                    if vf_exec.is_empty() {
                        return Err(ScriptError::UnbalancedConditional);
                    }
                    vf_exec.pop();
                }
                VERIFY => {
                    let v = st.top(1)?;
                    if cast_to_bool(v) {
                        st.pop()?;
                    } else {
                        return Err(ScriptError::Verify("VERIFY"));
                    }
                }
                RETURN => return Err(ScriptError::Other("OP_RETURN")),
                TOALTSTACK => {
                    let v = st.pop()?;
                    altstack.push(v);
                }
                FROMALTSTACK => {
                    let v = altstack.pop().ok_or(ScriptError::AltUnderflow)?;
                    st.push(v);
                }
                DROP2 => {
                    st.need(2)?;
                    st.pop()?;
                    st.pop()?;
                }
                IFDUP => {
                    let v = st.top(1)?.clone();
                    if cast_to_bool(&v) {
                        st.push(v);
                    }
                }
                DEPTH => {
                    // depends on untouched elements: treat as touching everything
                    let l = st.stack.len();
                    st.need(l)?;
                    st.push(scriptnum_encode(l as i64));
                }
                DROP => {
                    st.pop()?;
                }
                DUP => {
                    let v = st.top(1)?.clone();
                    st.push(v);
                }
                SWAP => {
                    st.need(2)?;
                    let l = st.stack.len();
                    st.stack.swap(l - 1, l - 2);
                }
                SIZE => {
                    let n = st.top(1)?.len();
                    st.push(scriptnum_encode(n as i64));
                }
                EQUAL | EQUALVERIFY => {
                    st.need(2)?;
                    let b = st.pop()?;
                    let a = st.pop()?;
                    let eq = a == b;
                    trace.equal_checks.push((a, b, eq));
                    if opcode == EQUALVERIFY {
                        if !eq {
                            return Err(ScriptError::Verify("EQUALVERIFY"));
                        }
                    } else {
                        st.push(if eq { vec![1] } else { vec![] });
                    }
                }
                NOT | ZERONOTEQUAL => {
                    let n = scriptnum_decode(st.top(1)?, require_minimal, 4)?;
                    st.pop()?;
                    let r = if opcode == NOT { (n == 0) as i64 } else { (n != 0) as i64 };
                    st.push(scriptnum_encode(r));
                }
                ADD | BOOLAND | BOOLOR | NUMEQUAL | NUMEQUALVERIFY => {
                    st.need(2)?;
                    let b = scriptnum_decode(st.top(1)?, require_minimal, 4)?;
                    let a = scriptnum_decode(st.top(2)?, require_minimal, 4)?;
                    st.pop()?;
                    st.pop()?;
                    let r = match opcode {
                        ADD => a + b,
                        BOOLAND => (a != 0 && b != 0) as i64,
                        BOOLOR => (a != 0 || b != 0) as i64,
                        _ => (a == b) as i64,
                    };
                    if opcode == NUMEQUALVERIFY {
                        if r == 0 {
                            return Err(ScriptError::Verify("NUMEQUALVERIFY"));
                        }
                    } else {
                        st.push(scriptnum_encode(r));
                    }
                }
                RIPEMD160 | SHA1 | SHA256 | HASH160 | HASH256 => {
                    let v = st.pop()?;
                    let h: Vec<u8> = match opcode {
                        RIPEMD160 => ripemd160::Hash::hash(&v).to_byte_array().to_vec(),
                        SHA1 => bitcoin::hashes::sha1::Hash::hash(&v).to_byte_array().to_vec(),
                        SHA256 => sha256::Hash::hash(&v).to_byte_array().to_vec(),
                        HASH160 => hash160::Hash::hash(&v).to_byte_array().to_vec(),
                        _ => sha256d::Hash::hash(&v).to_byte_array().to_vec(),
                    };
                    let n = recent.len();
                    let sized = n >= 3
                        && recent[n - 3].0 == SIZE
                        && recent[n - 2].1.as_deref() == Some(&[0x20u8][..])
                        && recent[n - 1].0 == EQUALVERIFY;
                    trace.hash_after_size32.push(sized);
                    trace.hashes.push((opcode, v, h.clone()));
                    st.push(h);
                }
                CODESEPARATOR => {
                    // not used by miniscript; script code handling not modelled
                    return Err(ScriptError::Other("codeseparator unsupported"));
                }
                CHECKSIG | CHECKSIGVERIFY => {
                    st.need(2)?;
                    let pk = st.top(1)?.clone();
                    let sig = st.top(2)?.clone();
                    let ok = eval_checksig(&sig, &pk, script, flags, checker, sv, exec, trace)?;
                    st.pop()?;
                    st.pop()?;
                    if opcode == CHECKSIGVERIFY {
                        if !ok {
                            return Err(ScriptError::Verify("CHECKSIGVERIFY"));
                        }
                    } else {
                        st.push(if ok { vec![1] } else { vec![] });
                    }
                }
                CHECKSIGADD => {
                    if !tapscript {
                        return Err(ScriptError::BadOpcode(opcode));
                    }
                    st.need(3)?;
                    let sig = st.top(3)?.clone();
                    let num = scriptnum_decode(st.top(2)?, require_minimal, 4)?;
                    let pk = st.top(1)?.clone();
                    let ok = eval_checksig(&sig, &pk, script, flags, checker, sv, exec, trace)?;
                    st.pop()?;
                    st.pop()?;
                    st.pop()?;
                    st.push(scriptnum_encode(num + ok as i64));
                }
                CHECKMULTISIG | CHECKMULTISIGVERIFY => {
                    if tapscript {
                        return Err(ScriptError::TapscriptCheckMultisig);
                    }
                    let mut i = 1usize;
                    let nkeys = scriptnum_decode(st.top(i)?, require_minimal, 4)?;
                    if !(0..=MAX_PUBKEYS_PER_MULTISIG).contains(&nkeys) {
                        return Err(ScriptError::PubkeyCount);
                    }
                    op_count += nkeys as usize;
                    trace.executed_ops += nkeys as usize;
                    if op_count > trace.op_count {
                        trace.op_count = op_count;
                    }
                    if op_count > MAX_OPS {
                        return Err(ScriptError::OpCount);
                    }
                    i += 1;
                    let mut ikey = i;
                    let mut ikey2 = nkeys as usize + 2;
                    i += nkeys as usize;
                    let nsigs = scriptnum_decode(st.top(i)?, require_minimal, 4)?;
                    if nsigs < 0 || nsigs > nkeys {
                        return Err(ScriptError::SigCount);
                    }
                    i += 1;
                    let mut isig = i;
                    i += nsigs as usize;
                    st.need(i)?; // dummy element too
                    // (Base: FindAndDelete of sigs in script code; not modelled beyond
                    // CONST_SCRIPTCODE check)
                    let mut nkeys_left = nkeys;
                    let mut nsigs_left = nsigs;
                    let mut success = true;
                    while success && nsigs_left > 0 {
                        let sig = st.top(isig)?.clone();
                        let pk = st.top(ikey)?.clone();
                        check_signature_encoding(&sig, flags)?;
                        check_pubkey_encoding(&pk, flags, sv)?;
                        if sv == SigVersion::Base && !sig.is_empty() && find_subslice(script, &sig) {
                            if flags.const_scriptcode {
                                return Err(ScriptError::SigFindAndDelete);
                            }
                        }
                        let ok = !sig.is_empty() && checker.check_ecdsa(&sig, &pk, script, sv);
                        trace.sig_checks.push((pk, sig, ok));
                        if ok {
                            isig += 1;
                            nsigs_left -= 1;
                        }
                        ikey += 1;
                        nkeys_left -= 1;
                        if nsigs_left > nkeys_left {
                            success = false;
                        }
                    }
                    // pop everything
                    let mut to_pop = i - 1;
                    while to_pop > 0 {
                        if !success && flags.nullfail && ikey2 == 0 && !st.top(1)?.is_empty() {
                            return Err(ScriptError::NullFail);
                        }
                        if ikey2 > 0 {
                            ikey2 -= 1;
                        }
                        st.pop()?;
                        to_pop -= 1;
                    }
                    let dummy = st.pop()?;
                    if flags.nulldummy && !dummy.is_empty() {
                        return Err(ScriptError::NullDummy);
                    }
                    if opcode == CHECKMULTISIGVERIFY {
                        if !success {
                            return Err(ScriptError::Verify("CHECKMULTISIGVERIFY"));
                        }
                    } else {
                        st.push(if success { vec![1] } else { vec![] });
                    }
                }
                _ => return Err(ScriptError::BadOpcode(opcode)),
            }
        }
        if f_exec {
            recent.push((opcode, ins.data.clone()));
            if recent.len() > 3 {
                recent.remove(0);
            }
        }
        let tot = st.stack.len() + altstack.len();
        if tot > trace.max_stack {
            trace.max_stack = tot;
        }
        if tot > MAX_STACK {
            return Err(ScriptError::StackSize);
        }
    }
    if truncated {
        return Err(ScriptError::BadOpcode(0xff));
    }
    if !vf_exec.is_empty() {
        return Err(ScriptError::UnbalancedConditional);
    }
    Ok(())
}

fn parse_prefix(s: &[u8]) -> Vec<Instr> {
    // longest parsable prefix
    let mut out = Vec::new();
    let mut i = 0usize;
    while i < s.len() {
        let opc = s[i];
        let mut j = i + 1;
        if opc <= PUSHDATA4 {
            let n: usize = if opc < PUSHDATA1 {
                opc as usize
            } else if opc == PUSHDATA1 {
                if j + 1 > s.len() {
                    break;
                }
                j += 1;
                s[j - 1] as usize
            } else if opc == PUSHDATA2 {
                if j + 2 > s.len() {
                    break;
                }
                j += 2;
                u16::from_le_bytes([s[j - 2], s[j - 1]]) as usize
            } else {
                if j + 4 > s.len() {
                    break;
                }
                j += 4;
                u32::from_le_bytes([s[j - 4], s[j - 3], s[j - 2], s[j - 1]]) as usize
            };
            if j + n > s.len() {
                break;
            }
            out.push(Instr { opcode: opc, data: Some(s[j..j + n].to_vec()) });
            i = j + n;
        } else {
            out.push(Instr { opcode: opc, data: None });
            i = j;
        }
    }
    out
}

fn find_subslice(h: &[u8], needle: &[u8]) -> bool {
    if needle.is_empty() || needle.len() > h.len() {
        return false;
    }
    h.windows(needle.len()).any(|w| w == needle)
}

#[allow(clippy::too_many_arguments)]
fn eval_checksig(
    sig: &[u8],
    pk: &[u8],
    script: &[u8],
    flags: &Flags,
    checker: &dyn SigChecker,
    sv: SigVersion,
    exec: &mut ExecData,
    trace: &mut Trace,
) -> Result<bool, ScriptError> {
    match sv {
        SigVersion::Base | SigVersion::WitnessV0 => {
            check_signature_encoding(sig, flags)?;
            check_pubkey_encoding(pk, flags, sv)?;
            if sv == SigVersion::Base && !sig.is_empty() && find_subslice(script, sig) && flags.const_scriptcode {
                return Err(ScriptError::SigFindAndDelete);
            }
            let ok = !sig.is_empty() && checker.check_ecdsa(sig, pk, script, sv);
            trace.sig_checks.push((pk.to_vec(), sig.to_vec(), ok));
            if !ok && flags.nullfail && !sig.is_empty() {
                return Err(ScriptError::NullFail);
            }
            Ok(ok)
        }
        SigVersion::Tapscript => {
            let success = !sig.is_empty();
            if success {
                exec.validation_weight_left -= VALIDATION_WEIGHT_PER_SIGOP_PASSED;
                if exec.validation_weight_left < 0 {
                    return Err(ScriptError::TapscriptValidationWeight);
                }
            }
            if pk.is_empty() {
                return Err(ScriptError::TapscriptEmptyPubkey);
            } else if pk.len() == 32 {
                if success {
                    let ok = checker.check_schnorr(sig, pk, sv, exec.leaf, exec.annex.as_deref())?;
                    trace.sig_checks.push((pk.to_vec(), sig.to_vec(), ok));
                    if !ok {
                        return Err(ScriptError::SchnorrSig);
                    }
                } else {
                    trace.sig_checks.push((pk.to_vec(), sig.to_vec(), false));
                }
            } else {
                // unknown pubkey type: succeeds (consensus) unless discouraged
                if flags.discourage_upgradable {
                    return Err(ScriptError::DiscourageUpgradable);
                }
                trace.sig_checks.push((pk.to_vec(), sig.to_vec(), success));
            }
            Ok(success)
        }
        SigVersion::Taproot => Err(ScriptError::Other("checksig in key path")),
    }
}

// ---------------------------------------------------------------------------------------
// VerifyScript

fn is_push_only(script: &[u8]) -> bool {
    match parse_script(script) {
        Ok(v) => v.iter().all(|i| i.opcode <= OP_16),
        Err(()) => false,
    }
}

fn is_p2sh(spk: &[u8]) -> bool { spk.len() == 23 && spk[0] == HASH160 && spk[1] == 0x14 && spk[22] == EQUAL }

/// (version, program)
pub fn witness_program(spk: &[u8]) -> Option<(u8, &[u8])> {
    if spk.len() < 4 || spk.len() > 42 {
        return None;
    }
    if spk[0] != OP_0 && !(OP_1..=OP_16).contains(&spk[0]) {
        return None;
    }
    if spk[1] as usize + 2 == spk.len() {
        let v = if spk[0] == 0 { 0 } else { spk[0] - OP_1 + 1 };
        Some((v, &spk[2..]))
    } else {
        None
    }
}

/// Full input verification (Core's VerifyScript).
pub fn verify_script(
    script_sig: &[u8],
    spk: &[u8],
    witness: &[Vec<u8>],
    flags: &Flags,
    checker: &dyn SigChecker,
) -> Result<Trace, ScriptError> {
    let mut trace = Trace::default();
    let mut dummy_exec = ExecData { leaf: None, annex: None, validation_weight_left: 0 };
    if flags.sigpushonly && !is_push_only(script_sig) {
        return Err(ScriptError::SigPushOnly);
    }
    if flags.policy_limits && script_sig.len() > 1650 {
        return Err(ScriptError::Policy("scriptsig-size"));
    }
    let mut stack: Vec<Vec<u8>> = Vec::new();
    eval_script(&mut stack, script_sig, flags, checker, SigVersion::Base, &mut dummy_exec, &mut trace)?;
    // consumed_initial is meaningless across scripts here; reset
    trace.consumed_initial = 0;
    let stack_copy = if flags.p2sh { Some(stack.clone()) } else { None };
    eval_script(&mut stack, spk, flags, checker, SigVersion::Base, &mut dummy_exec, &mut trace)?;
    if stack.is_empty() || !cast_to_bool(stack.last().unwrap()) {
        return Err(ScriptError::EvalFalse);
    }
    let mut had_witness = false;
    if flags.witness {
        if let Some((v, prog)) = witness_program(spk) {
            had_witness = true;
            if !script_sig.is_empty() {
                return Err(ScriptError::WitnessMalleated);
            }
            verify_witness_program(witness, v, prog, flags, checker, false, &mut trace)?;
            stack.truncate(1);
        }
    }
    if flags.p2sh && is_p2sh(spk) {
        if !is_push_only(script_sig) {
            return Err(ScriptError::SigPushOnly);
        }
        let mut stack = stack_copy.unwrap();
        if stack.is_empty() {
            return Err(ScriptError::Other("p2sh empty stack"));
        }
        let redeem = stack.pop().unwrap();
        eval_script(&mut stack, &redeem, flags, checker, SigVersion::Base, &mut dummy_exec, &mut trace)?;
        if stack.is_empty() || !cast_to_bool(stack.last().unwrap()) {
            return Err(ScriptError::EvalFalse);
        }
        if flags.witness {
            if let Some((v, prog)) = witness_program(&redeem) {
                had_witness = true;
                // scriptSig must be exactly a single push of the redeem script
                let mut expect = Vec::new();
                push_data(&mut expect, &redeem);
                if script_sig != &expect[..] {
                    return Err(ScriptError::WitnessMalleatedP2sh);
                }
                verify_witness_program(witness, v, prog, flags, checker, true, &mut trace)?;
                stack.truncate(1);
            }
        }
        if flags.cleanstack && stack.len() != 1 {
            return Err(ScriptError::CleanStack);
        }
    } else if flags.cleanstack {
        if stack.len() != 1 {
            return Err(ScriptError::CleanStack);
        }
    }
    if flags.witness && !had_witness && !witness.is_empty() {
        return Err(ScriptError::WitnessUnexpected);
    }
    Ok(trace)
}

pub fn push_data(out: &mut Vec<u8>, data: &[u8]) {
    // CScript << vector semantic (minimal push for size; note: uses direct push even for
    // values 1..16, exactly as Core's operator<< does)
    let n = data.len();
    if n < PUSHDATA1 as usize {
        out.push(n as u8);
    } else if n <= 0xff {
        out.push(PUSHDATA1);
        out.push(n as u8);
    } else if n <= 0xffff {
        out.push(PUSHDATA2);
        out.extend_from_slice(&(n as u16).to_le_bytes());
    } else {
        out.push(PUSHDATA4);
        out.extend_from_slice(&(n as u32).to_le_bytes());
    }
    out.extend_from_slice(data);
}

fn ser_witness_size(w: &[Vec<u8>]) -> usize {
    // GetSerializeSize(witness stack)
    let mut n = varint_len(w.len());
    for e in w {
        n += varint_len(e.len()) + e.len();
    }
    n
}
pub fn varint_len(n: usize) -> usize {
    if n < 0xfd {
        1
    } else if n <= 0xffff {
        3
    } else if n <= 0xffff_ffff {
        5
    } else {
        9
    }
}

fn verify_witness_program(
    witness: &[Vec<u8>],
    version: u8,
    program: &[u8],
    flags: &Flags,
    checker: &dyn SigChecker,
    is_p2sh: bool,
    trace: &mut Trace,
) -> Result<(), ScriptError> {
    let mut stack: Vec<Vec<u8>> = witness.to_vec();
    if version == 0 {
        if program.len() == 32 {
            if stack.is_empty() {
                return Err(ScriptError::WitnessProgramWitnessEmpty);
            }
            let script = stack.pop().unwrap();
            if sha256::Hash::hash(&script).to_byte_array()[..] != program[..] {
                return Err(ScriptError::WitnessProgramMismatch);
            }
            if flags.policy_limits {
                if script.len() > 3600 {
                    return Err(ScriptError::Policy("p2wsh-script-size"));
                }
                if stack.len() > 100 {
                    return Err(ScriptError::Policy("p2wsh-stack-items"));
                }
                if stack.iter().any(|e| e.len() > 80) {
                    return Err(ScriptError::Policy("p2wsh-item-size"));
                }
            }
            execute_witness_script(stack, &script, flags, SigVersion::WitnessV0, checker, None, None, 0, trace)
        } else if program.len() == 20 {
            if stack.len() != 2 {
                return Err(ScriptError::WitnessProgramMismatch);
            }
            let mut script = vec![DUP, HASH160, 20];
            script.extend_from_slice(program);
            script.push(EQUALVERIFY);
            script.push(CHECKSIG);
            execute_witness_script(stack, &script, flags, SigVersion::WitnessV0, checker, None, None, 0, trace)
        } else {
            Err(ScriptError::WitnessProgramWrongLength)
        }
    } else if version == 1 && program.len() == 32 && !is_p2sh {
        if !flags.taproot {
            return Ok(());
        }
        if stack.is_empty() {
            return Err(ScriptError::WitnessProgramWitnessEmpty);
        }
        let wit_size = ser_witness_size(witness);
        let mut annex: Option<Vec<u8>> = None;
        if stack.len() >= 2 && !stack.last().unwrap().is_empty() && stack.last().unwrap()[0] == 0x50 {
            annex = stack.pop();
            if flags.policy_limits {
                return Err(ScriptError::Policy("annex"));
            }
        }
        if stack.len() == 1 {
            // key path
            let sig = &stack[0];
            let ok = checker.check_schnorr(sig, program, SigVersion::Taproot, None, annex.as_deref())?;
            trace.sig_checks.push((program.to_vec(), sig.clone(), ok));
            if !ok {
                return Err(ScriptError::SchnorrSig);
            }
            Ok(())
        } else {
            let control = stack.pop().unwrap();
            let script = stack.pop().unwrap();
            if control.len() < 33 || control.len() > 33 + 32 * 128 || (control.len() - 33) % 32 != 0 {
                return Err(ScriptError::TaprootWrongControlSize);
            }
            let leaf_ver = control[0] & 0xfe;
            let leaf_hash = crate::bip341::tapleaf_hash(leaf_ver, &script);
            if !crate::bip341::verify_commitment(&control, program, &leaf_hash) {
                return Err(ScriptError::TaprootCommitment);
            }
            if leaf_ver == 0xc0 {
                // tapscript
                if flags.policy_limits && stack.iter().any(|e| e.len() > 80) {
                    return Err(ScriptError::Policy("tapscript-item-size"));
                }
                let weight_left = wit_size as i64 + VALIDATION_WEIGHT_OFFSET;
                let lh = TapLeafHash::from_byte_array(leaf_hash);
                return execute_witness_script(
                    stack,
                    &script,
                    flags,
                    SigVersion::Tapscript,
                    checker,
                    Some(lh),
                    annex,
                    weight_left,
                    trace,
                );
            }
            if flags.discourage_upgradable {
                return Err(ScriptError::DiscourageUpgradable);
            }
            Ok(())
        }
    } else {
        if flags.discourage_upgradable {
            return Err(ScriptError::DiscourageUpgradable);
        }
        Ok(())
    }
}

#[allow(clippy::too_many_arguments)]
fn execute_witness_script(
    mut stack: Vec<Vec<u8>>,
    script: &[u8],
    flags: &Flags,
    sv: SigVersion,
    checker: &dyn SigChecker,
    leaf: Option<TapLeafHash>,
    annex: Option<Vec<u8>>,
    weight_left: i64,
    trace: &mut Trace,
) -> Result<(), ScriptError> {
    if sv == SigVersion::Tapscript {
        // OP_SUCCESSx
        match parse_script(script) {
            Ok(v) => {
                if v.iter().any(|i| is_op_success(i.opcode)) {
                    if flags.discourage_upgradable {
                        return Err(ScriptError::DiscourageUpgradable);
                    }
                    return Ok(());
                }
            }
            Err(()) => {
                // Core: scan until parse failure; OP_SUCCESS before the failure wins
                let v = parse_prefix(script);
                if v.iter().any(|i| is_op_success(i.opcode)) {
                    if flags.discourage_upgradable {
                        return Err(ScriptError::DiscourageUpgradable);
                    }
                    return Ok(());
                }
                return Err(ScriptError::BadOpcode(0xff));
            }
        }
        if stack.len() > MAX_STACK {
            return Err(ScriptError::StackSize);
        }
    }
    if stack.iter().any(|e| e.len() > MAX_ELEMENT_SIZE) {
        return Err(ScriptError::PushSize);
    }
    let mut exec = ExecData { leaf, annex, validation_weight_left: weight_left };
    let save_consumed = trace.consumed_initial;
    trace.consumed_initial = 0;
    let r = eval_script(&mut stack, script, flags, checker, sv, &mut exec, trace);
    let _ = save_consumed;
    r?;
    // witness scripts: implicit cleanstack (consensus)
    if stack.len() != 1 {
        return Err(ScriptError::CleanStack);
    }
    if !cast_to_bool(&stack[0]) {
        return Err(ScriptError::EvalFalse);
    }
    Ok(())
}

// ---------------------------------------------------------------------------------------
// Signature checkers

/// Real checker: actual transaction digests + libsecp256k1.
pub struct RealChecker<'a> {
    pub tx: &'a Transaction,
    pub input: usize,
    pub prevouts: &'a [TxOut],
    pub secp: &'a Secp256k1<VerifyOnly>,
}

impl<'a> RealChecker<'a> {
    fn amount(&self) -> Amount { self.prevouts[self.input].value }
}

impl<'a> SigChecker for RealChecker<'a> {
    fn check_ecdsa(&self, sig: &[u8], pubkey: &[u8], script_code: &[u8], sv: SigVersion) -> bool {
        if sig.is_empty() {
            return false;
        }
        let ht = sig[sig.len() - 1];
        let der = &sig[..sig.len() - 1];
        let pk = match secp256k1::PublicKey::from_slice(pubkey) {
            Ok(p) => p,
            Err(_) => return false,
        };
        let mut s = match secp256k1::ecdsa::Signature::from_der_lax(der) {
            Ok(s) => s,
            Err(_) => return false,
        };
        s.normalize_s();
        let cache = SighashCache::new(self.tx);
        let script = Script::from_bytes(script_code);
        let msg: [u8; 32] = match sv {
            SigVersion::Base => match cache.legacy_signature_hash(self.input, script, ht as u32) {
                Ok(h) => h.to_byte_array(),
                Err(_) => return false,
            },
            SigVersion::WitnessV0 => {
                // Only standard hash types are modelled; anything else is "invalid signature"
                // (stricter than consensus, documented).
                let t = match EcdsaSighashType::from_standard(ht as u32) {
                    Ok(t) => t,
                    Err(_) => return false,
                };
                let mut cache = cache;
                match cache.p2wsh_signature_hash(self.input, script, self.amount(), t) {
                    Ok(h) => h.to_byte_array(),
                    Err(_) => return false,
                }
            }
            _ => return false,
        };
        let m = Message::from_digest(msg);
        self.secp.verify_ecdsa(&m, &s, &pk).is_ok()
    }

    fn check_schnorr(
        &self,
        sig: &[u8],
        pubkey32: &[u8],
        sv: SigVersion,
        leaf: Option<TapLeafHash>,
        annex: Option<&[u8]>,
    ) -> Result<bool, ScriptError> {
        if sig.len() != 64 && sig.len() != 65 {
            return Err(ScriptError::SchnorrSigSize);
        }
        let ht = if sig.len() == 65 {
            if sig[64] == 0 {
                return Err(ScriptError::SchnorrSigHashType);
            }
            match TapSighashType::from_consensus_u8(sig[64]) {
                Ok(t) => t,
                Err(_) => return Err(ScriptError::SchnorrSigHashType),
            }
        } else {
            TapSighashType::Default
        };
        let pk = match secp256k1::XOnlyPublicKey::from_slice(pubkey32) {
            Ok(p) => p,
            Err(_) => return Ok(false),
        };
        let s = match secp256k1::schnorr::Signature::from_slice(&sig[..64]) {
            Ok(s) => s,
            Err(_) => return Ok(false),
        };
        let mut cache = SighashCache::new(self.tx);
        let prevouts = Prevouts::All(self.prevouts);
        let annex = match annex {
            Some(a) => Some(bitcoin::sighash::Annex::new(a).map_err(|_| ScriptError::Other("annex"))?),
            None => None,
        };
        let lh = match sv {
            SigVersion::Tapscript => Some((leaf.expect("leaf"), 0xffff_ffffu32)),
            _ => None,
        };
        let h = match cache.taproot_signature_hash(self.input, &prevouts, annex, lh, ht) {
            Ok(h) => h,
            Err(_) => return Err(ScriptError::SchnorrSigHashType), // e.g. SINGLE without output
        };
        let m = Message::from_digest(h.to_byte_array());
        Ok(self.secp.verify_schnorr(&s, &m, &pk).is_ok())
    }

    fn check_locktime(&self, n: i64) -> bool { check_locktime(self.tx, self.input, n) }
    fn check_sequence(&self, n: i64) -> bool { check_sequence(self.tx, self.input, n) }
}

pub fn check_locktime(tx: &Transaction, input: usize, n: i64) -> bool {
    check_locktime_raw(tx.lock_time.to_consensus_u32(), tx.input[input].sequence.0, n)
}
pub fn check_locktime_raw(tx_lock: u32, tx_seq: u32, n: i64) -> bool {
    const THRESHOLD: i64 = 500_000_000;
    let tx_lock = tx_lock as i64;
    if !((tx_lock < THRESHOLD && n < THRESHOLD) || (tx_lock >= THRESHOLD && n >= THRESHOLD)) {
        return false;
    }
    if n > tx_lock {
        return false;
    }
    if tx_seq == 0xffff_ffff {
        return false;
    }
    true
}
pub fn check_sequence(tx: &Transaction, input: usize, n: i64) -> bool {
    check_sequence_raw(tx.version.0, tx.input[input].sequence.0, n)
}
pub fn check_sequence_raw(tx_version: i32, tx_seq: u32, n: i64) -> bool {
    // n has bit 31 clear (checked by caller)
    let tx_seq = tx_seq as i64;
    if (tx_version as u32) < 2 {
        return false;
    }
    if tx_seq & (1 << 31) != 0 {
        return false;
    }
    const TYPE_FLAG: i64 = 1 << 22;
    const MASK: i64 = TYPE_FLAG | 0xffff;
    let tx_m = tx_seq & MASK;
    let n_m = n & MASK;
    if !((tx_m < TYPE_FLAG && n_m < TYPE_FLAG) || (tx_m >= TYPE_FLAG && n_m >= TYPE_FLAG)) {
        return false;
    }
    if n_m > tx_m {
        return false;
    }
    true
}

/// Symbolic checker: a signature is valid iff it is in the table.
pub struct SymbolicChecker {
    /// (pubkey bytes as they appear in script, normalised sig bytes incl. hashtype)
    pub ecdsa: HashSet<(Vec<u8>, Vec<u8>)>,
    /// (xonly key, sig bytes, Some(leaf) for tapscript / None for key path)
    pub schnorr: HashSet<(Vec<u8>, Vec<u8>, Option<[u8; 32]>)>,
    pub lock_time: u32,
    pub sequence: u32,
    pub tx_version: i32,
}

pub fn normalise_ecdsa(sig: &[u8]) -> Option<Vec<u8>> {
    if sig.is_empty() {
        return None;
    }
    let ht = sig[sig.len() - 1];
    let mut s = secp256k1::ecdsa::Signature::from_der_lax(&sig[..sig.len() - 1]).ok()?;
    s.normalize_s();
    let mut v = s.serialize_der().to_vec();
    v.push(ht);
    Some(v)
}

impl SigChecker for SymbolicChecker {
    fn check_ecdsa(&self, sig: &[u8], pubkey: &[u8], _sc: &[u8], _sv: SigVersion) -> bool {
        match normalise_ecdsa(sig) {
            Some(n) => self.ecdsa.contains(&(pubkey.to_vec(), n)),
            None => false,
        }
    }
    fn check_schnorr(
        &self,
        sig: &[u8],
        pubkey32: &[u8],
        _sv: SigVersion,
        leaf: Option<TapLeafHash>,
        _annex: Option<&[u8]>,
    ) -> Result<bool, ScriptError> {
        if sig.len() != 64 && sig.len() != 65 {
            return Err(ScriptError::SchnorrSigSize);
        }
        if sig.len() == 65 && (sig[64] == 0 || TapSighashType::from_consensus_u8(sig[64]).is_err()) {
            return Err(ScriptError::SchnorrSigHashType);
        }
        Ok(self.schnorr.contains(&(pubkey32.to_vec(), sig.to_vec(), leaf.map(|l| l.to_byte_array()))))
    }
    fn check_locktime(&self, n: i64) -> bool { check_locktime_raw(self.lock_time, self.sequence, n) }
    fn check_sequence(&self, n: i64) -> bool { check_sequence_raw(self.tx_version, self.sequence, n) }
}

/// Convenience: verify input `i` of `tx` spending `prevouts[i]`.
pub fn verify_input(
    tx: &Transaction,
    i: usize,
    prevouts: &[TxOut],
    flags: &Flags,
    secp: &Secp256k1<VerifyOnly>,
) -> Result<Trace, ScriptError> {
    let checker = RealChecker { tx, input: i, prevouts, secp };
    let wit: Vec<Vec<u8>> = tx.input[i].witness.iter().map(|e| e.to_vec()).collect();
    verify_script(
        tx.input[i].script_sig.as_bytes(),
        prevouts[i].script_pubkey.as_bytes(),
        &wit,
        flags,
        &checker,
    )
}
