//! Own BIP32 public derivation (CKDpub) + xpub base58 decoding, written from the BIP.

use bitcoin::hashes::{hmac, sha512, Hash, HashEngine};
use secp256k1::{PublicKey, Scalar, Secp256k1};

#[derive(Clone, Debug, PartialEq, Eq)]
pub struct XPub {
    pub version: [u8; 4],
    pub depth: u8,
    pub parent_fp: [u8; 4],
    pub child: u32,
    pub chain: [u8; 32],
    pub key: PublicKey,
}

impl XPub {
    pub fn decode(s: &str) -> Option<XPub> {
        let data = bitcoin::base58::decode_check(s).ok()?;
        if data.len() != 78 {
            return None;
        }
        let mut version = [0u8; 4];
        version.copy_from_slice(&data[0..4]);
        let depth = data[4];
        let mut parent_fp = [0u8; 4];
        parent_fp.copy_from_slice(&data[5..9]);
        let child = u32::from_be_bytes([data[9], data[10], data[11], data[12]]);
        let mut chain = [0u8; 32];
        chain.copy_from_slice(&data[13..45]);
        let key = PublicKey::from_slice(&data[45..78]).ok()?;
        Some(XPub { version, depth, parent_fp, child, chain, key })
    }

    pub fn fingerprint(&self) -> [u8; 4] {
        let h = bitcoin::hashes::hash160::Hash::hash(&self.key.serialize()).to_byte_array();
        [h[0], h[1], h[2], h[3]]
    }

    /// CKDpub; `None` for hardened index or (negligible) invalid child.
    pub fn ckd_pub(&self, i: u32) -> Option<XPub> {
        if i >= 0x8000_0000 {
            return None;
        }
        let mut eng = hmac::HmacEngine::<sha512::Hash>::new(&self.chain);
        eng.input(&self.key.serialize());
        eng.input(&i.to_be_bytes());
        let out = hmac::Hmac::<sha512::Hash>::from_engine(eng).to_byte_array();
        let mut il = [0u8; 32];
        il.copy_from_slice(&out[..32]);
        let mut chain = [0u8; 32];
        chain.copy_from_slice(&out[32..]);
        let secp = Secp256k1::verification_only();
        let tweak = Scalar::from_be_bytes(il).ok()?;
        let key = self.key.add_exp_tweak(&secp, &tweak).ok()?;
        Some(XPub {
            version: self.version,
            depth: self.depth.wrapping_add(1),
            parent_fp: self.fingerprint(),
            child: i,
            chain,
            key,
        })
    }

    pub fn derive(&self, path: &[u32]) -> Option<XPub> {
        let mut x = self.clone();
        for i in path {
            x = x.ckd_pub(*i)?;
        }
        Some(x)
    }
}
