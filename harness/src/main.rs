use mvh::runner::{run_check, RunCfg, Tier};

fn main() {
    let args: Vec<String> = std::env::args().collect();
    if args.len() < 2 {
        eprintln!("usage: check <ID> [--tier quick|thorough] [--seed N] [--replay FILE] [--threads N]");
        std::process::exit(2);
    }
    let id = args[1].clone();
    let mut tier = match std::env::var("VERIF_TIER").ok().as_deref() {
        Some("thorough") => Tier::Thorough,
        _ => Tier::Quick,
    };
    let mut seed: u64 = std::env::var("VERIF_SEED").ok().and_then(|s| s.parse().ok()).unwrap_or(1);
    let mut replay = None;
    let mut from_fuzz: Option<String> = None;
    let mut threads = std::thread::available_parallelism().map(|n| n.get()).unwrap_or(8).min(16);
    let mut i = 2;
    while i < args.len() {
        match args[i].as_str() {
            "--tier" => {
                i += 1;
                tier = if args[i] == "thorough" { Tier::Thorough } else { Tier::Quick };
            }
            "--seed" => {
                i += 1;
                seed = args[i].parse().unwrap_or(1);
            }
            "--replay" => {
                i += 1;
                replay = Some(args[i].clone());
            }
            "--from-fuzz" => {
                i += 1;
                from_fuzz = Some(args[i].clone());
            }
            "--threads" => {
                i += 1;
                threads = args[i].parse().unwrap_or(threads);
            }
            _ => {}
        }
        i += 1;
    }
    let verif_dir = std::env::var("MVH_VERIF_DIR").unwrap_or_else(|_| "/verif".to_string());
    let cfg = RunCfg { tier, seed, threads, verif_dir, replay };
    if id == "selftest" {
        std::process::exit(mvh::selftest::run());
    }
    if id == "corpus" {
        std::process::exit(mvh::corpus::write(&cfg.verif_dir));
    }
    for c in mvh::checks::all() {
        if c.id() == id {
            if let Some(f) = &from_fuzz {
                std::process::exit(mvh::runner::from_fuzz_input(c.as_ref(), &cfg, f));
            }
            std::process::exit(run_check(c.as_ref(), &cfg));
        }
    }
    eprintln!("unknown check {}", id);
    std::process::exit(2);
}
