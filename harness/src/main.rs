fn main() { mvh::hello(); }
