//! Own BIP340/341 helpers (tagged hashes, leaf/branch hashes, tweak), written from the BIP.
//! EC arithmetic itself is libsecp256k1 (trusted base).

use bitcoin::hashes::{sha256, Hash, HashEngine};
use secp256k1::{Parity, Scalar, Secp256k1, XOnlyPublicKey};

pub fn tagged_hash(tag: &str, parts: &[&[u8]]) -> [u8; 32] {
    let th = sha256::Hash::hash(tag.as_bytes()).to_byte_array();
    let mut e = sha256::Hash::engine();
    e.input(&th);
    e.input(&th);
    for p in parts {
        e.input(p);
    }
    sha256::Hash::from_engine(e).to_byte_array()
}

pub fn compact_size(n: usize) -> Vec<u8> {
    if n < 0xfd {
        vec![n as u8]
    } else if n <= 0xffff {
        let mut v = vec![0xfd];
        v.extend_from_slice(&(n as u16).to_le_bytes());
        v
    } else if n <= 0xffff_ffff {
        let mut v = vec![0xfe];
        v.extend_from_slice(&(n as u32).to_le_bytes());
        v
    } else {
        let mut v = vec![0xff];
        v.extend_from_slice(&(n as u64).to_le_bytes());
        v
    }
}

pub fn tapleaf_hash(leaf_ver: u8, script: &[u8]) -> [u8; 32] {
    tagged_hash("TapLeaf", &[&[leaf_ver], &compact_size(script.len()), script])
}

pub fn tapbranch_hash(a: &[u8; 32], b: &[u8; 32]) -> [u8; 32] {
    if a[..] <= b[..] {
        tagged_hash("TapBranch", &[a, b])
    } else {
        tagged_hash("TapBranch", &[b, a])
    }
}

pub fn taptweak_hash(internal: &[u8; 32], root: Option<&[u8; 32]>) -> [u8; 32] {
    match root {
        Some(r) => tagged_hash("TapTweak", &[internal, r]),
        None => tagged_hash("TapTweak", &[internal]),
    }
}

/// Output key (x-only bytes, parity bit) for internal key and optional merkle root.
pub fn output_key(internal: &[u8; 32], root: Option<&[u8; 32]>) -> Option<([u8; 32], u8)> {
    let secp = Secp256k1::verification_only();
    let p = XOnlyPublicKey::from_slice(internal).ok()?;
    let t = taptweak_hash(internal, root);
    let sc = Scalar::from_be_bytes(t).ok()?;
    let (q, par) = p.add_tweak(&secp, &sc).ok()?;
    Some((q.serialize(), if par == Parity::Odd { 1 } else { 0 }))
}

/// BIP341 script-path commitment check.
pub fn verify_commitment(control: &[u8], program: &[u8], leaf_hash: &[u8; 32]) -> bool {
    if control.len() < 33 || (control.len() - 33) % 32 != 0 {
        return false;
    }
    let mut p = [0u8; 32];
    p.copy_from_slice(&control[1..33]);
    let mut k = *leaf_hash;
    for ch in control[33..].chunks(32) {
        let mut e = [0u8; 32];
        e.copy_from_slice(ch);
        k = tapbranch_hash(&k, &e);
    }
    match output_key(&p, Some(&k)) {
        Some((q, par)) => q[..] == program[..] && par == (control[0] & 1),
        None => false,
    }
}

/// Model of a script tree.
#[derive(Clone, Debug, PartialEq, Eq)]
pub enum Tree {
    Leaf(Vec<u8>),
    Branch(Box<Tree>, Box<Tree>),
}

impl Tree {
    pub fn root(&self) -> [u8; 32] {
        match self {
            Tree::Leaf(s) => tapleaf_hash(0xc0, s),
            Tree::Branch(a, b) => tapbranch_hash(&a.root(), &b.root()),
        }
    }
    /// DFS list of (depth, script, merkle path from leaf upwards)
    pub fn leaves(&self) -> Vec<(usize, Vec<u8>, Vec<[u8; 32]>)> {
        let mut out = Vec::new();
        self.walk(0, &mut Vec::new(), &mut out);
        out
    }
    fn walk(&self, depth: usize, path_down: &mut Vec<[u8; 32]>, out: &mut Vec<(usize, Vec<u8>, Vec<[u8; 32]>)>) {
        match self {
            Tree::Leaf(s) => {
                let mut p = path_down.clone();
                p.reverse();
                out.push((depth, s.clone(), p));
            }
            Tree::Branch(a, b) => {
                path_down.push(b.root());
                a.walk(depth + 1, path_down, out);
                path_down.pop();
                path_down.push(a.root());
                b.walk(depth + 1, path_down, out);
                path_down.pop();
            }
        }
    }
    pub fn n_leaves(&self) -> usize {
        match self {
            Tree::Leaf(_) => 1,
            Tree::Branch(a, b) => a.n_leaves() + b.n_leaves(),
        }
    }
    pub fn max_depth(&self) -> usize {
        match self {
            Tree::Leaf(_) => 0,
            Tree::Branch(a, b) => 1 + a.max_depth().max(b.max_depth()),
        }
    }
}
