//! Mirror policies and an own evaluator (BIP65/68/112 semantics for locks, membership for keys
//! and hashes, counting for thresholds).

use crate::keys;
use crate::refscript::{check_locktime_raw, check_sequence_raw};
use crate::world::World;
use miniscript::policy::{Concrete, Semantic};
use miniscript::MiniscriptKey;

#[derive(Clone, Debug, PartialEq, Eq, Hash, PartialOrd, Ord)]
pub enum MPol {
    Unsat,
    Trivial,
    Key(String),
    After(u32),
    Older(u32),
    Sha256(String),
    Hash256(String),
    Ripemd160(String),
    Hash160(String),
    And(Vec<MPol>),
    /// (weight, sub)
    Or(Vec<(usize, MPol)>),
    Thresh(usize, Vec<MPol>),
}

impl MPol {
    pub fn from_semantic<Pk: MiniscriptKey>(p: &Semantic<Pk>) -> MPol {
        match p {
            Semantic::Unsatisfiable => MPol::Unsat,
            Semantic::Trivial => MPol::Trivial,
            Semantic::Key(k) => MPol::Key(k.to_string()),
            Semantic::After(t) => MPol::After(t.to_consensus_u32()),
            Semantic::Older(t) => MPol::Older(t.to_consensus_u32()),
            Semantic::Sha256(h) => MPol::Sha256(h.to_string()),
            Semantic::Hash256(h) => MPol::Hash256(h.to_string()),
            Semantic::Ripemd160(h) => MPol::Ripemd160(h.to_string()),
            Semantic::Hash160(h) => MPol::Hash160(h.to_string()),
            Semantic::Thresh(t) => MPol::Thresh(t.k(), t.iter().map(|x| MPol::from_semantic(x)).collect()),
        }
    }
    pub fn from_concrete<Pk: MiniscriptKey>(p: &Concrete<Pk>) -> MPol {
        match p {
            Concrete::Unsatisfiable => MPol::Unsat,
            Concrete::Trivial => MPol::Trivial,
            Concrete::Key(k) => MPol::Key(k.to_string()),
            Concrete::After(t) => MPol::After(t.to_consensus_u32()),
            Concrete::Older(t) => MPol::Older(t.to_consensus_u32()),
            Concrete::Sha256(h) => MPol::Sha256(h.to_string()),
            Concrete::Hash256(h) => MPol::Hash256(h.to_string()),
            Concrete::Ripemd160(h) => MPol::Ripemd160(h.to_string()),
            Concrete::Hash160(h) => MPol::Hash160(h.to_string()),
            Concrete::And(v) => MPol::And(v.iter().map(|x| MPol::from_concrete(x)).collect()),
            Concrete::Or(v) => MPol::Or(v.iter().map(|(w, x)| (*w, MPol::from_concrete(x))).collect()),
            Concrete::Thresh(t) => MPol::Thresh(t.k(), t.iter().map(|x| MPol::from_concrete(x)).collect()),
        }
    }

    pub fn children(&self) -> Vec<&MPol> {
        match self {
            MPol::And(v) | MPol::Thresh(_, v) => v.iter().collect(),
            MPol::Or(v) => v.iter().map(|(_, x)| x).collect(),
            _ => vec![],
        }
    }
    pub fn walk<'a>(&'a self, f: &mut dyn FnMut(&'a MPol)) {
        f(self);
        for c in self.children() {
            c.walk(f);
        }
    }
    pub fn n_nodes(&self) -> usize { 1 + self.children().iter().map(|c| c.n_nodes()).sum::<usize>() }

    /// Concrete policy text (`and`, `or` with `w@`, `thresh`).
    pub fn print(&self) -> String {
        match self {
            MPol::Unsat => "UNSATISFIABLE".into(),
            MPol::Trivial => "TRIVIAL".into(),
            MPol::Key(k) => format!("pk({})", k),
            MPol::After(t) => format!("after({})", t),
            MPol::Older(t) => format!("older({})", t),
            MPol::Sha256(h) => format!("sha256({})", h),
            MPol::Hash256(h) => format!("hash256({})", h),
            MPol::Ripemd160(h) => format!("ripemd160({})", h),
            MPol::Hash160(h) => format!("hash160({})", h),
            MPol::And(v) => format!("and({})", v.iter().map(|x| x.print()).collect::<Vec<_>>().join(",")),
            MPol::Or(v) => format!(
                "or({})",
                v.iter().map(|(w, x)| if *w == 1 { x.print() } else { format!("{}@{}", w, x.print()) }).collect::<Vec<_>>().join(",")
            ),
            MPol::Thresh(k, v) => format!("thresh({},{})", k, v.iter().map(|x| x.print()).collect::<Vec<_>>().join(",")),
        }
    }
    /// Semantic policy text (`and`/`or`/`thresh`, no weights).
    pub fn print_semantic(&self) -> String {
        match self {
            MPol::And(v) => format!("and({})", v.iter().map(|x| x.print_semantic()).collect::<Vec<_>>().join(",")),
            MPol::Or(v) => format!("or({})", v.iter().map(|(_, x)| x.print_semantic()).collect::<Vec<_>>().join(",")),
            MPol::Thresh(k, v) => format!("thresh({},{})", k, v.iter().map(|x| x.print_semantic()).collect::<Vec<_>>().join(",")),
            other => other.print(),
        }
    }
}

/// The atoms a truth assignment ranges over.
#[derive(Clone, Debug, PartialEq, Eq, Hash, PartialOrd, Ord)]
pub enum Atom {
    Key(String),
    Hash(String),
    After(u32),
    Older(u32),
}

pub fn atoms(p: &MPol) -> Vec<Atom> {
    let mut v = Vec::new();
    p.walk(&mut |n| {
        let a = match n {
            MPol::Key(k) => Some(Atom::Key(k.clone())),
            MPol::Sha256(h) => Some(Atom::Hash(format!("sha256:{}", h))),
            MPol::Hash256(h) => Some(Atom::Hash(format!("hash256:{}", h))),
            MPol::Ripemd160(h) => Some(Atom::Hash(format!("ripemd160:{}", h))),
            MPol::Hash160(h) => Some(Atom::Hash(format!("hash160:{}", h))),
            MPol::After(t) => Some(Atom::After(*t)),
            MPol::Older(t) => Some(Atom::Older(*t)),
            _ => None,
        };
        if let Some(a) = a {
            if !v.contains(&a) {
                v.push(a);
            }
        }
    });
    v
}

/// Evaluate under an abstract assignment of atoms.
pub fn eval_assign(p: &MPol, truth: &dyn Fn(&Atom) -> bool) -> bool {
    match p {
        MPol::Unsat => false,
        MPol::Trivial => true,
        MPol::Key(k) => truth(&Atom::Key(k.clone())),
        MPol::After(t) => truth(&Atom::After(*t)),
        MPol::Older(t) => truth(&Atom::Older(*t)),
        MPol::Sha256(h) => truth(&Atom::Hash(format!("sha256:{}", h))),
        MPol::Hash256(h) => truth(&Atom::Hash(format!("hash256:{}", h))),
        MPol::Ripemd160(h) => truth(&Atom::Hash(format!("ripemd160:{}", h))),
        MPol::Hash160(h) => truth(&Atom::Hash(format!("hash160:{}", h))),
        MPol::And(v) => v.iter().all(|x| eval_assign(x, truth)),
        MPol::Or(v) => v.iter().any(|(_, x)| eval_assign(x, truth)),
        MPol::Thresh(k, v) => v.iter().filter(|x| eval_assign(x, truth)).count() >= *k,
    }
}

/// Truth of an atom in a concrete world.
pub fn atom_in_world(a: &Atom, w: &World) -> bool {
    match a {
        Atom::Key(k) => match keys::resolve(k) {
            Ok(kb) => w.has_key_bytes(&kb),
            Err(_) => false,
        },
        Atom::Hash(h) => {
            let hex = h.split(':').nth(1).unwrap_or("");
            match keys::unhex(hex) {
                Ok(d) => match keys::preimage_for_digest(&d) {
                    Some(p) => w.preimages.contains(&p),
                    None => false,
                },
                Err(_) => false,
            }
        }
        Atom::After(n) => check_locktime_raw(w.lock_time, w.sequence, *n as i64),
        Atom::Older(n) => (*n & (1 << 31)) != 0 || check_sequence_raw(w.tx_version, w.sequence, *n as i64),
    }
}

pub fn eval_world(p: &MPol, w: &World) -> bool { eval_assign(p, &|a| atom_in_world(a, w)) }
