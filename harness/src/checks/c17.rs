//! C17 — spending plans are faithful to the satisfier and report exact time locks.

use crate::checks::c01::pick_kind;
use crate::gen::{self, Cfg, KeyStyle};
use crate::glue::{self, DK};
use crate::keys;
use crate::mdesc::MDesc;
use crate::mirror::encode::key_bytes;
use crate::refscript::{verify_input, Flags};
use crate::runner::{fail, guard, Check, Failure, Report, Src, Tier};
use crate::world::{make_tx, sign_real_with, World, WorldSat};
use bitcoin::bip32::DerivationPath;
use bitcoin::hashes::Hash;
use bitcoin::taproot::TapLeafHash;
use bitcoin::{absolute, relative, Witness};
use miniscript::plan::{Assets, CanSign, TaprootAvailableLeaves, TaprootCanSign};
use miniscript::{MiniscriptKey, Preimage32, Satisfier, ToPublicKey};
use secp256k1::Secp256k1;
use std::collections::BTreeSet;
use std::str::FromStr;

pub struct C17;

/// What the caller holds, in the harness' own terms.
#[derive(Clone, Debug)]
struct Holdings {
    /// (key text, capability)
    keys: Vec<(String, CanSign)>,
    preimages: BTreeSet<[u8; 32]>,
    abs_max: Option<u32>,
    rel_max: Option<u32>,
}

fn abs_met(lock: u32, max: u32) -> bool { (lock >= 500_000_000) == (max >= 500_000_000) && lock <= max }
fn rel_met(lock: u32, max: u32) -> bool { (lock & 0x40_0000) == (max & 0x40_0000) && (lock & 0xffff) <= (max & 0xffff) }

/// Satisfier with exactly the holdings' capabilities: signatures from `sigs` only for keys the
/// holdings can sign with (per flavour / leaf), lock queries answered from the maxima.
struct HoldSat<'a> {
    h: &'a Holdings,
    sigs: &'a WorldSat,
    ctx: crate::mirror::spec::Ctx,
}

impl<'a> HoldSat<'a> {
    /// Capabilities held for the key *as written in the descriptor* (the same point written
    /// as a compressed and as an x-only key are two different key sources).
    fn cap(&self, text: &str) -> Vec<&CanSign> {
        let _ = self.ctx;
        self.h.keys.iter().filter(|(k, _)| k.replace('h', "'") == text.replace('h', "'")).map(|(_, c)| c).collect()
    }
}

impl<'a, Pk: MiniscriptKey + ToPublicKey> Satisfier<Pk> for HoldSat<'a> {
    fn lookup_ecdsa_sig(&self, pk: &Pk) -> Option<bitcoin::ecdsa::Signature> {
        let kb = pk.to_public_key().to_bytes();
        if self.cap(&pk.to_string()).iter().any(|c| c.ecdsa) {
            self.sigs.ecdsa.get(&kb).copied()
        } else {
            None
        }
    }
    fn lookup_tap_key_spend_sig(&self, pk: &Pk) -> Option<bitcoin::taproot::Signature> {
        if self.cap(&pk.to_string()).iter().any(|c| c.taproot.key_spend) {
            self.sigs.tap_key
        } else {
            None
        }
    }
    fn lookup_tap_leaf_script_sig(&self, pk: &Pk, lh: &TapLeafHash) -> Option<bitcoin::taproot::Signature> {
        let kb = pk.to_x_only_pubkey().serialize();
        let ok = self.cap(&pk.to_string()).iter().any(|c| match &c.taproot.script_spend {
            TaprootAvailableLeaves::None => false,
            TaprootAvailableLeaves::Any => true,
            TaprootAvailableLeaves::Single(l) => l == lh,
            TaprootAvailableLeaves::Many(v) => v.contains(lh),
        });
        if ok {
            self.sigs.tap_leaf.get(&(kb, lh.to_byte_array())).copied()
        } else {
            None
        }
    }
    fn lookup_sha256(&self, h: &Pk::Sha256) -> Option<Preimage32> { self.pre(&Pk::to_sha256(h).to_byte_array()) }
    fn lookup_hash256(&self, h: &Pk::Hash256) -> Option<Preimage32> { self.pre(&Pk::to_hash256(h).to_byte_array()) }
    fn lookup_ripemd160(&self, h: &Pk::Ripemd160) -> Option<Preimage32> { self.pre(&Pk::to_ripemd160(h).to_byte_array()) }
    fn lookup_hash160(&self, h: &Pk::Hash160) -> Option<Preimage32> { self.pre(&Pk::to_hash160(h).to_byte_array()) }
    fn check_older(&self, n: relative::LockTime) -> bool { self.h.rel_max.map(|m| rel_met(n.to_consensus_u32(), m)).unwrap_or(false) }
    fn check_after(&self, n: absolute::LockTime) -> bool { self.h.abs_max.map(|m| abs_met(n.to_consensus_u32(), m)).unwrap_or(false) }
}
impl<'a> HoldSat<'a> {
    fn pre(&self, d: &[u8]) -> Option<Preimage32> {
        let p = keys::preimage_for_digest(d)?;
        if self.h.preimages.contains(&p) {
            Some(p)
        } else {
            None
        }
    }
}

fn to_assets(h: &Holdings, parent_paths: &[bool]) -> Result<Assets, Failure> {
    let mut a = Assets::new();
    for (i, (k, can)) in h.keys.iter().enumerate() {
        let dk = DK::from_str(k).map_err(|e| Failure { sig: "key".into(), msg: e.to_string() })?;
        let fp = dk.master_fingerprint();
        let full: DerivationPath = dk.full_derivation_path().ok_or(Failure { sig: "key".into(), msg: "multipath".into() })?;
        let path: DerivationPath = if parent_paths.get(i).copied().unwrap_or(false) && !full.is_empty() {
            let v: Vec<bitcoin::bip32::ChildNumber> = full.into_iter().cloned().collect();
            DerivationPath::from(v[..v.len() - 1].to_vec())
        } else {
            full
        };
        a.keys.insert(((fp, path), can.clone()));
    }
    for p in &h.preimages {
        use bitcoin::hashes::{hash160, ripemd160, sha256, sha256d};
        a.sha256_preimages.insert(sha256::Hash::hash(p));
        a.hash256_preimages.insert(miniscript::hash256::Hash::from_byte_array(sha256d::Hash::hash(p).to_byte_array()));
        a.ripemd160_preimages.insert(ripemd160::Hash::hash(p));
        a.hash160_preimages.insert(hash160::Hash::hash(p));
    }
    a.absolute_timelock = h.abs_max.map(absolute::LockTime::from_consensus);
    a.relative_timelock = match h.rel_max {
        Some(m) => Some(if m & 0x40_0000 != 0 { relative::LockTime::from_512_second_intervals((m & 0xffff) as u16) } else { relative::LockTime::from_height((m & 0xffff) as u16) }),
        None => None,
    };
    Ok(a)
}

impl Check for C17 {
    fn id(&self) -> &'static str { "C17" }
    fn rule(&self) -> String {
        "case = definite descriptor (hex keys with/without origin, xpub-derived keys) x holdings: per key a CanSign (ecdsa on/off, taproot key_spend on/off, script_spend None/Any/Single/Many, sighash_default on/off) offered as an exact key source or as the parent path (plus decoy sources two or more levels above keys that are NOT held: they must give no capability), a subset of preimages, optional maximum absolute / relative lock in either unit x {into_plan, into_plan_mall}. Oracles: (1) a plan exists iff get_satisfaction(_mall) succeeds with a satisfier that has exactly the holdings' capabilities (locks answered from the maxima); (2) in a transaction whose nLockTime/nSequence are the plan's reported locks (0 / non-final when none), with real signatures, Plan::satisfy validates in the reference interpreter under standardness flags and equals get_satisfaction byte for byte; (2b) completing the plan with a satisfier that lacks one of the signatures it uses returns an error or something that still validates; (3) every reported lock is necessary: with lock-1, with the other unit, and with no lock (signatures re-made) the completed plan fails; (4) announced witness/scriptSig sizes are not smaller than the real ones. Non-trivial = plans that use a time lock, or holdings that offer more than needed, or leaf-restricted taproot keys; distinct by (descriptor, holdings, mode).".into()
    }
    fn assumptions(&self) -> Vec<String> { vec!["holdings are mapped to Assets by the harness as (master fingerprint, full path) or (master fingerprint, parent path) key sources".into()] }
    fn lanes(&self, tier: Tier) -> Vec<(&'static str, usize, usize)> {
        match tier {
            Tier::Quick => vec![("plan", 96_000, 400)],
            Tier::Thorough => vec![("plan", 1_920_000, 500)],
        }
    }
    fn run_case(&self, _lane: &str, src: &mut Src, rep: &mut Report) -> Result<(), Failure> {
        let kind = pick_kind(src);
        let size = src.range(1, 8);
        let insane = src.chance(1, 4);
        let d = gen::gen_desc(src, kind, &|ctx| {
            let mut c = if insane { Cfg::new(ctx, size) } else { Cfg::sane(ctx, size) };
            c.key_style = KeyStyle::Rich;
            c.allow_uncompressed = true;
            c.xpub_chance = 2;
            c.leaf_w = [6, 2, 4];
            c
        });
        let sugar = src.bool();
        let text = d.print(sugar);
        let lib = match if insane { glue::desc_via_ctor(&d, glue::Level::Insane, sugar) } else { glue::desc_via_str(&d, sugar) } {
            Ok(l) => l,
            Err(_) => {
                rep.class("rejected");
                return Ok(());
            }
        };
        let ctx = d.ctx();
        let leafs: Vec<[u8; 32]> = crate::world::leaf_scripts(&d).map_err(|e| Failure { sig: "mirror-encode".into(), msg: e })?.into_iter().map(|x| x.1).collect();
        // ---- holdings
        let mut uniq: Vec<String> = Vec::new();
        for k in d.all_keys() {
            if !uniq.contains(&k) {
                uniq.push(k);
            }
        }
        let p_key = src.range(1, 4);
        let mut hk = Vec::new();
        let mut parent = Vec::new();
        let mut restricted = false;
        for k in &uniq {
            if !src.chance(p_key, 4) {
                continue;
            }
            let script_spend = match src.below(6) {
                0 => {
                    restricted = true;
                    TaprootAvailableLeaves::None
                }
                1 if !leafs.is_empty() => {
                    restricted = true;
                    TaprootAvailableLeaves::Single(TapLeafHash::from_byte_array(*src.pick(&leafs)))
                }
                2 if !leafs.is_empty() => {
                    restricted = true;
                    let n = src.range(0, leafs.len());
                    TaprootAvailableLeaves::Many(leafs.iter().take(n).map(|l| TapLeafHash::from_byte_array(*l)).collect())
                }
                _ => TaprootAvailableLeaves::Any,
            };
            let can = CanSign {
                ecdsa: !src.chance(1, 8),
                taproot: TaprootCanSign { key_spend: !src.chance(1, 5), script_spend, sighash_default: !src.chance(1, 4) },
            };
            hk.push((k.clone(), can));
            parent.push(src.chance(1, 3));
        }
        // a key offered through its parent path covers every direct child of that path:
        // siblings in the descriptor get the same capability
        let mut extra: Vec<(String, CanSign)> = Vec::new();
        for (i, (k, can)) in hk.iter().enumerate() {
            if parent[i] && k.contains("pub") {
                if let Some(cut) = k.rfind('/') {
                    let prefix = &k[..cut];
                    for k2 in &uniq {
                        if k2 != k && k2.rfind('/').map(|c| &k2[..c] == prefix).unwrap_or(false) {
                            extra.push((k2.clone(), can.clone()));
                        }
                    }
                }
            }
        }
        for e in extra {
            hk.push(e);
            parent.push(true);
        }
        // one key reachable through several key sources: the announced signature size is that
        // of whichever source the planner meets first; keep the flavour consistent per key
        // (by point: the same point written as compressed and as x-only key signs the same way)
        // a parent-path source also covers siblings that have an entry of their own: the planner
        // may meet either source first, so the whole sibling group signs the same way
        let prefix_of = |k: &str| -> Option<String> { if k.contains("pub") { k.rfind('/').map(|c| k[..c].to_string()) } else { None } };
        for i in 0..hk.len() {
            if let Some(pi) = prefix_of(&hk[i].0) {
                let group: Vec<usize> = (0..hk.len()).filter(|j| prefix_of(&hk[*j].0).as_deref() == Some(pi.as_str())).collect();
                if group.iter().any(|j| parent[*j]) {
                    let first = hk[group[0]].1.taproot.sighash_default;
                    for j in group {
                        hk[j].1.taproot.sighash_default = first;
                    }
                }
            }
        }
        let point = |k: &str| key_bytes(k, ctx).ok().and_then(|b| keys::xonly_of(&b));
        for i in 0..hk.len() {
            for j in 0..i {
                if point(&hk[j].0) == point(&hk[i].0) {
                    hk[i].1.taproot.sighash_default = hk[j].1.taproot.sighash_default;
                    break;
                }
            }
        }
        let mut pre = BTreeSet::new();
        let pp = src.range(0, 3);
        for i in 0..keys::N_PREIMAGES {
            if src.chance(pp, 3) {
                pre.insert(keys::u().preimages[i]);
            }
        }
        let (afters, olders) = gen::locks_of(&d.nodes());
        let abs_max = if src.chance(1, 4) {
            None
        } else if !afters.is_empty() && src.chance(3, 4) {
            let a = *src.pick(&afters);
            Some(*src.pick(&[a, a.wrapping_sub(1).max(1), a + 1, *afters.iter().max().unwrap()]))
        } else {
            Some(*src.pick(&[1u32, 499_999_999, 500_000_000, 0x7fff_ffff]))
        };
        let rel_max = if src.chance(1, 4) {
            None
        } else if !olders.is_empty() && src.chance(3, 4) {
            let o = *src.pick(&olders);
            Some(*src.pick(&[o, (o & 0x40_0000) | ((o & 0xffff).saturating_sub(1).max(1)), o + 1, *olders.iter().max().unwrap()]) & 0x40_ffff)
        } else {
            Some(*src.pick(&[1u32, 0xffff, 0x40_0001, 0x40_ffff]))
        };
        let h = Holdings { keys: hk, preimages: pre, abs_max, rel_max };
        let mall = src.chance(1, 3);
        rep.desc = format!("{} | holdings keys={:?} preimages={} abs_max={:?} rel_max={:?} | {}", text, h.keys.iter().map(|(k, c)| format!("{}..{}:{}{}{}{}", &k[..k.len().min(12)], &k[k.len().saturating_sub(4)..], if c.ecdsa { "e" } else { "" }, if c.taproot.key_spend { "k" } else { "" }, match c.taproot.script_spend { TaprootAvailableLeaves::Any => "A", TaprootAvailableLeaves::None => "N", _ => "L" }, if c.taproot.sighash_default { "d" } else { "x" })).collect::<Vec<_>>(), h.preimages.len(), h.abs_max, h.rel_max, if mall { "mall" } else { "nonmall" });
        // the public builder: a wildcard multipath key `.../<c;c'>/*` added through Assets::add is
        // a key source for the parent path of each alternative, hence covers the held child
        for k in &uniq {
            if !k.contains("pub") || !src.chance(1, 3) {
                continue;
            }
            let mp = crate::checks::c16::templatize(k, 1, 2, src);
            if let (Ok(mpk), Ok(dk)) = (miniscript::DescriptorPublicKey::from_str(&mp), DK::from_str(k)) {
                if !mpk.is_multipath() {
                    continue;
                }
                let api = Assets::new().add(mpk);
                if let Some(full) = dk.full_derivation_path() {
                    let v: Vec<bitcoin::bip32::ChildNumber> = full.into_iter().cloned().collect();
                    if !v.is_empty() {
                        let want = ((dk.master_fingerprint(), DerivationPath::from(v[..v.len() - 1].to_vec())), CanSign::default());
                        rep.class("assets-builder:multipath");
                        if !api.keys.contains(&want) {
                            return fail("assets-builder-misses-multipath-source", format!("Assets::new().add(`{}`) holds {} key sources, none is the parent path of `{}`", mp, api.keys.len(), k));
                        }
                    }
                }
            }
        }
        let mut assets = to_assets(&h, &parent)?;
        // decoys: key sources that are NOT the key's own path nor its direct parent (two or more
        // levels above, or a sibling branch) give no signing capability for it
        let mut n_decoys = 0;
        for k in &uniq {
            if h.keys.iter().any(|(hk2, _)| hk2 == k) || !k.contains("pub") || !src.chance(1, 3) {
                continue;
            }
            // a sibling group member offered as parent would cover it legitimately
            let prefix = k.rfind('/').map(|c| k[..c].to_string());
            if h.keys.iter().any(|(hk2, _)| hk2.rfind('/').map(|c| hk2[..c].to_string()) == prefix) {
                continue;
            }
            if let Ok(dk) = DK::from_str(k) {
                if let Some(full) = dk.full_derivation_path() {
                    let v: Vec<bitcoin::bip32::ChildNumber> = full.into_iter().cloned().collect();
                    if v.len() >= 2 {
                        let cut = src.range(2, v.len());
                        let path = DerivationPath::from(v[..v.len() - cut].to_vec());
                        let can = CanSign { ecdsa: true, taproot: TaprootCanSign { key_spend: true, script_spend: TaprootAvailableLeaves::Any, sighash_default: true } };
                        assets.keys.insert(((dk.master_fingerprint(), path), can));
                        n_decoys += 1;
                    }
                }
            }
        }
        if n_decoys > 0 {
            rep.class("with-ancestor-decoys");
        }
        // keys that cannot use SIGHASH_DEFAULT really sign with an explicit SIGHASH_ALL
        let mut tap_all: BTreeSet<[u8; 32]> = BTreeSet::new();
        for (k, c) in &h.keys {
            if !c.taproot.sighash_default {
                if let Ok(kb) = key_bytes(k, ctx) {
                    if let Some(x) = keys::xonly_of(&kb) {
                        tap_all.insert(x);
                    }
                }
            }
        }
        let sign_real = |d: &MDesc, w: &World, t: &crate::world::TxCtx| sign_real_with(d, w, t, &tap_all);
        // ---- (1) existence: plan vs satisfier with the same capabilities (dummy tx, real sigs)
        let scripts = d.scripts().map_err(|e| Failure { sig: "mirror-encode".into(), msg: e })?;
        let all_world = |lock: u32, seq: u32| -> World {
            let mut w = World { keys: BTreeSet::new(), preimages: keys::u().preimages.iter().copied().collect(), lock_time: lock, sequence: seq, tx_version: 2 };
            for k in &uniq {
                if let Ok(kb) = key_bytes(k, ctx) {
                    if let Some(x) = keys::xonly_of(&kb) {
                        w.keys.insert(x);
                    }
                }
            }
            w
        };
        let t0 = make_tx(&scripts.spk, 0, 0xffff_fffe, 1, 0);
        let sigs0 = sign_real(&d, &all_world(0, 0xffff_fffe), &t0).map_err(|e| Failure { sig: "sign".into(), msg: e })?;
        let hs0 = HoldSat { h: &h, sigs: &sigs0, ctx };
        let plan_r = guard("into_plan", || if mall { lib.clone().into_plan_mall(&assets) } else { lib.clone().into_plan(&assets) })?;
        let sat_r = if mall { lib.get_satisfaction_mall(&hs0) } else { lib.get_satisfaction(&hs0) };
        rep.class(format!("kind={}", d.kind()));
        let plan = match (plan_r, &sat_r) {
            (Ok(p), Ok(_)) => p,
            (Err(_), Err(_)) => {
                rep.class("no-plan");
                return Ok(());
            }
            (Ok(_), Err(e)) => {
                return fail(&format!("plan-without-satisfaction/{}/{}", d.kind(), if mall { "mall" } else { "nonmall" }), format!("a plan exists but the satisfier with the same capabilities fails: {}", e));
            }
            (Err(_), Ok(_)) => {
                return fail(&format!("satisfaction-without-plan/{}/{}", d.kind(), if mall { "mall" } else { "nonmall" }), "the satisfier with the same capabilities succeeds but no plan exists".to_string());
            }
        };
        rep.class("plan");
        // ---- (2) sufficiency with the reported locks
        let abs = plan.absolute_timelock.map(|l| l.to_consensus_u32());
        let rel = plan.relative_timelock.map(|l| l.to_consensus_u32());
        let lock = abs.unwrap_or(0);
        let seq = rel.unwrap_or(0xffff_fffe);
        let secp = Secp256k1::verification_only();
        let try_tx = |lock: u32, seq: u32| -> Result<(Result<(), String>, Option<(Vec<Vec<u8>>, bitcoin::ScriptBuf)>, usize, usize), Failure> {
            let mut t = make_tx(&scripts.spk, lock, seq, 1, 0);
            let sigs = sign_real(&d, &all_world(lock, seq), &t).map_err(|e| Failure { sig: "sign".into(), msg: e })?;
            let hs = HoldSat { h: &h, sigs: &sigs, ctx };
            let r = guard("Plan::satisfy", || plan.satisfy(&hs))?;
            match r {
                Ok((wit, ss)) => {
                    t.tx.input[0].witness = Witness::from_slice(&wit);
                    t.tx.input[0].script_sig = ss.clone();
                    let v = verify_input(&t.tx, 0, &t.prevouts, &Flags::STANDARD, &secp).map(|_| ()).map_err(|e| format!("{:?}", e));
                    let wsize = bitcoin::consensus::serialize(&t.tx.input[0].witness).len();
                    let sssize = ss.len();
                    Ok((v, Some((wit, ss)), wsize, sssize))
                }
                Err(e) => Ok((Err(format!("plan.satisfy: {}", e)), None, 0, 0)),
            }
        };
        let (v, got, wsize, sssize) = try_tx(lock, seq)?;
        if let Err(e) = v {
            return fail(
                &format!("plan-insufficient/{}/{}", d.kind(), e.split('(').next().unwrap_or("?")),
                format!("completing the plan in a transaction with the reported locks (nLockTime={}, nSequence={:#x}) does not validate: {}", lock, seq, e),
            );
        }
        let (wit, ss) = got.unwrap();
        // equality with the direct satisfier on the same transaction
        {
            let t = make_tx(&scripts.spk, lock, seq, 1, 0);
            let sigs = sign_real(&d, &all_world(lock, seq), &t).map_err(|e| Failure { sig: "sign".into(), msg: e })?;
            let hs = HoldSat { h: &h, sigs: &sigs, ctx };
            let direct = if mall { lib.get_satisfaction_mall(&hs) } else { lib.get_satisfaction(&hs) };
            match direct {
                Ok((w2, s2)) => {
                    // sighash_default=false only changes the *announced* size
                    if w2 != wit || s2 != ss {
                        return fail(&format!("plan-differs-from-satisfier/{}", d.kind()), format!("Plan::satisfy gives witness {:?} / scriptSig {} but get_satisfaction gives {:?} / {}", wit.iter().map(|x| keys::hex(x)).collect::<Vec<_>>(), ss.to_hex_string(), w2.iter().map(|x| keys::hex(x)).collect::<Vec<_>>(), s2.to_hex_string()));
                    }
                }
                Err(e) => return fail("satisfier-fails-on-plan-tx", format!("get_satisfaction fails on the plan's transaction: {}", e)),
            }
        }
        // ---- (2b) completing the plan with LESS than it was planned with: whatever comes back
        // as Ok must still be a valid spend (the expected answer is an error)
        {
            let mut t = make_tx(&scripts.spk, lock, seq, 1, 0);
            let mut sigs = sign_real(&d, &all_world(lock, seq), &t).map_err(|e| Failure { sig: "sign".into(), msg: e })?;
            // drop one signature that the witness uses (or a preimage when it uses none)
            let used_e: Vec<Vec<u8>> = sigs.ecdsa.iter().filter(|(_, sg)| wit.contains(&sg.to_vec()) || pushes_contain(ss.as_bytes(), &sg.to_vec())).map(|(k, _)| k.clone()).collect();
            let used_l: Vec<([u8; 32], [u8; 32])> = sigs.tap_leaf.iter().filter(|(_, sg)| wit.contains(&sg.to_vec())).map(|(k, _)| *k).collect();
            let mut dropped = false;
            if !used_e.is_empty() {
                let k = src.pick(&used_e).clone();
                sigs.ecdsa.remove(&k);
                dropped = true;
            } else if !used_l.is_empty() {
                let k = *src.pick(&used_l);
                sigs.tap_leaf.remove(&k);
                dropped = true;
            } else if sigs.tap_key.is_some() && wit.len() == 1 {
                sigs.tap_key = None;
                dropped = true;
            }
            if dropped {
                let hs = HoldSat { h: &h, sigs: &sigs, ctx };
                if let Ok((w2, s2)) = guard("Plan::satisfy (partial)", || plan.satisfy(&hs))? {
                    t.tx.input[0].witness = Witness::from_slice(&w2);
                    t.tx.input[0].script_sig = s2.clone();
                    if let Err(e) = verify_input(&t.tx, 0, &t.prevouts, &Flags::STANDARD, &secp) {
                        return fail(
                            &format!("plan-partial-completion-ok/{}", d.kind()),
                            format!("Plan::satisfy returned Ok with a satisfier that lacks a signature the plan uses; the result does not validate ({:?}): witness {:?}", e, w2.iter().map(|x| x.len()).collect::<Vec<_>>()),
                        );
                    }
                }
                rep.class("partial-completion-tried");
            }
        }
        // ---- (3) necessity
        let mut variants: Vec<(u32, u32, String)> = Vec::new();
        if let Some(a) = abs {
            if a > 1 && a != 500_000_000 {
                variants.push((a - 1, seq, "abs-1".into()));
            }
            variants.push((if a < 500_000_000 { 500_000_000 + a } else { a - 500_000_000 + 1 }, seq, "abs-other-unit".into()));
            variants.push((0, seq, "abs-none".into()));
            variants.push((a, 0xffff_ffff, "abs-final-sequence".into()));
        }
        if let Some(r) = rel {
            if (r & 0xffff) > 1 {
                variants.push((lock, r - 1, "rel-1".into()));
            }
            variants.push((lock, r ^ 0x40_0000, "rel-other-unit".into()));
            variants.push((lock, 0xffff_fffe, "rel-none".into()));
            variants.push((lock, r | 0x8000_0000, "rel-disabled".into()));
        }
        for (l2, s2, name) in variants {
            if rel.is_none() && s2 != seq && abs.is_none() {
                continue;
            }
            let (v2, _, _, _) = try_tx(l2, s2)?;
            if v2.is_ok() {
                return fail(
                    &format!("plan-lock-not-necessary/{}", name),
                    format!("the plan reports locks abs={:?} rel={:?} but its witness also validates with nLockTime={} nSequence={:#x} ({})", abs, rel, l2, s2, name),
                );
            }
        }
        if abs.is_some() || rel.is_some() || restricted || h.keys.len() > 1 {
            rep.nontrivial_by(&rep.desc.clone());
        }
        // ---- (4) sizes
        let announced_w = plan.witness_size();
        let announced_s = plan.scriptsig_size();
        let segwit = !matches!(d, MDesc::Bare(_) | MDesc::Pkh(_) | MDesc::Sh(_));
        if segwit && announced_w < wsize {
            return fail(&format!("plan-witness-size/{}", d.kind()), format!("Plan::witness_size() = {} but the real serialized witness has {} bytes", announced_w, wsize));
        }
        // scriptsig_size includes the length prefix
        let real_ss = sssize + crate::refscript::varint_len(sssize);
        if announced_s < real_ss {
            return fail(&format!("plan-scriptsig-size/{}", d.kind()), format!("Plan::scriptsig_size() = {} but the real scriptSig takes {} bytes (with length prefix)", announced_s, real_ss));
        }
        if abs.is_some() || rel.is_some() {
            rep.class("uses-lock");
        }
        Ok(())
    }
}


fn pushes_contain(script: &[u8], item: &[u8]) -> bool {
    if item.is_empty() {
        return false;
    }
    script.windows(item.len()).any(|w| w == item)
}
