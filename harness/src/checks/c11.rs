//! C11 — no input can crash or hang the library.

use crate::checks::c01::pick_kind;
use crate::gen::{self, Cfg, KeyStyle, PolCfg};
use crate::glue::{self, DK};
use crate::keys;
use crate::mirror::ast;
use crate::mirror::encode::encode;
use crate::mirror::spec::Ctx;
use crate::runner::{guard, Check, Failure, Report, Src, Tier};
use crate::world::{make_tx, sign_real, World};
use bitcoin::bip32::{ChildNumber, DerivationPath, Fingerprint};
use bitcoin::hashes::Hash;
use bitcoin::psbt::Psbt;
use bitcoin::sighash::{Prevouts, SighashCache};
use bitcoin::{absolute, ScriptBuf, Sequence, Witness};
use miniscript::descriptor::{DescriptorSecretKey, WalletPolicy};
use miniscript::plan::{Assets, CanSign, TaprootAvailableLeaves, TaprootCanSign};
use miniscript::policy::{Concrete, Liftable, Semantic};
use miniscript::psbt::PsbtExt;
use miniscript::{BareCtx, Descriptor, DescriptorPublicKey, ForEachKey, Interpreter, Legacy, Miniscript, ScriptContext, Segwitv0, Tap, ValidationParams};
use secp256k1::Secp256k1;
use std::str::FromStr;
use std::time::Instant;

pub struct C11;

fn timed<T>(what: &str, input: &str, f: impl FnOnce() -> T) -> Result<T, Failure> {
    let t0 = Instant::now();
    let r = guard(what, f).map_err(|f| Failure { sig: f.sig, msg: format!("{} on input `{}`", f.msg, clip(input)) })?;
    let dt = t0.elapsed().as_secs_f64();
    if dt > 20.0 {
        return Err(Failure { sig: format!("slow/{}", what), msg: format!("{} took {:.1}s on input `{}`", what, dt, clip(input)) });
    }
    Ok(r)
}

fn clip(s: &str) -> String {
    if s.len() > 600 {
        format!("{}…[{} bytes]", &s[..s.char_indices().take_while(|(i, _)| *i < 600).last().map(|(i, c)| i + c.len_utf8()).unwrap_or(0)], s.len())
    } else {
        s.to_string()
    }
}

fn post_ms<Pk: miniscript::MiniscriptKey, C: ScriptContext>(ms: &Miniscript<Pk, C>, input: &str) -> Result<(), Failure> {
    timed("Miniscript::to_string", input, || ms.to_string())?;
    timed("Miniscript::lift", input, || ms.lift().is_ok())?;
    timed("Miniscript::script_size", input, || ms.script_size())?;
    timed("Miniscript::max_satisfaction_size", input, || (ms.max_satisfaction_size().is_ok(), ms.max_satisfaction_witness_elements().is_ok()))?;
    timed("Miniscript::iter_pk", input, || ms.iter_pk().count())?;
    timed("Miniscript::clone/eq/cmp/hash", input, || {
        let c = ms.clone();
        let mut h = std::collections::hash_map::DefaultHasher::new();
        std::hash::Hash::hash(&c, &mut h);
        (c == *ms, c.cmp(ms))
    })?;
    timed("Miniscript::validate", input, || (ms.validate(&C::SANE).is_ok(), ms.validate(&C::CONSENSUS).is_ok(), ms.validate(&ValidationParams::MAX).is_ok(), ms.within_resource_limits()))?;
    Ok(())
}

fn post_desc_pub(d: &Descriptor<DescriptorPublicKey>, input: &str) -> Result<(), Failure> {
    let secp = Secp256k1::verification_only();
    timed("Descriptor::to_string", input, || (d.to_string(), format!("{:#}", d), format!("{:?}", d)))?;
    timed("Descriptor::lift", input, || d.lift().is_ok())?;
    timed("Descriptor::max_weight_to_satisfy", input, || d.max_weight_to_satisfy().is_ok())?;
    timed("Descriptor::desc_type", input, || (d.desc_type(), d.has_wildcard(), d.is_multipath(), d.xkey_network()))?;
    timed("Descriptor::into_single_descriptors", input, || d.clone().into_single_descriptors().map(|v| v.len()).ok())?;
    for idx in [0u32, 1, 0x7fff_ffff, 0x8000_0000, u32::MAX] {
        timed("Descriptor::derive_at_index", input, || d.derive_at_index(idx).into_result().is_ok())?;
        timed("Descriptor::derived_descriptor", input, || d.derived_descriptor(&secp, idx).map(|x| (x.script_pubkey(), x.address(bitcoin::Network::Bitcoin).is_ok())).is_ok())?;
    }
    timed("Descriptor::into_definite", input, || {
        if let Ok(def) = d.into_definite() {
            let _ = def.script_pubkey();
            let _ = def.explicit_script();
            let _ = def.script_code();
            let _ = def.unsigned_script_sig();
            let _ = def.address(bitcoin::Network::Testnet);
            let _ = def.derived_descriptor(&Secp256k1::verification_only());
            let _ = def.get_satisfaction(());
            let _ = def.clone().into_plan(&Assets::new());
        }
    })?;
    timed("Descriptor::find_derivation_index_for_spk", input, || d.find_derivation_index_for_spk(&secp, &ScriptBuf::new(), 0..3).is_ok())?;
    timed("Descriptor::for_each_key", input, || d.for_each_key(|k| k.to_string().len() < 10_000))?;
    timed("Descriptor::clone/eq/cmp/hash", input, || {
        let c = d.clone();
        let mut h = std::collections::hash_map::DefaultHasher::new();
        std::hash::Hash::hash(&c, &mut h);
        (c == *d, c.cmp(d))
    })?;
    timed("WalletPolicy::from_descriptor", input, || WalletPolicy::from_descriptor(d).map(|w| (w.to_string(), w.into_descriptor().is_ok())).is_ok())?;
    Ok(())
}

/// Every text parser, and on success the follow-up operations.
pub fn text_target(s: &str, rep: &mut Report) -> Result<(), Failure> {
    let mut accepted = false;
    macro_rules! ms_ctx {
        ($c:ty) => {{
            for p in [<$c>::SANE, <$c>::CONSENSUS, ValidationParams::MAX] {
                if let Ok(ms) = timed("Miniscript::from_str_with_validation_params", s, || Miniscript::<String, $c>::from_str_with_validation_params(s, &p))? {
                    accepted = true;
                    post_ms(&ms, s)?;
                }
            }
            if let Ok(ms) = timed("Miniscript::<DescriptorPublicKey>::from_str", s, || Miniscript::<DescriptorPublicKey, $c>::from_str_insane(s))? {
                accepted = true;
                post_ms(&ms, s)?;
            }
            if let Ok(ms) = timed("Miniscript::<Ctx::Key>::from_str", s, || Miniscript::<<$c as ScriptContext>::Key, $c>::from_str_insane(s))? {
                accepted = true;
                timed("Miniscript::encode", s, || {
                    let e = ms.encode();
                    let _ = Miniscript::<<$c as ScriptContext>::Key, $c>::decode_consensus(&e);
                    let _ = ms.satisfy(());
                    let _ = ms.satisfy_malleable(());
                })?;
            }
        }};
    }
    ms_ctx!(Segwitv0);
    ms_ctx!(Tap);
    ms_ctx!(Legacy);
    ms_ctx!(BareCtx);
    if let Ok(d) = timed("Descriptor::<DescriptorPublicKey>::from_str", s, || Descriptor::<DescriptorPublicKey>::from_str(s))? {
        accepted = true;
        post_desc_pub(&d, s)?;
    }
    if let Ok(d) = timed("Descriptor::<String>::from_str", s, || Descriptor::<String>::from_str(s))? {
        accepted = true;
        timed("Descriptor::<String> ops", s, || (d.to_string(), d.lift().is_ok(), d.max_weight_to_satisfy().is_ok(), d.iter_pk().count()))?;
    }
    if let Ok(d) = timed("Descriptor::<DefiniteDescriptorKey>::from_str", s, || Descriptor::<DK>::from_str(s))? {
        accepted = true;
        timed("Descriptor::<DefiniteDescriptorKey> ops", s, || (d.script_pubkey(), d.to_string(), d.get_satisfaction_mall(()).is_ok()))?;
    }
    {
        let secp = Secp256k1::new();
        if let Ok((d, km)) = timed("Descriptor::parse_descriptor", s, || Descriptor::parse_descriptor(&secp, s))? {
            accepted = true;
            timed("Descriptor::to_string_with_secret", s, || d.to_string_with_secret(&km))?;
        }
    }
    if let Ok(p) = timed("Concrete::from_str", s, || Concrete::<String>::from_str(s))? {
        accepted = true;
        timed("Concrete ops", s, || (p.to_string(), p.lift().is_ok(), p.is_valid().is_ok(), p.is_safe_nonmalleable(), p.keys().len(), p.check_timelocks().is_ok()))?;
    }
    if let Ok(p) = timed("Semantic::from_str", s, || Semantic::<String>::from_str(s))? {
        accepted = true;
        timed("Semantic ops", s, || {
            let n = p.clone().normalized();
            (p.to_string(), n.clone().sorted().to_string(), p.minimum_n_keys(), p.n_keys(), p.clone().entails(n), p.relative_timelocks().len(), p.absolute_timelocks().len())
        })?;
    }
    if let Ok(k) = timed("DescriptorPublicKey::from_str", s, || DescriptorPublicKey::from_str(s))? {
        accepted = true;
        let secp = Secp256k1::verification_only();
        timed("DescriptorPublicKey ops", s, || {
            let _ = (k.to_string(), k.master_fingerprint(), k.full_derivation_paths(), k.has_wildcard(), k.is_multipath());
            let _ = k.clone().into_single_keys();
            for i in [0u32, 1, u32::MAX] {
                if let Ok(dk) = k.clone().at_derivation_index(i) {
                    let _ = dk.derive_public_key(&secp);
                }
            }
        })?;
    }
    if let Ok(k) = timed("DescriptorSecretKey::from_str", s, || DescriptorSecretKey::from_str(s))? {
        accepted = true;
        let secp = Secp256k1::new();
        timed("DescriptorSecretKey ops", s, || (k.to_string(), k.to_public(&secp).is_ok(), k.is_multipath(), k.clone().into_single_keys().len()))?;
    }
    if let Ok(w) = timed("WalletPolicy::from_str", s, || WalletPolicy::from_str(s))? {
        accepted = true;
        timed("WalletPolicy ops", s, || (w.to_string(), w.clone().into_descriptor().is_ok()))?;
        // key information of every kind (also kinds the template's context refuses)
        let pool = [keys::key_uncompressed(1), keys::key_xonly(2), keys::key_compressed(3), keys::key_xpub(0, 0, 0, true), format!("{}/<0;1>/*", keys::key_xpub(0, 0, 0, false).rsplitn(3, '/').last().unwrap_or("")), keys::key_uncompressed(4)];
        for start in 0..pool.len() {
            for n in 1..=4usize {
                let ks: Vec<DescriptorPublicKey> = (0..n).filter_map(|i| DescriptorPublicKey::from_str(&pool[(start + i) % pool.len()]).ok()).collect();
                let mut w2 = w.clone();
                timed("WalletPolicy::set_key_info + into_descriptor", s, || {
                    if w2.set_key_info(&ks).is_ok() {
                        let _ = w2.into_descriptor().map(|d| d.to_string());
                    }
                })?;
            }
        }
    }
    if let Ok(t) = timed("expression::Tree::from_str", s, || miniscript::expression::Tree::from_str(s))? {
        timed("expression::Tree ops", s, || format!("{:?}", t).len())?;
    }
    if accepted {
        rep.class("accepted-by-some-parser");
    }
    Ok(())
}

pub fn compile_target(s: &str, rep: &mut Report) -> Result<(), Failure> {
    use miniscript::policy::concrete::DescriptorCtx;
    let p = match timed("Concrete::<DefiniteDescriptorKey>::from_str", s, || Concrete::<DK>::from_str(s))? {
        Ok(p) => p,
        Err(_) => match timed("Concrete::<String>::from_str", s, || Concrete::<String>::from_str(s))? {
            Ok(ps) => {
                rep.class("policy-accepted");
                timed("compile<String>", s, || {
                    let _ = ps.compile::<Segwitv0>();
                    let _ = ps.compile::<Tap>();
                    let _ = ps.compile::<Legacy>();
                    let _ = ps.compile::<BareCtx>();
                    let _ = ps.compile_tr(Some("UNSPENDABLE".to_string()));
                    let _ = ps.compile_tr(None);
                    let _ = ps.compile_tr_native(Some("UNSPENDABLE".to_string()), 4);
                    let _ = ps.compile_tr_native(None, 0);
                    let _ = ps.compile_tr_private_experimental(Some("UNSPENDABLE".to_string()));
                    let _ = ps.compile_tr_private_experimental(None);
                    let _ = ps.compile_to_descriptor::<Segwitv0>(DescriptorCtx::Wsh);
                    let _ = ps.compile_to_descriptor::<Legacy>(DescriptorCtx::Sh);
                    let _ = ps.compile_to_descriptor::<BareCtx>(DescriptorCtx::Bare);
                    let _ = ps.compile_to_descriptor::<Segwitv0>(DescriptorCtx::ShWsh);
                    let _ = ps.compile_to_descriptor::<Tap>(DescriptorCtx::Tr(None));
                })?;
                return Ok(());
            }
            Err(_) => return Ok(()),
        },
    };
    rep.class("policy-accepted");
    let unsp = DK::from_str(&keys::key_compressed(11)).unwrap();
    timed("compile<DefiniteDescriptorKey>", s, || {
        let _ = p.compile::<Segwitv0>();
        let _ = p.compile::<Tap>();
        let _ = p.compile::<Legacy>();
        let _ = p.compile::<BareCtx>();
        let _ = p.compile_tr(Some(unsp.clone()));
        let _ = p.compile_tr(None);
        let _ = p.compile_tr_native(Some(unsp.clone()), 1);
        let _ = p.compile_tr_native(Some(unsp.clone()), 1000);
        let _ = p.compile_tr_private_experimental(Some(unsp.clone()));
        let _ = p.compile_tr_private_experimental(None);
        let _ = p.compile_to_descriptor::<Tap>(DescriptorCtx::Tr(Some(unsp.clone())));
        let _ = p.compile_to_descriptor::<Segwitv0>(DescriptorCtx::Wsh);
        let _ = p.compile_to_descriptor::<Legacy>(DescriptorCtx::Sh);
    })?;
    Ok(())
}

struct YesSat;
impl<Pk: miniscript::MiniscriptKey + miniscript::ToPublicKey> miniscript::Satisfier<Pk> for YesSat {
    fn lookup_ecdsa_sig(&self, _: &Pk) -> Option<bitcoin::ecdsa::Signature> { crate::world::sym_ecdsa(&keys::u().pks[0].serialize()) }
    fn lookup_tap_leaf_script_sig(&self, _: &Pk, _: &bitcoin::taproot::TapLeafHash) -> Option<bitcoin::taproot::Signature> { crate::world::sym_schnorr(&keys::u().pks[0].x_only_public_key().0.serialize(), None) }
    fn lookup_tap_key_spend_sig(&self, _: &Pk) -> Option<bitcoin::taproot::Signature> { crate::world::sym_schnorr(&keys::u().pks[0].x_only_public_key().0.serialize(), None) }
    fn lookup_sha256(&self, _: &Pk::Sha256) -> Option<[u8; 32]> { Some([1; 32]) }
    fn lookup_hash256(&self, _: &Pk::Hash256) -> Option<[u8; 32]> { Some([1; 32]) }
    fn lookup_ripemd160(&self, _: &Pk::Ripemd160) -> Option<[u8; 32]> { Some([1; 32]) }
    fn lookup_hash160(&self, _: &Pk::Hash160) -> Option<[u8; 32]> { Some([1; 32]) }
    fn lookup_raw_pkh_pk(&self, _: &bitcoin::hashes::hash160::Hash) -> Option<bitcoin::PublicKey> { Some(bitcoin::PublicKey::new(keys::u().pks[0])) }
    fn lookup_raw_pkh_ecdsa_sig(&self, _: &bitcoin::hashes::hash160::Hash) -> Option<(bitcoin::PublicKey, bitcoin::ecdsa::Signature)> {
        Some((bitcoin::PublicKey::new(keys::u().pks[0]), crate::world::sym_ecdsa(&keys::u().pks[0].serialize())?))
    }
    fn check_older(&self, _: bitcoin::relative::LockTime) -> bool { true }
    fn check_after(&self, _: absolute::LockTime) -> bool { true }
}

pub fn script_target(bytes: &[u8], rep: &mut Report) -> Result<(), Failure> {
    let sb = ScriptBuf::from_bytes(bytes.to_vec());
    let input = keys::hex(bytes);
    macro_rules! go {
        ($c:ty) => {{
            for (n, p) in [("SANE", <$c>::SANE), ("CONSENSUS", <$c>::CONSENSUS), ("MAX", ValidationParams::MAX)] {
                let _ = n;
                if let Ok(ms) = timed("decode_with_validation_params", &input, || Miniscript::<<$c as ScriptContext>::Key, $c>::decode_with_validation_params(&sb, &p))? {
                    rep.class("decoded");
                    timed("decoded ops", &input, || {
                        let _ = ms.encode();
                        let _ = ms.to_string();
                        let _ = ms.lift();
                        let _ = ms.satisfy(());
                        let _ = ms.satisfy(YesSat);
                        let _ = ms.satisfy_malleable(YesSat);
                        let _ = ms.max_satisfaction_size();
                        let _ = ms.script_size();
                    })?;
                }
            }
        }};
    }
    go!(Segwitv0);
    go!(Tap);
    go!(Legacy);
    go!(BareCtx);
    Ok(())
}

pub fn interp_target(spk: &[u8], ss: &[u8], wit: &[Vec<u8>], seq: u32, lock: u32, rep: &mut Report) -> Result<(), Failure> {
    let spk_b = ScriptBuf::from_bytes(spk.to_vec());
    let ss_b = ScriptBuf::from_bytes(ss.to_vec());
    let w = Witness::from_slice(wit);
    let input = format!("spk={} scriptSig={} witness={:?} seq={:#x} lock={}", keys::hex(spk), keys::hex(ss), wit.iter().map(|x| keys::hex(x)).collect::<Vec<_>>(), seq, lock);
    let r = timed("Interpreter::from_txdata", &input, || Interpreter::from_txdata(&spk_b, &ss_b, &w, Sequence(seq), absolute::LockTime::from_consensus(lock)).map(|i| {
        let n = i.iter_assume_sigs().count();
        let d = i.inferred_descriptor().is_ok();
        let s = i.inferred_descriptor_string();
        let _ = (i.is_legacy(), i.is_segwit_v0(), i.is_taproot_v1_key_spend(), i.is_taproot_v1_script_spend(), i.sig_type());
        (n, d, s.len())
    }))?;
    if r.is_ok() {
        rep.class("from_txdata-ok");
        // with a real transaction
        let mut t = make_tx(spk, lock, seq, 1, 0);
        t.tx.input[0].script_sig = ss_b.clone();
        t.tx.input[0].witness = w.clone();
        let secp = Secp256k1::verification_only();
        timed("Interpreter::iter", &input, || {
            if let Ok(i) = Interpreter::from_txdata(&spk_b, &t.tx.input[0].script_sig, &t.tx.input[0].witness, Sequence(seq), absolute::LockTime::from_consensus(lock)) {
                let p = Prevouts::All(&t.prevouts);
                let _ = i.iter(&secp, &t.tx, 0, &p).count();
            }
        })?;
    }
    Ok(())
}

fn psbt_ops(p: &Psbt, descs: &[glue::Desc], input: &str) -> Result<(), Failure> {
    let secp = Secp256k1::verification_only();
    timed("Psbt::finalize_mut", input, || p.clone().finalize_mut(&secp).is_ok())?;
    timed("Psbt::finalize_mall_mut", input, || p.clone().finalize_mall_mut(&secp).is_ok())?;
    for i in 0..p.inputs.len() + 1 {
        timed("Psbt::finalize_inp_mut", input, || p.clone().finalize_inp_mut(&secp, i).is_ok())?;
        timed("Psbt::finalize_inp_mall_mut", input, || p.clone().finalize_inp_mall_mut(&secp, i).is_ok())?;
        timed("Psbt::sighash_msg", input, || {
            let mut cache = SighashCache::new(&p.unsigned_tx);
            let _ = p.sighash_msg(i, &mut cache, None);
            let _ = p.sighash_msg(i, &mut cache, Some(bitcoin::taproot::TapLeafHash::from_byte_array([7; 32])));
        })?;
        for d in descs {
            timed("Psbt::update_input_with_descriptor", input, || p.clone().update_input_with_descriptor(i, d).is_ok())?;
            timed("Psbt::update_output_with_descriptor", input, || p.clone().update_output_with_descriptor(i, d).is_ok())?;
        }
    }
    timed("Psbt::extract", input, || p.extract(&secp).is_ok())?;
    timed("Psbt::finalize+extract", input, || {
        let mut q = p.clone();
        let _ = q.finalize_mall_mut(&secp);
        q.extract(&secp).is_ok()
    })?;
    Ok(())
}

impl Check for C11 {
    fn id(&self) -> &'static str { "C11" }
    fn rule(&self) -> String {
        "six entry classes, each run under catch_unwind with the panic location recorded and a 20 s per-call limit: `text` (valid strings of every kind -- miniscript, descriptor with every key form, policy, public/secret key, wallet policy -- with 0-3 grammar-aware mutations, or deep (390-420) / wide (2000-12000 children) nesting, wrapper runs of 450-100000 letters (which must be refused in every context and parameter set), or-chains of 100-170 leaves with halving odds, long digit runs, non-ASCII) -> every FromStr / from_str_* entry (Miniscript x 4 contexts x {SANE, CONSENSUS, MAX} x 3 key types, Descriptor x 3 key types, parse_descriptor, Concrete, Semantic, DescriptorPublicKey, DescriptorSecretKey, WalletPolicy, expression::Tree) and on success display / lift / sizes / derive / into_single_descriptors / address / plan / compare / hash; `script` (token-mutated encodings and random bytes) -> decode x 4 contexts x 3 parameter sets, then encode / lift / satisfy with empty and with all-answering satisfiers; `interp` (library satisfactions with mutated spk / scriptSig / witness, random triples) -> Interpreter::from_txdata, iter_assume_sigs, iter on a real transaction, inferred_descriptor; `psbt` (consistent multi-input PSBTs with corrupted fields: missing / short / mismatching utxos, wrong scripts, 73-byte and non-standard-sighash signatures, junk taproot data) -> every finalize variant, extract, sighash_msg, update_input/output_with_descriptor (also with out-of-range indices); `plan` (descriptor x Assets with fingerprints colliding with the descriptor's keys and empty / short / long paths) -> into_plan(_mall), Plan::satisfy, update_psbt_input; `compile` (policy text) -> every compile entry. Oracle: no panic, no call over 20 s. Non-trivial = inputs accepted by the first stage (only then is the deep code reached); distinct by input.".into()
    }
    fn assumptions(&self) -> Vec<String> {
        vec![
            "documented panics are not called (Threshold::or_n(vec![]), expect_translator_err, PsbtInputSatisfier with an out-of-range index)".into(),
            "stack overflow / abort would kill the check process: it then exits abnormally (reported by the caller as a broken run), not caught in-process".into(),
        ]
    }
    fn lanes(&self, tier: Tier) -> Vec<(&'static str, usize, usize)> {
        match tier {
            Tier::Quick => vec![("text", 48_000, 400), ("script", 80_000, 300), ("interp", 48_000, 400), ("psbt", 12_000, 500), ("plan", 32_000, 400), ("compile", 6_000, 300), ("big", 64, 50)],
            Tier::Thorough => vec![("text", 960_000, 500), ("script", 1_600_000, 400), ("interp", 960_000, 500), ("psbt", 240_000, 600), ("plan", 640_000, 500), ("compile", 120_000, 400), ("big", 2_000, 50)],
        }
    }
    fn replay_raw(&self, kind: &str, data: &[u8]) -> Option<Result<(), Failure>> {
        let mut rep = Report::default();
        match kind {
            "rawtext" => Some(match std::str::from_utf8(data) {
                Ok(s) => text_target(s, &mut rep).and_then(|_| compile_target(s, &mut rep)),
                Err(_) => Ok(()),
            }),
            "rawscript" => Some(script_target(data, &mut rep)),
            _ => None,
        }
    }
    fn extra(&self, _tier: Tier, st: &mut crate::runner::Stats, known: &dyn Fn(&str) -> bool, _threads: usize) -> Result<serde_json::Value, Failure> {
        // regression tier for raw fuzzer inputs and the committed seed corpora
        let dir = std::env::var("MVH_VERIF_DIR").unwrap_or_else(|_| "/verif".to_string());
        let mut n = 0u64;
        for (sub, kind) in [("replays", ""), ("corpus/parse_all", "rawtext"), ("corpus/decode_script", "rawscript")] {
            let d = format!("{}/{}", dir, sub);
            let mut files: Vec<std::path::PathBuf> = match std::fs::read_dir(&d) {
                Ok(rd) => rd.filter_map(|e| e.ok()).map(|e| e.path()).collect(),
                Err(_) => continue,
            };
            files.sort();
            for f in files {
                let name = f.to_string_lossy().to_string();
                let k = if !kind.is_empty() {
                    kind
                } else if name.ends_with(".rawtext") {
                    "rawtext"
                } else if name.ends_with(".rawscript") {
                    "rawscript"
                } else {
                    continue;
                };
                if let Ok(data) = std::fs::read(&f) {
                    n += 1;
                    if let Some(Err(fl)) = self.replay_raw(k, &data) {
                        if known(&fl.sig) {
                            st.note_known(&fl.sig);
                        } else {
                            return Err(Failure { sig: fl.sig, msg: format!("{} (raw input file {})", fl.msg, name) });
                        }
                    }
                }
            }
        }
        st.evaluations += n;
        Ok(serde_json::json!({"raw_inputs_replayed": n}))
    }
    fn run_case(&self, lane: &str, src: &mut Src, rep: &mut Report) -> Result<(), Failure> {
        match lane {
            "text" | "compile" => {
                let base: String = match src.below(if lane == "compile" { 1 } else { 8 }) {
                    7 => {
                        // an extended key that claims to sit 253-255 levels deep, with 0-3 more steps
                        let xp = keys::u().accounts[src.below(keys::N_ACCOUNTS)].2;
                        let mut b = xp.encode();
                        b[4] = *src.pick(&[253u8, 254, 255, 255]);
                        let mut t = bitcoin::bip32::Xpub::decode(&b).map(|x| x.to_string()).unwrap_or_default();
                        for _ in 0..src.below(4) {
                            t.push_str(&format!("/{}", src.below(3)));
                        }
                        if src.bool() {
                            t.push_str("/*");
                        }
                        match src.below(4) {
                            0 => t,
                            1 => format!("wpkh({})", t),
                            2 => format!("wsh(pk({}))", t),
                            _ => format!("tr({})", t),
                        }
                    }
                    0 => {
                        let cfg = PolCfg { max_leaves: 7, allow_const: true, distinct_keys: src.bool(), key_hex_ctx: Ctx::Segwitv0, named_keys: lane == "text" && src.bool(), consistent_locks: src.bool(), max_weight: 200, allow_thresh: true, binary: src.bool() };
                        gen::gen_policy(src, &cfg).print()
                    }
                    1 | 2 => {
                        let kind = pick_kind(src);
                        let size = src.range(1, 8);
                        let d = gen::gen_desc(src, kind, &|ctx| {
                            let mut c = Cfg::new(ctx, size);
                            c.key_style = KeyStyle::Rich;
                            c.allow_uncompressed = true;
                            c.allow_raw_pkh = true;
                            c
                        });
                        let wild = *src.pick(&[0u8, 0, 1, 2]);
                        let multi = *src.pick(&[0usize, 0, 2, 3]);
                        let t = d.map_keys(&mut |k| crate::checks::c16::templatize(k, wild, multi, src));
                        t.print(src.bool())
                    }
                    3 => {
                        let ctx = *src.pick(&[Ctx::Segwitv0, Ctx::Tap, Ctx::Legacy]);
                        let size = src.range(1, 10);
                        let mut cfg = Cfg::new(ctx, size);
                        cfg.legacy_restrict = false;
                        cfg.allow_raw_pkh = true;
                        let node = gen::gen_ms(src, &cfg);
                        let mut i = 0;
                        let named = if src.bool() {
                            node.map_keys(&mut |_| {
                                i += 1;
                                format!("K{}", i % 5)
                            })
                        } else {
                            node
                        };
                        ast::print(&named, src.bool())
                    }
                    4 => crate::checks::c10::key_forms(src),
                    5 => crate::checks::c10::secret_forms(src),
                    _ => {
                        let t = ["pkh(@0/**)", "wsh(multi(2,@0/**,@1/<2;3>/*))", "tr(@0/**,{pk(@1/**),pk(@2/<5;7>/*)})", "sh(wsh(and_v(v:pk(@0/**),older(5))))"];
                        src.pick(&t).to_string()
                    }
                };
                let nm = src.below(4);
                let mut s = base;
                for _ in 0..nm {
                    s = crate::checks::c10::mutate_text(src, &s);
                }
                if src.chance(1, 12) {
                    // non-ASCII / odd characters
                    let ins = *src.pick(&["é", "\u{0}", "\u{202e}", "𝔘", "\n", "\t", "ß", "#", "##"]);
                    let pos = src.below(s.len() + 1);
                    let pos = (0..=pos).rev().find(|p| s.is_char_boundary(*p)).unwrap_or(0);
                    s.insert_str(pos, ins);
                }
                if src.chance(1, 4) && !s.contains('#') {
                    // a checksum suffix (the right one where the text is in the charset), so that
                    // the checksum engine sees the mutated body
                    let cs = crate::descsum::checksum(&s).unwrap_or_else(|| "qpzry9x8".to_string());
                    s = format!("{}#{}", s, cs);
                }
                if src.chance(1, 12) {
                    // long digit runs
                    let digits = "9".repeat(src.range(10, 400));
                    s = s.replacen(|c: char| c.is_ascii_digit(), &digits, 1);
                }
                if lane == "compile" && src.chance(1, 5) {
                    // a key kind that some target contexts refuse
                    let from = keys::key_compressed(src.below(8));
                    let to = if src.bool() { keys::key_uncompressed(src.below(8)) } else { keys::key_xonly(src.below(8)) };
                    s = s.replacen(&from, &to, 1);
                }
                rep.desc = clip(&s);
                let before = rep.classes.len();
                if lane == "compile" {
                    compile_target(&s, rep)?;
                } else {
                    text_target(&s, rep)?;
                }
                if rep.classes.len() > before {
                    rep.nontrivial_by(&s);
                }
                Ok(())
            }
            "big" => {
                // deep and wide inputs (few cases, each large)
                let s = match src.below(11) {
                    8 | 9 => {
                        // very long wrapper runs: depth limits must hold for every wrapper
                        // (no parentheses to count), in every context and parameter set
                        let d = *src.pick(&[450usize, 1_000, 5_000, 20_000, 100_000]);
                        let w = *src.pick(&["l", "u", "n", "t", "a", "s", "c", "d", "v", "j", "lu", "tl", "ns"]);
                        let s = format!("{}:pk(A)", w.repeat(d / w.len()));
                        macro_rules! must_reject {
                            ($c:ty, $name:expr) => {{
                                for (pn, p) in [("MAX", miniscript::ValidationParams::MAX), ("CONSENSUS", <$c as miniscript::ScriptContext>::CONSENSUS)] {
                                    let r = timed(&format!("Miniscript::<String,{}>::from_str_with_validation_params({})", $name, pn), &s, || Miniscript::<String, $c>::from_str_with_validation_params(&s, &p).is_ok())?;
                                    if r {
return crate::runner::fail(&format!("oversized-accepted/{}", $name), format!("a run of {} `{}` wrappers is accepted by the {} parser with {} parameters", d / w.len(), w, $name, pn));
                                    }
                                }
                            }};
                        }
                        must_reject!(miniscript::Tap, "Tap");
                        must_reject!(miniscript::Segwitv0, "Segwitv0");
                        must_reject!(miniscript::Legacy, "Legacy");
                        s
                    }
                    10 => {
                        // a chain of nested ors with halving odds: the Huffman tree of the leaves
                        // is a chain too (deeper than a taproot tree may be from ~130 leaves on)
                        let n = src.range(100, 170);
                        let mut s = format!("pk(K{})", n);
                        for i in (0..n).rev() {
                            s = format!("or(1@pk(K{}),1@{})", i, s);
                        }
                        rep.desc = clip(&s);
                        // only the taproot entry points that compile leaf by leaf: the generic
                        // compiler is (knowingly) exponential in the depth of such chains
                        if let Ok(ps) = Concrete::<String>::from_str(&s) {
                            rep.class("policy-accepted");
                            timed("compile_tr on an or-chain", &s, || {
                                let _ = ps.compile_tr(Some("UNSPENDABLE".to_string()));
                                let _ = ps.compile_tr(None);
                                let _ = ps.compile_tr_private_experimental(Some("UNSPENDABLE".to_string()));
                                let _ = ps.compile_tr_private_experimental(None);
                            })?;
                        }
                        rep.nontrivial_by(&s);
                        return Ok(());
                    }
                    0 => {
                        let d = src.range(390, 420);
                        format!("{}pk(A){}", "and_v(v:".repeat(0) + &"n:".repeat(0) + &"or_i(0,".repeat(d), ")".repeat(d))
                    }
                    1 => {
                        let d = src.range(390, 420);
                        format!("{}:pk(A)", "n".repeat(d))
                    }
                    2 => {
                        let d = src.range(2_000, 12_000);
                        format!("wsh({})", "(".repeat(d))
                    }
                    3 => {
                        let n = src.range(2_000, 12_000);
                        let mut s = String::from("thresh(1");
                        for i in 0..n {
                            s.push_str(if i == 0 { ",pk(A)" } else { ",s:pk(A)" });
                        }
                        s.push(')');
                        s
                    }
                    4 => {
                        let n = src.range(2_000, 12_000);
                        format!("tr(A,multi_a(1{}))", ",A".repeat(n))
                    }
                    5 => {
                        let d = src.range(100, 140);
                        format!("tr(A,{}pk(B){})", "{pk(C),".repeat(d), "}".repeat(d))
                    }
                    6 => {
                        let d = src.range(390, 420);
                        format!("{}pk(A){}", "and(pk(B),".repeat(d), ")".repeat(d))
                    }
                    _ => {
                        let n = src.range(2_000, 12_000);
                        format!("thresh(1{})", ",pk(A)".repeat(n))
                    }
                };
                rep.desc = clip(&s);
                text_target(&s, rep)?;
                if src.bool() {
                    compile_target(&s, rep)?;
                }
                rep.nontrivial_by(&s);
                Ok(())
            }
            "script" => {
                let ctx = *src.pick(&[Ctx::Segwitv0, Ctx::Tap, Ctx::Legacy, Ctx::Bare]);
                let bytes: Vec<u8> = if src.chance(1, 5) {
                    let n = src.range(0, 80);
                    (0..n).map(|_| src.raw() as u8).collect()
                } else {
                    let size = src.range(1, 10);
                    let mut cfg = Cfg::new(ctx, size);
                    cfg.allow_uncompressed = true;
                    cfg.legacy_restrict = false;
                    let node = gen::gen_ms(src, &cfg);
                    let own = encode(&node, ctx).unwrap_or_default();
                    let mut toks = crate::checks::c04::tokenize(&own);
                    for _ in 0..src.below(4) {
                        crate::checks::c04::mutate(src, &mut toks);
                    }
                    toks.iter().flat_map(|t| t.raw.clone()).collect()
                };
                rep.desc = keys::hex(&bytes);
                let before = rep.classes.len();
                script_target(&bytes, rep)?;
                if rep.classes.len() > before {
                    rep.nontrivial_by(&bytes);
                }
                Ok(())
            }
            "interp" => {
                let kind = pick_kind(src);
                let size = src.range(1, 7);
                let d = gen::gen_desc(src, kind, &|ctx| {
                    let mut c = Cfg::sane(ctx, size);
                    c.allow_uncompressed = true;
                    c
                });
                let (mut spk, mut ss, mut wit): (Vec<u8>, Vec<u8>, Vec<Vec<u8>>) = (vec![], vec![], vec![]);
                if let (Ok(lib), Ok(sc)) = (glue::desc_via_ctor(&d, glue::Level::Insane, true), d.scripts()) {
                    let mut w = World { keys: Default::default(), preimages: keys::u().preimages.iter().copied().collect(), lock_time: 0, sequence: 0xffff_fffe, tx_version: 2 };
                    for k in d.all_keys() {
                        if let Ok(kb) = crate::mirror::encode::key_bytes(&k, d.ctx()) {
                            if let Some(x) = keys::xonly_of(&kb) {
                                w.keys.insert(x);
                            }
                        }
                    }
                    let t = make_tx(&sc.spk, 0, 0xffff_fffe, 1, 0);
                    if let Ok(sat) = sign_real(&d, &w, &t) {
                        if let Ok((wv, s)) = lib.get_satisfaction_mall(&sat) {
                            wit = wv;
                            ss = s.into_bytes();
                        }
                    }
                    spk = sc.spk;
                }
                // mutations
                for _ in 0..src.below(4) {
                    match src.below(8) {
                        0 if !wit.is_empty() => {
                            let i = src.below(wit.len());
                            wit.remove(i);
                        }
                        1 if !wit.is_empty() => {
                            let i = src.below(wit.len());
                            let n = src.below(40);
                            wit[i] = (0..n).map(|_| src.raw() as u8).collect();
                        }
                        2 => wit.insert(src.below(wit.len() + 1), vec![src.raw() as u8; src.below(70)]),
                        3 if !ss.is_empty() => {
                            let i = src.below(ss.len());
                            ss[i] = src.raw() as u8;
                        }
                        4 if !ss.is_empty() => {
                            let i = src.below(ss.len());
                            ss.truncate(i);
                        }
                        5 if !spk.is_empty() => {
                            let i = src.below(spk.len());
                            spk[i] = src.raw() as u8;
                        }
                        6 if !wit.is_empty() => {
                            // corrupt the script / control block (last elements)
                            let i = wit.len() - 1 - src.below(wit.len().min(2));
                            if !wit[i].is_empty() {
                                let j = src.below(wit[i].len());
                                match src.below(3) {
                                    0 => wit[i][j] = src.raw() as u8,
                                    1 => wit[i].truncate(j),
                                    _ => wit[i].insert(j, src.raw() as u8),
                                }
                            }
                        }
                        _ => {
                            let n = src.below(40);
                            spk = (0..n).map(|_| src.raw() as u8).collect();
                        }
                    }
                }
                let seq = *src.pick(&[0u32, 1, 0xffff_fffe, 0xffff_ffff, 0x40_0001, 0x8000_0000]);
                let lock = *src.pick(&[0u32, 1, 499_999_999, 500_000_000, u32::MAX]);
                rep.desc = format!("{} spk={} ss={} wit={}", d.kind(), keys::hex(&spk), keys::hex(&ss), wit.len());
                let before = rep.classes.len();
                interp_target(&spk, &ss, &wit, seq, lock, rep)?;
                if rep.classes.len() > before {
                    rep.nontrivial_by(&(&spk, &ss, &wit, seq, lock));
                }
                Ok(())
            }
            "psbt" => {
                let s = match crate::checks::c14::build(src)? {
                    Some(s) => s,
                    None => return Ok(()),
                };
                let mut p = s.psbt.clone();
                // honest material first (so that the deep code is reached), then corruption
                let ops = crate::checks::c14::gen_ops(src, &s);
                for op in ops.iter().filter(|o| o.is_add()) {
                    let _ = crate::checks::c14::apply_add(&mut p, &s, op);
                }
                let ncor = src.range(0, 4);
                let mut what = Vec::new();
                for _ in 0..ncor {
                    let i = src.below(p.inputs.len());
                    match src.below(16) {
                        0 => {
                            p.inputs[i].witness_utxo = None;
                            what.push("no-witness-utxo");
                        }
                        1 => {
                            p.inputs[i].non_witness_utxo = None;
                            what.push("no-non-witness-utxo");
                        }
                        2 => {
                            // previous transaction with too few outputs for the referenced vout
                            if let Some(tx) = p.inputs[i].non_witness_utxo.clone() {
                                let mut t2 = tx;
                                t2.output.truncate(src.below(2));
                                p.inputs[i].non_witness_utxo = Some(t2);
                                p.inputs[i].witness_utxo = None;
                                what.push("short-prev-tx");
                            }
                        }
                        3 => {
                            p.inputs[i].witness_script = Some(ScriptBuf::from_bytes(vec![0x51]));
                            what.push("wrong-witness-script");
                        }
                        4 => {
                            p.inputs[i].redeem_script = Some(ScriptBuf::from_bytes(vec![0x00, 0x14, 1, 2, 3]));
                            what.push("wrong-redeem-script");
                        }
                        5 => {
                            // high-S (73-byte) signature for an existing key
                            let ks: Vec<bitcoin::PublicKey> = p.inputs[i].partial_sigs.keys().copied().collect();
                            if let Some(k) = ks.first() {
                                let mut sig = p.inputs[i].partial_sigs[k];
                                let c = sig.signature.serialize_compact();
                                let mut sb = [0u8; 32];
                                sb.copy_from_slice(&c[32..]);
                                if let Ok(sk) = secp256k1::SecretKey::from_slice(&sb) {
                                    let mut c2 = c;
                                    c2[32..].copy_from_slice(&sk.negate().secret_bytes());
                                    if let Ok(s2) = secp256k1::ecdsa::Signature::from_compact(&c2) {
                                        sig.signature = s2;
                                        p.inputs[i].partial_sigs.insert(*k, sig);
                                        what.push("high-s-signature");
                                    }
                                }
                            }
                        }
                        6 => {
                            let ks: Vec<bitcoin::PublicKey> = p.inputs[i].partial_sigs.keys().copied().collect();
                            if let Some(k) = ks.first() {
                                let mut sig = p.inputs[i].partial_sigs[k];
                                sig.sighash_type = *src.pick(&[bitcoin::EcdsaSighashType::None, bitcoin::EcdsaSighashType::SinglePlusAnyoneCanPay, bitcoin::EcdsaSighashType::Single]);
                                p.inputs[i].partial_sigs.insert(*k, sig);
                                what.push("other-sighash-type");
                            }
                        }
                        7 => {
                            p.inputs[i].sighash_type = Some(bitcoin::psbt::PsbtSighashType::from_u32(*src.pick(&[0u32, 2, 0x83, 0x41, 0xffff_ffff])));
                            what.push("psbt-sighash-type");
                        }
                        8 => {
                            p.inputs[i].tap_scripts.clear();
                            what.push("no-tap-scripts");
                        }
                        9 => {
                            p.inputs[i].tap_internal_key = Some(keys::u().pks[5].x_only_public_key().0);
                            what.push("wrong-internal-key");
                        }
                        10 => {
                            p.inputs[i].tap_merkle_root = Some(bitcoin::taproot::TapNodeHash::from_byte_array([9; 32]));
                            what.push("wrong-merkle-root");
                        }
                        11 => {
                            p.inputs[i].sha256_preimages.insert(bitcoin::hashes::sha256::Hash::hash(&keys::u().preimages[0]), vec![1, 2, 3]);
                            p.inputs[i].hash160_preimages.insert(bitcoin::hashes::hash160::Hash::hash(&keys::u().preimages[1]), vec![0; 33]);
                            what.push("short-preimage");
                        }
                        12 => {
                            p.inputs[i].final_script_witness = Some(Witness::from_slice(&[vec![1u8, 2, 3]]));
                            what.push("bogus-final-witness");
                        }
                        13 => {
                            p.inputs[i].final_script_sig = Some(ScriptBuf::from_bytes(vec![0x4c]));
                            what.push("bogus-final-scriptsig");
                        }
                        14 => {
                            p.unsigned_tx.input[i].previous_output.vout = *src.pick(&[0u32, 7, u32::MAX]);
                            what.push("other-vout");
                        }
                        _ => {
                            if p.inputs.len() > 1 {
                                p.inputs.pop();
                                what.push("fewer-input-maps");
                            }
                        }
                    }
                }
                let input = format!("{} | corruptions {:?}", s.descs.iter().map(|d| d.print(true)).collect::<Vec<_>>().join(" ; "), what);
                rep.desc = clip(&input);
                psbt_ops(&p, &s.libs, &input)?;
                // raw bytes: serialize, corrupt, deserialize
                if src.chance(1, 3) {
                    let mut raw = p.serialize();
                    for _ in 0..src.range(1, 4) {
                        if !raw.is_empty() {
                            let j = src.below(raw.len());
                            raw[j] = src.raw() as u8;
                        }
                    }
                    if let Ok(q) = Psbt::deserialize(&raw) {
                        rep.class("raw-psbt-accepted");
                        psbt_ops(&q, &s.libs, &format!("raw psbt {}", keys::hex(&raw)))?;
                    }
                }
                rep.nontrivial_by(&input);
                Ok(())
            }
            _ if src.chance(1, 8) => {
                // the key map (what signers query through rust-bitcoin's GetKey): secret keys
                // with and without origin, requests by fingerprint + path of any length and by key
                use bitcoin::bip32::{ChildNumber, Fingerprint};
                use bitcoin::psbt::{GetKey, KeyRequest};
                let secp = Secp256k1::new();
                let n = src.range(1, 3);
                let mut parts = Vec::new();
                for _ in 0..n {
                    let mut t = crate::checks::c10::secret_forms(src);
                    if src.bool() && !t.starts_with('[') {
                        t = format!("[{}/84'/1'/0']{}", keys::master_fingerprint(), t);
                    }
                    parts.push(t);
                }
                let dtext = if parts.len() == 1 { format!("wpkh({})", parts[0]) } else { format!("wsh(multi(1,{}))", parts.join(",")) };
                rep.desc = clip(&dtext);
                let (_, km) = match timed("Descriptor::parse_descriptor", &dtext, || Descriptor::<DescriptorPublicKey>::parse_descriptor(&secp, &dtext))? {
                    Ok(x) => x,
                    Err(_) => return Ok(()),
                };
                rep.class("keymap");
                for _ in 0..12 {
                    let fp = match src.below(3) {
                        0 => Fingerprint::from_str(&keys::master_fingerprint()).unwrap_or_default(),
                        1 => keys::u().accounts[src.below(keys::N_ACCOUNTS)].2.fingerprint(),
                        _ => Fingerprint::from([src.raw() as u8, 1, 2, 3]),
                    };
                    let len = src.below(7);
                    let mut path = Vec::new();
                    for j in 0..len {
                        let v = [84u32, 1, 0, 0, 1, 2, 5][(j + src.below(2)) % 7];
                        path.push(if src.chance(1, 2) && j < 3 { ChildNumber::from_hardened_idx(v).unwrap() } else { ChildNumber::from_normal_idx(v).unwrap() });
                    }
                    let req = KeyRequest::Bip32((fp, path.into()));
                    timed("KeyMap::get_key(Bip32)", &dtext, || km.get_key(req, &secp).is_ok())?;
                }
                let pk = bitcoin::PublicKey::new(keys::u().pks[src.below(8)]);
                timed("KeyMap::get_key(Pubkey)", &dtext, || km.get_key(KeyRequest::Pubkey(pk), &secp).is_ok())?;
                rep.nontrivial_by(&dtext);
                Ok(())
            }
            _ => {
                // plan
                let kind = pick_kind(src);
                let size = src.range(1, 7);
                let d = gen::gen_desc(src, kind, &|ctx| {
                    let mut c = Cfg::new(ctx, size);
                    c.key_style = KeyStyle::Rich;
                    c.xpub_chance = 2;
                    c
                });
                let lib = match glue::desc_via_ctor(&d, glue::Level::Insane, true) {
                    Ok(l) => l,
                    Err(_) => return Ok(()),
                };
                let mut a = Assets::new();
                let mut desc_a = Vec::new();
                for k in d.all_keys() {
                    if !src.chance(2, 3) {
                        continue;
                    }
                    if let Ok(dk) = DK::from_str(&k) {
                        let fp: Fingerprint = if src.chance(1, 6) { Fingerprint::from([1, 2, 3, 4]) } else { dk.master_fingerprint() };
                        let full: Vec<ChildNumber> = dk.full_derivation_path().map(|p| p.into_iter().cloned().collect()).unwrap_or_default();
                        let path: Vec<ChildNumber> = match src.below(6) {
                            0 => vec![],
                            1 => full.iter().take(full.len().saturating_sub(1)).cloned().collect(),
                            2 => {
                                let mut v = full.clone();
                                v.push(ChildNumber::from_normal_idx(7).unwrap());
                                v
                            }
                            3 => vec![ChildNumber::from_hardened_idx(44).unwrap(), ChildNumber::from_normal_idx(0).unwrap()],
                            4 => full.iter().take(full.len().saturating_sub(2)).cloned().collect(),
                            _ => full.clone(),
                        };
                        let can = CanSign {
                            ecdsa: src.bool(),
                            taproot: TaprootCanSign {
                                key_spend: src.bool(),
                                script_spend: match src.below(4) {
                                    0 => TaprootAvailableLeaves::None,
                                    1 => TaprootAvailableLeaves::Single(bitcoin::taproot::TapLeafHash::from_byte_array([3; 32])),
                                    2 => TaprootAvailableLeaves::Many(vec![]),
                                    _ => TaprootAvailableLeaves::Any,
                                },
                                sighash_default: src.bool(),
                            },
                        };
                        desc_a.push(format!("({},{:?})", fp, path.len()));
                        a.keys.insert(((fp, DerivationPath::from(path)), can));
                    }
                }
                for p in keys::u().preimages.iter() {
                    if src.bool() {
                        a.sha256_preimages.insert(bitcoin::hashes::sha256::Hash::hash(p));
                        a.hash160_preimages.insert(bitcoin::hashes::hash160::Hash::hash(p));
                    }
                }
                if src.bool() {
                    a.absolute_timelock = Some(absolute::LockTime::from_consensus(*src.pick(&[0u32, 1, 500_000_000, u32::MAX])));
                }
                if src.bool() {
                    a.relative_timelock = Some(bitcoin::relative::LockTime::from_height(*src.pick(&[0u16, 1, 0xffff])));
                }
                let input = format!("{} | assets {:?}", d.print(true), desc_a);
                rep.desc = clip(&input);
                for mall in [false, true] {
                    let r = timed("into_plan", &input, || if mall { lib.clone().into_plan_mall(&a) } else { lib.clone().into_plan(&a) })?;
                    if let Ok(plan) = r {
                        rep.class("planned");
                        timed("Plan ops", &input, || {
                            let _ = plan.satisfy(&());
                            let _ = plan.satisfy(&YesSat);
                            let _ = (plan.witness_size(), plan.scriptsig_size(), plan.satisfaction_weight(), plan.witness_version());
                            let mut inp = bitcoin::psbt::Input::default();
                            plan.update_psbt_input(&mut inp);
                        })?;
                        rep.nontrivial_by(&(&input, mall));
                    }
                }
                Ok(())
            }
        }
    }
}
