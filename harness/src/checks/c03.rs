//! C03 — non-malleable satisfactions cannot be altered by third parties.

use crate::checks::c01::pick_kind;
use crate::gen::{self, Cfg, DescKind, KeyStyle};
use crate::glue;
use crate::keys;
use crate::mdesc::MDesc;
use crate::oracle::{self, Path};
use crate::refscript::Flags;
use crate::runner::{fail, Check, Failure, Report, Src, Tier};
use crate::search::Budget;

pub struct C03;

fn has_choice(d: &MDesc) -> bool {
    d.nodes().iter().any(|n| {
        let mut f = false;
        n.walk(&mut |x| {
            use crate::mirror::ast::Node::*;
            if matches!(x, OrB(..) | OrC(..) | OrD(..) | OrI(..) | AndOr(..) | Thresh(..) | Multi(..) | MultiA(..) | SortedMulti(..) | SortedMultiA(..)) {
                f = true;
            }
        });
        f
    }) || matches!(d, MDesc::Tr(_, Some(_)))
}

impl Check for C03 {
    fn id(&self) -> &'static str { "C03" }
    fn rule(&self) -> String {
        "case = (descriptor passing the default sanity rules (lanes unique / or-heavy: generated sane by construction; lane lib-sane: drawn from a superset -- repeated keys, or_i / d: before segwit -- and kept when the library calls it sane), world for which the non-malleable satisfier succeeds, entry in {get_satisfaction, into_plan+satisfy}); oracle = exhaustive lazy search of ALL accepting witnesses of every script of the descriptor over the adversary alphabet (elements of the original witness, high-S twins of its ECDSA signatures, empty, 0x01, 0x02, 0x00, 0x80, 32 zero bytes, another 32-byte string, every preimage of every hash in the script, every public key, 33/65-byte junk) under standardness flags with symbolic signatures; required: the accepting set is exactly {library witness}. Non-trivial = script has a disjunction/threshold/multisig AND the alphabet contains a preimage or key not used in the witness; distinct by (text, world, entry).".into()
    }
    fn assumptions(&self) -> Vec<String> {
        vec![
            "adversary alphabet is finite; argued complete for the opcodes Miniscript emits (each consumed element is tested for truthiness, as signature, as 32-byte preimage, as key, or by SIZE)".into(),
            "signatures not visible in the witness are unavailable to the adversary; nLockTime/nSequence are fixed (signatures commit to them)".into(),
            "search bounds: witness <= 14 items, 5e5 nodes; truncated searches are inconclusive".into(),
        ]
    }
    fn lanes(&self, tier: Tier) -> Vec<(&'static str, usize, usize)> {
        match tier {
            Tier::Quick => vec![("unique", 12_000, 400), ("or-heavy", 16_000, 500), ("lib-sane", 8_000, 400)],
            Tier::Thorough => vec![("unique", 400_000, 500), ("or-heavy", 500_000, 600), ("lib-sane", 200_000, 500)],
        }
    }
    fn run_case(&self, lane: &str, src: &mut Src, rep: &mut Report) -> Result<(), Failure> {
        let mut kind = pick_kind(src);
        if kind == DescKind::Bare && src.chance(2, 3) {
            kind = DescKind::Wsh;
        }
        // lane or-heavy: many nested disjunctions whose branches mix signatures with (chains of)
        // hashes and locks, spent by a signer who holds everything -- the situations in which
        // the non-malleable chooser has real alternatives to rank
        let heavy = lane == "or-heavy";
        // lane lib-sane: candidates from a superset of the sane scripts (keys drawn with
        // repetition from a small pool -- also across sorted multisigs --, or_i / d: in
        // pre-segwit scripts); "sane" is then purely the LIBRARY's verdict
        let libsane = lane == "lib-sane";
        if libsane {
            kind = *src.pick(&[DescKind::Sh, DescKind::Sh, DescKind::Bare, DescKind::Wsh, DescKind::Wsh, DescKind::ShWsh, DescKind::TrTree]);
        }
        if heavy && !matches!(kind, DescKind::Wsh | DescKind::ShWsh | DescKind::Sh | DescKind::TrTree) {
            kind = if src.bool() { DescKind::Wsh } else { DescKind::TrTree };
        }
        let size = if heavy { src.range(4, 10) } else { src.range(1, 7) };
        let d = gen::gen_desc(src, kind, &|ctx| {
            let mut c = Cfg::sane(ctx, size);
            c.key_style = KeyStyle::Rich;
            c.allow_uncompressed = true;
            if heavy {
                c.or_boost = *[1u32, 4, 4][size % 3..].first().unwrap();
                c.thresh_boost = *[6u32, 1, 3][size % 3..].first().unwrap();
                c.top_props = crate::mirror::spec::S | crate::mirror::spec::M;
                c.top_tries = 6;
                c.leaf_w = [5, 5, 2];
                c.key_style = KeyStyle::Hex;
            }
            if libsane {
                c.legacy_restrict = false;
                c.distinct_keys = size % 2 == 0;
                c.key_style = KeyStyle::Hex;
                c.or_boost = 3;
                c.max_multi_n = 3;
                c.big_multi_n = 0;
            }
            c
        });
        let d = if libsane && size % 2 == 1 && src.bool() && d.all_keys().len() >= 2 && !matches!(d, MDesc::Tr(..)) {
            // one key copied over another position (any two fragments, sorted multisigs included)
            let n = d.all_keys().len();
            let (i, j) = (src.below(n), src.below(n));
            let ks = d.all_keys();
            let mut pos = 0usize;
            d.map_keys(&mut |k| {
                let out = if pos == j { ks[i].clone() } else { k.to_string() };
                pos += 1;
                out
            })
        } else {
            d
        };
        if libsane {
            let ks = d.all_keys();
            let mut uniq = ks.clone();
            uniq.sort();
            uniq.dedup();
            rep.class(if uniq.len() < ks.len() { "lib-sane:repeated-keys" } else { "lib-sane:distinct-keys" });
            if matches!(d.ctx(), crate::mirror::spec::Ctx::Legacy | crate::mirror::spec::Ctx::Bare) && d.nodes().iter().any(|n| crate::mirror::analysis::has(n, &|x| matches!(x, crate::mirror::ast::Node::OrI(..) | crate::mirror::ast::Node::DupIf(..)))) {
                rep.class("lib-sane:pre-segwit-minimalif-fragment");
            }
        }
        let d = if !heavy && !libsane && src.chance(1, 150) {
            // probe of a listed finding: the same leaf script at two depths of a tree
            let (a, b2, i) = (keys::key_xonly(src.below(4)), keys::key_xonly(4 + src.below(4)), keys::key_xonly(8 + src.below(4)));
            let pk = |k: &str| crate::mirror::ast::Node::Check(Box::new(crate::mirror::ast::Node::PkK(k.to_string())));
            use crate::mdesc::MTree;
            crate::mdesc::MDesc::Tr(i, Some(MTree::Branch(Box::new(MTree::Leaf(pk(&a))), Box::new(MTree::Branch(Box::new(MTree::Leaf(pk(&b2))), Box::new(MTree::Leaf(pk(&a))))))))
        } else if !heavy && !libsane && src.chance(1, 150) {
            // probe of a listed finding: one x-only key written in its two compressed encodings
            // (02X / 03X) counts as two keys in the repeated-key rule
            let c = keys::key_compressed(src.below(8));
            let flipped = format!("{}{}", if c.starts_with("02") { "03" } else { "02" }, &c[2..]);
            let pk = |k: &str| crate::mirror::ast::Node::Check(Box::new(crate::mirror::ast::Node::PkK(k.to_string())));
            if src.chance(1, 3) {
                // pre-segwit: the compressed and the uncompressed serialization of one key
                let ki = src.below(8);
                let (c, u) = (keys::key_compressed(ki), keys::key_uncompressed(ki));
                crate::mdesc::MDesc::Sh(crate::mirror::ast::Node::OrD(Box::new(pk(&c)), Box::new(pk(&u))))
            } else {
                let i = keys::key_xonly(8 + src.below(4));
                let body = if src.bool() { crate::mirror::ast::Node::OrD(Box::new(pk(&c)), Box::new(pk(&flipped))) } else { crate::mirror::ast::Node::OrI(Box::new(pk(&flipped)), Box::new(pk(&c))) };
                crate::mdesc::MDesc::Tr(i, Some(crate::mdesc::MTree::Leaf(body)))
            }
        } else {
            d
        };
        let two_forms = {
            // two different key texts that are one key in the script
            let ctx = d.ctx();
            let ks = d.all_keys();
            let mut seen: Vec<(Vec<u8>, String)> = Vec::new();
            let mut hit = false;
            for k in ks {
                if let Ok(kb) = crate::mirror::encode::key_bytes(&k, ctx) {
                    let canon = if ctx == crate::mirror::spec::Ctx::Tap { kb.clone() } else { keys::compressed_of(&kb).unwrap_or(kb.clone()) };
                    if seen.iter().any(|(c, t)| *c == canon && *t != k) {
                        hit = true;
                    }
                    seen.push((canon, k));
                }
            }
            hit
        };
        let sugar = src.bool();
        let text = d.print(sugar);
        let lib = match glue::desc_via_str(&d, sugar) {
            Ok(l) => l,
            Err(_) => {
                rep.class("rejected-by-library");
                return Ok(());
            }
        };
        if !glue::is_sane(&d) {
            rep.class("not-sane");
            return Ok(());
        }
        if libsane {
            rep.class("lib-sane:sane");
        }
        let mut world = if heavy && src.chance(2, 3) { gen::gen_full_world(src, &d) } else { gen::gen_world(src, &d) };
        let mut drop_internal: Option<[u8; 32]> = None;
        if heavy && src.chance(3, 4) {
            // mostly without the internal key: otherwise the key path (cheapest) hides the tree
            if let crate::mdesc::MDesc::Tr(ik, Some(_)) = &d {
                if let Ok(kb) = crate::mirror::encode::key_bytes(ik, crate::mirror::spec::Ctx::Tap) {
                    drop_internal = keys::xonly_of(&kb);
                }
            }
        }
        if let Some(x) = drop_internal {
            world.keys.remove(&x);
        }
        // hold most keys, so that the satisfier usually succeeds
        if src.chance(2, 3) {
            for k in d.all_keys() {
                if src.chance(3, 4) {
                    if let Ok(kb) = crate::mirror::encode::key_bytes(&k, d.ctx()) {
                        if let Some(x) = keys::xonly_of(&kb) {
                            world.keys.insert(x);
                        }
                    }
                }
            }
        }
        if let Some(x) = drop_internal {
            world.keys.remove(&x);
        }
        let entry = src.below(2);
        rep.desc = format!("{} | {} | entry={}", text, world.describe(), entry);
        let us = oracle::units(&d).map_err(|e| Failure { sig: "mirror-encode".into(), msg: e })?;
        let sym = oracle::symbolic(&d, &us, &world).map_err(|e| Failure { sig: "symbolic".into(), msg: e })?;
        let res = if entry == 0 {
            lib.get_satisfaction(&sym.sat).map_err(|e| e.to_string())
        } else {
            match lib.clone().into_plan(&sym.sat) {
                Ok(p) => p.satisfy(&sym.sat).map_err(|e| e.to_string()),
                Err(_) => Err("no plan".into()),
            }
        };
        rep.class(format!("kind={}", d.kind()));
        let (wit, ss) = match res {
            Ok(x) => x,
            Err(_) => {
                rep.class("no-satisfaction");
                return Ok(());
            }
        };
        let (path, w) = match oracle::extract_stack(&d, &us, &wit, ss.as_bytes()) {
            Ok(x) => x,
            Err(e) => return fail(&format!("malformed-satisfaction/{}", d.kind()), e),
        };
        if path == Path::KeyPath {
            rep.class("key-path");
        }
        // most second witnesses are found within a few thousand runs: two thirds of the cases
        // search with a small budget (more cases per second), one third with the full one
        let budget = if src.chance(2, 3) { Budget { max_len: 12, max_nodes: 40_000 } } else { Budget { max_len: 14, max_nodes: 500_000 } };
        let mut truncated = false;
        let mut unused_material = false;
        for (i, u) in us.iter().enumerate() {
            let alpha = oracle::adversary_alphabet(u, &w);
            if alpha.iter().any(|a| a.len() >= 32 && !w.contains(a) && a != &oracle::ZERO32.to_vec() && a[0] != 0x11 && a[0] != 0x22 && a[0] != 0x33) {
                unused_material = true;
            }
            let r = oracle::search_unit(u, &Flags::STANDARD, &alpha, &sym, budget, 3);
            rep.evals += r.nodes as u64;
            truncated |= r.truncated;
            for acc in &r.accepting {
                let mut same = path == Path::Script(i) && acc == &w;
                // the same leaf script at two positions of a taproot tree with the same Merkle
                // path (e.g. twin siblings) gives a byte-identical witness: not a second witness
                if !same && acc == &w {
                    if let (Path::Script(pi), crate::mdesc::MDesc::Tr(_, Some(t))) = (&path, &d) {
                        if us[*pi].script == u.script {
                            if let Ok(model) = t.to_model() {
                                let ls = model.leaves();
                                if let (Some(a), Some(b2)) = (ls.get(*pi), ls.get(i)) {
                                    if a.1 == b2.1 && a.2 == b2.2 {
                                        same = true;
                                    }
                                }
                            }
                        }
                    }
                }
                if !same {
                    // the descriptor itself lists one leaf script at two positions: the third
                    // party re-uses the witness stack with the other position's control block
                    let dup_leaf = acc == &w && matches!(&path, Path::Script(pi) if *pi != i && us[*pi].script == u.script);
                    return fail(
                        &if dup_leaf { "malleable/duplicate-leaf-script".to_string() } else if two_forms { "malleable/one-key-two-encodings".to_string() } else { format!("malleable/{}", crate::checks::c02::frag_signature(&d)) },
                        format!(
                            "a third party can replace the witness: library stack {:?} (path {:?}); alternative accepted stack {:?} on script #{}",
                            w.iter().map(|x| keys::hex(x)).collect::<Vec<_>>(),
                            path,
                            acc.iter().map(|x| keys::hex(x)).collect::<Vec<_>>(),
                            i
                        ),
                    );
                }
            }
            if path == Path::Script(i) && !r.truncated && !r.accepting.iter().any(|a| a == &w) {
                return fail(
                    &format!("own-witness-rejected/{}", d.kind()),
                    format!("the library's own witness {:?} is not accepted under standardness rules", w.iter().map(|x| keys::hex(x)).collect::<Vec<_>>()),
                );
            }
        }
        if truncated {
            rep.inconclusive = true;
        } else if has_choice(&d) && unused_material {
            rep.nontrivial_by(&(&text, world.describe(), entry));
        }
        rep.class("satisfied");
        Ok(())
    }
}
