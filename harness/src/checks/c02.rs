//! C02 — satisfiable with the caller's assets implies a satisfaction is found.

use crate::checks::c01::pick_kind;
use crate::gen::{self, Cfg, DescKind, KeyStyle};
use crate::glue::{self, Level};
use crate::keys;
use crate::mdesc::MDesc;
use crate::oracle::{self, Truth};
use crate::runner::{fail, Check, Failure, Report, Src, Tier};
use crate::search::Budget;
use miniscript::{BareCtx, Legacy, Segwitv0, Tap};

pub struct C02;

fn has_choice(d: &MDesc) -> bool {
    d.nodes().iter().any(|n| {
        let mut f = false;
        n.walk(&mut |x| {
            use crate::mirror::ast::Node::*;
            if matches!(x, OrB(..) | OrC(..) | OrD(..) | OrI(..) | AndOr(..) | Thresh(..)) {
                f = true;
            }
        });
        f
    }) || matches!(d, MDesc::Tr(_, Some(_)))
}

impl Check for C02 {
    fn id(&self) -> &'static str { "C02" }
    fn rule(&self) -> String {
        "case = (descriptor or bare miniscript, world); ground truth = lazy exhaustive witness search over the holder's alphabet (empty, 1, a signature per held key, script keys, held preimages, 32 zero bytes) on the independently encoded script under standardness flags, symbolic signatures. Lane `mall`: any script the context's consensus parameters accept, malleable entry points. Lane `sane`: scripts accepted under default sanity rules, worlds holding every preimage, non-malleable entry points. lane `raw-pkh`: pre-taproot scripts with pk_h fragments are DECODED from their script (raw key hashes) and satisfied by a satisfier that knows the key behind a hash only together with a signature; truth = a canonical satisfaction (specification table, `mirror::canon`) exists in which every pk_h is satisfied with a held signature. Non-trivial = ground truth says satisfiable AND the script contains a disjunction/threshold (a path had to be chosen); distinct by (text, world, entry).".into()
    }
    fn assumptions(&self) -> Vec<String> {
        vec![
            "alphabet completeness: every element a Miniscript opcode inspects is tested for truthiness, as signature, as 32-byte preimage or as key".into(),
            "search bounds: witness <= 14 items, 2e5 nodes; truncated negative answers are inconclusive".into(),
            "only realisable worlds (one nLockTime, one nSequence, tx version 2)".into(),
        ]
    }
    fn lanes(&self, tier: Tier) -> Vec<(&'static str, usize, usize)> {
        match tier {
            Tier::Quick => vec![("mall", 5000, 400), ("sane", 5000, 400), ("sane-or-heavy", 5000, 500), ("raw-pkh", 60_000, 300)],
            Tier::Thorough => vec![("mall", 300_000, 500), ("sane", 300_000, 500), ("sane-or-heavy", 300_000, 600), ("raw-pkh", 2_000_000, 400)],
        }
    }
    fn run_case(&self, lane: &str, src: &mut Src, rep: &mut Report) -> Result<(), Failure> {
        if lane == "raw-pkh" {
            return raw_pkh_case(src, rep);
        }
        // lane sane-or-heavy: nested disjunctions / thresholds of signature branches with a signer
        // who holds (almost) everything: holding MORE must never make funds unspendable
        let heavy = lane == "sane-or-heavy";
        let sane = lane == "sane" || heavy;
        let mut kind = pick_kind(src);
        if sane && kind == DescKind::Bare {
            kind = DescKind::Wsh;
        }
        if heavy && !matches!(kind, DescKind::Wsh | DescKind::ShWsh | DescKind::Sh | DescKind::TrTree) {
            kind = if src.bool() { DescKind::Wsh } else { DescKind::TrTree };
        }
        let size = if heavy { src.range(3, 9) } else { src.range(1, 7) };
        let d = gen::gen_desc(src, kind, &|ctx| {
            let mut c = if sane { Cfg::sane(ctx, size) } else { Cfg::new(ctx, size) };
            c.key_style = KeyStyle::Rich;
            c.allow_uncompressed = true;
            c.max_thresh_n = 4;
            if heavy {
                c.or_boost = *[1u32, 4, 4][size % 3..].first().unwrap();
                c.thresh_boost = *[6u32, 1, 3][size % 3..].first().unwrap();
                c.top_props = crate::mirror::spec::S | crate::mirror::spec::M;
                c.top_tries = 6;
                c.leaf_w = [8, 1, 2];
                c.key_style = KeyStyle::Hex;
            }
            c
        });
        let sugar = src.bool();
        let text = d.print(sugar);
        let lib = if sane { glue::desc_via_str(&d, sugar) } else { glue::desc_via_ctor(&d, Level::Insane, sugar) };
        let lib = match lib {
            Ok(l) => l,
            Err(_) => {
                rep.class("rejected-by-library");
                return Ok(());
            }
        };
        if sane && !glue::is_sane(&d) {
            rep.class("not-sane");
            return Ok(());
        }
        let mut world = if heavy && src.chance(2, 3) { gen::gen_full_world(src, &d) } else { gen::gen_world(src, &d) };
        let mut drop_internal: Option<[u8; 32]> = None;
        if heavy && src.chance(3, 4) {
            // mostly without the internal key: otherwise the key path (cheapest) hides the tree
            if let crate::mdesc::MDesc::Tr(ik, Some(_)) = &d {
                if let Ok(kb) = crate::mirror::encode::key_bytes(ik, crate::mirror::spec::Ctx::Tap) {
                    drop_internal = keys::xonly_of(&kb);
                }
            }
        }
        if let Some(x) = drop_internal {
            world.keys.remove(&x);
        }
        if sane {
            world.preimages = keys::u().preimages.iter().copied().collect();
        }
        let entry = src.below(3);
        rep.desc = format!("{} | {} | entry={}", text, world.describe(), entry);
        let us = oracle::units(&d).map_err(|e| Failure { sig: "mirror-encode".into(), msg: e })?;
        let sym = oracle::symbolic(&d, &us, &world).map_err(|e| Failure { sig: "symbolic".into(), msg: e })?;
        let (truth, nodes) = oracle::satisfiable(&d, &us, &world, &sym, Budget::DEFAULT);
        rep.evals = 1;
        rep.class(format!("kind={}", d.kind()));
        rep.class(format!("truth={:?}", truth));
        let _ = nodes;
        // library answer
        let (lib_ok, entry_name): (bool, String) = match entry {
            0 => {
                if sane {
                    (lib.get_satisfaction(&sym.sat).is_ok(), "get_satisfaction".into())
                } else {
                    (lib.get_satisfaction_mall(&sym.sat).is_ok(), "get_satisfaction_mall".into())
                }
            }
            1 => {
                if sane {
                    (lib.clone().into_plan(&sym.sat).is_ok(), "into_plan".into())
                } else {
                    (lib.clone().into_plan_mall(&sym.sat).is_ok(), "into_plan_mall".into())
                }
            }
            _ => {
                // miniscript level: all script units (for tr: any leaf)
                let mut ok = false;
                let mut applicable = false;
                for u in &us {
                    if matches!(d, MDesc::Pkh(_) | MDesc::Wpkh(_) | MDesc::ShWpkh(_)) {
                        break;
                    }
                    applicable = true;
                    let l = if sane { Level::Sane } else { Level::Insane };
                    macro_rules! go {
                        ($c:ty) => {{
                            match glue::ms_from_node::<$c>(&u.node, l, sugar) {
                                Ok(ms) => {
                                    if sane {
                                        ms.satisfy(&sym.sat).is_ok()
                                    } else {
                                        ms.satisfy_malleable(&sym.sat).is_ok()
                                    }
                                }
                                Err(_) => false,
                            }
                        }};
                    }
                    let r = match u.ctx {
                        crate::mirror::spec::Ctx::Bare => go!(BareCtx),
                        crate::mirror::spec::Ctx::Legacy => go!(Legacy),
                        crate::mirror::spec::Ctx::Segwitv0 => go!(Segwitv0),
                        crate::mirror::spec::Ctx::Tap => go!(Tap),
                    };
                    ok |= r;
                }
                if !applicable {
                    (lib.get_satisfaction_mall(&sym.sat).is_ok(), "get_satisfaction_mall".into())
                } else if let MDesc::Tr(k, _) = &d {
                    // key path is not visible at the miniscript level
                    let kb = crate::mirror::encode::key_bytes(k, crate::mirror::spec::Ctx::Tap).unwrap_or_default();
                    if world.has_key_bytes(&kb) {
                        (true, "ms.satisfy(skipped: key path)".into())
                    } else {
                        (ok, "ms.satisfy".into())
                    }
                } else {
                    (ok, "ms.satisfy".into())
                }
            }
        };
        rep.class(format!("entry={}", entry_name));
        match (truth, lib_ok) {
            (Truth::Yes, false) => {
                // which fragment kinds are involved: stable signature = entry + the set of
                // wrapper/fragment names on the script
                fail(
                    &format!("unsat/{}/{}", if sane { "nonmall" } else { "mall" }, frag_signature(&d)),
                    format!("a witness from the caller's assets exists but {} found none", entry_name),
                )
            }
            (Truth::Unknown, _) => {
                rep.inconclusive = true;
                Ok(())
            }
            (Truth::No, true) => fail(
                &format!("lib-sat-oracle-unsat/{}", d.kind()),
                format!("{} succeeded but no witness over the holder alphabet is accepted", entry_name),
            ),
            (Truth::Yes, true) => {
                if has_choice(&d) {
                    rep.nontrivial_by(&(&text, world.describe(), entry));
                    rep.class("satisfiable-with-choice");
                }
                Ok(())
            }
            (Truth::No, false) => {
                rep.class("unsatisfiable-world");
                Ok(())
            }
        }
    }
}

/// Sorted set of fragment names that can make a difference for satisfiability.
pub fn frag_signature(d: &MDesc) -> String {
    let mut s = std::collections::BTreeSet::new();
    for n in d.nodes() {
        n.walk(&mut |x| {
            s.insert(x.frag_name());
        });
    }
    let v: Vec<&str> = s.into_iter().collect();
    v.join("+")
}


/// Lane `raw-pkh`: the script is DECODED (pk_h becomes a raw key hash) and satisfied by a satisfier
/// that knows the key behind a hash only together with a signature (what a PSBT with partial
/// signatures and no key origins offers).  Truth: a canonical satisfaction of the specification's
/// table exists in which every pk_h is satisfied with a held signature (never dissatisfied),
/// every other signature is held, all preimages are known and the locks are met.
fn raw_pkh_case(src: &mut Src, rep: &mut Report) -> Result<(), Failure> {
    use crate::mirror::canon;
    use crate::mirror::spec::Ctx;
    let ctx = *src.pick(&[Ctx::Segwitv0, Ctx::Legacy, Ctx::Bare]);
    let size = src.range(2, 9);
    let mut cfg = Cfg::new(ctx, size);
    cfg.key_style = KeyStyle::Hex;
    cfg.allow_uncompressed = ctx != Ctx::Segwitv0;
    cfg.leaf_w = [8, 1, 2];
    cfg.consistent_locks = true;
    cfg.distinct_keys = src.bool();
    let node = gen::gen_ms(src, &cfg);
    if !crate::mirror::analysis::has(&node, &|x| matches!(x, crate::mirror::ast::Node::PkH(_))) {
        rep.class("raw-pkh:no-pkh");
        return Ok(());
    }
    rep.desc = format!("{:?} {}", ctx, crate::mirror::ast::print(&node, true));
    let unit = oracle::unit_of(&node, ctx).map_err(|e| Failure { sig: "mirror-encode".into(), msg: e })?;
    // holdings: a subset of the keys; all preimages; locks at the script's maxima
    let mut world = crate::world::World { keys: Default::default(), preimages: keys::u().preimages.iter().copied().collect(), lock_time: 0, sequence: 0xffff_fffe, tx_version: 2 };
    let p_key = src.range(1, 4);
    let mut all_kb: Vec<Vec<u8>> = Vec::new();
    for k in node.keys() {
        if let Ok(kb) = crate::mirror::encode::key_bytes(&k, ctx) {
            if src.chance(p_key, 4) {
                if let Some(x) = keys::xonly_of(&kb) {
                    world.keys.insert(x);
                }
            }
            all_kb.push(kb);
        }
    }
    let (afters, olders) = gen::locks_of(&[&node]);
    if let Some(a) = afters.iter().max() {
        world.lock_time = *a;
    }
    if let Some(o) = gen::sequence_meeting(&olders) {
        world.sequence = o;
    }
    let (mut sat, _checker) = crate::world::sign_symbolic(&world, &all_kb, &[], None);
    sat.no_raw_pkh_pk = true;
    let sigf = |kb: &[u8]| -> Option<Vec<u8>> { sat.ecdsa.get(kb).map(|s| s.to_vec()) };
    let env = canon::Env { ctx, sig: &sigf, cap: 16, pkh_dissat: false };
    let truth = match canon::canon(&node, &env) {
        Some(sd) => !sd.sat.is_empty(),
        None => return Ok(()),
    };
    rep.class(format!("raw-pkh:truth={}", truth));
    let script = bitcoin::ScriptBuf::from_bytes(unit.script.clone());
    macro_rules! go {
        ($c:ty) => {{
            let mut p = <$c as miniscript::ScriptContext>::CONSENSUS;
            p.allow_raw_pkh = true;
            p.allow_or_i = true;
            p.allow_dup_if = true;
            match miniscript::Miniscript::<bitcoin::PublicKey, $c>::decode_with_validation_params(&script, &p) {
                Ok(ms) => Some(crate::runner::guard("satisfy_malleable", || ms.satisfy_malleable(&sat))?.is_ok()),
                Err(_) => None,
            }
        }};
    }
    let lib_ok = match ctx {
        Ctx::Bare => go!(miniscript::BareCtx),
        Ctx::Legacy => go!(miniscript::Legacy),
        _ => go!(miniscript::Segwitv0),
    };
    match lib_ok {
        None => {
            rep.class("raw-pkh:not-decoded");
            Ok(())
        }
        Some(ok) => {
            if truth && !ok {
                return fail(&format!("unsat/raw-pkh/{}", frag_signature_node(&node)), format!("a canonical satisfaction with the held signatures exists (every pk_h satisfied) but satisfy_malleable on the decoded script finds none: {}", rep.desc));
            }
            if truth {
                rep.nontrivial_by(&rep.desc.clone());
            }
            Ok(())
        }
    }
}

fn frag_signature_node(n: &crate::mirror::ast::Node) -> String {
    let mut names: Vec<&'static str> = Vec::new();
    n.walk(&mut |x| {
        let f = x.frag_name();
        if !names.contains(&f) {
            names.push(f);
        }
    });
    names.sort();
    names.join("+")
}
