//! C06 — static types predict what fragments do when executed.

use crate::gen::{self, Cfg, KeyStyle};
use crate::keys;
use crate::mirror::ast::{self, Node};
use crate::mirror::encode::key_bytes;
use crate::mirror::spec::{self, Ctx, T};
use crate::oracle::{self, Unit};
use crate::refscript::{cast_to_bool, Flags, ScriptError, SigChecker, SigVersion, SymbolicChecker};
use crate::runner::{fail, Check, Failure, Report, Src, Tier};
use crate::search::{explore, Budget};
use crate::world::World;
use bitcoin::hashes::Hash;
use bitcoin::taproot::TapLeafHash;
use miniscript::{BareCtx, Legacy, Miniscript, Segwitv0, Tap, ValidationParams};
use std::collections::BTreeSet;

pub struct C06;

/// Checker with all time locks forced satisfied / unsatisfied.
struct LockOverride<'a> {
    inner: &'a SymbolicChecker,
    locks_ok: bool,
}
impl<'a> SigChecker for LockOverride<'a> {
    fn check_ecdsa(&self, sig: &[u8], pk: &[u8], sc: &[u8], sv: SigVersion) -> bool { self.inner.check_ecdsa(sig, pk, sc, sv) }
    fn check_schnorr(&self, sig: &[u8], pk: &[u8], sv: SigVersion, leaf: Option<TapLeafHash>, annex: Option<&[u8]>) -> Result<bool, ScriptError> {
        self.inner.check_schnorr(sig, pk, sv, leaf, annex)
    }
    fn check_locktime(&self, _n: i64) -> bool { self.locks_ok }
    fn check_sequence(&self, _n: i64) -> bool { self.locks_ok }
}

fn lib_type(text: &str, ctx: Ctx) -> Result<T, String> {
    let p = ValidationParams::MAX;
    macro_rules! go {
        ($c:ty) => {
            Miniscript::<String, $c>::from_str_with_validation_params(text, &p).map(|m| spec::from_lib(&m.ty)).map_err(|e| e.to_string())
        };
    }
    match ctx {
        Ctx::Bare => go!(BareCtx),
        Ctx::Legacy => go!(Legacy),
        Ctx::Segwitv0 => go!(Segwitv0),
        Ctx::Tap => go!(Tap),
    }
}

const SENT: [u8; 5] = [0x5e, 0x11, 0x7e, 0x4e, 0x01];

struct RunInfo {
    inputs: Vec<Vec<u8>>,
    /// None for V; the result element otherwise
    result: Option<Vec<u8>>,
    sig_free: bool,
    preimage_free: bool,
}

pub fn check_fragment(node: &Node, ctx: Ctx, rep: &mut Report) -> Result<bool, Failure> {
    let text = ast::print(node, true);
    let t = match lib_type(&text, ctx) {
        Ok(t) => t,
        Err(_) => {
            rep.class("rejected-by-library");
            return Ok(false);
        }
    };
    check_typed(node, ctx, t, rep)
}

/// The value the PSBT finalizer works on: decode(encode(M)) with the key hashes substituted back.
/// Returns its AST and the type the library carries for it.
fn derived<C: miniscript::ScriptContext>(node: &Node) -> Option<(Node, T)>
where
    C::Key: std::str::FromStr + miniscript::FromStrKey + miniscript::ToPublicKey,
{
    use miniscript::ToPublicKey;
    let ms = Miniscript::<C::Key, C>::from_str_with_validation_params(&ast::print(node, true), &C::CONSENSUS).ok()?;
    let dec = Miniscript::<C::Key, C>::decode_consensus(&ms.encode()).ok()?;
    let mut map = std::collections::BTreeMap::new();
    for k in ms.iter_pk() {
        map.insert(k.to_pubkeyhash(C::sig_type()), k);
    }
    let sub = dec.substitute_raw_pkh(&map);
    Some((ast::from_lib(&sub), spec::from_lib(&sub.ty)))
}

pub fn check_typed(node: &Node, ctx: Ctx, t: T, rep: &mut Report) -> Result<bool, Failure> {
    let text = ast::print(node, true);
    let unit: Unit = oracle::unit_of(node, ctx).map_err(|e| Failure { sig: "mirror-encode".into(), msg: e })?;
    // all keys can sign: the table of valid signatures covers every key of the fragment
    let mut world = World { keys: BTreeSet::new(), preimages: keys::u().preimages.iter().copied().collect(), lock_time: 0, sequence: 0, tx_version: 2 };
    let mut key_bytes_list: Vec<Vec<u8>> = Vec::new();
    for k in node.keys() {
        if let Ok(kb) = key_bytes(&k, ctx) {
            if let Some(x) = keys::xonly_of(&kb) {
                world.keys.insert(x);
            }
            if !key_bytes_list.contains(&kb) {
                key_bytes_list.push(kb);
            }
        }
    }
    let d = crate::mdesc::MDesc::Wsh(node.clone()); // only used to enumerate keys; ctx comes from the unit
    let sym = {
        // build symbolic table directly from the unit
        let mut ecdsa = Vec::new();
        let mut leafk = Vec::new();
        for kb in &key_bytes_list {
            match unit.leaf {
                Some(lh) => {
                    let mut x = [0u8; 32];
                    x.copy_from_slice(kb);
                    leafk.push((x, lh));
                }
                None => ecdsa.push(kb.clone()),
            }
        }
        let (sat, checker) = crate::world::sign_symbolic(&world, &ecdsa, &leafk, None);
        oracle::Sym { sat, checker }
    };
    let _ = d;
    // type alphabet
    let mut alpha: Vec<Vec<u8>> = vec![vec![], vec![1], vec![2], vec![0]];
    let mut valid_sigs: Vec<Vec<u8>> = Vec::new();
    for kb in &key_bytes_list {
        match unit.leaf {
            Some(lh) => {
                let mut x = [0u8; 32];
                x.copy_from_slice(kb);
                if let Some(s) = sym.sat.tap_leaf.get(&(x, lh)) {
                    valid_sigs.push(s.to_vec());
                }
            }
            None => {
                if let Some(s) = sym.sat.ecdsa.get(kb) {
                    valid_sigs.push(s.to_vec());
                }
            }
        }
        alpha.push(kb.clone());
    }
    alpha.extend(valid_sigs.iter().cloned());
    // an invalid but well-formed signature: a signature by a key outside the fragment
    match unit.leaf {
        Some(_) => {
            if let Some(s) = crate::world::sym_schnorr(&keys::u().pks[11].x_only_public_key().0.serialize(), Some(&[9u8; 32])) {
                alpha.push(s.to_vec());
            }
        }
        None => {
            if let Some(s) = crate::world::sym_ecdsa(&keys::u().pks[11].serialize()) {
                alpha.push(s.to_vec());
            }
        }
    }
    let mut right_preimages: Vec<Vec<u8>> = Vec::new();
    node.walk(&mut |n| match n {
        Node::Sha256(h) | Node::Hash256(h) | Node::Ripemd160(h) | Node::Hash160(h) => {
            if let Ok(hb) = keys::unhex(h) {
                if let Some(p) = keys::preimage_for_digest(&hb) {
                    if !right_preimages.contains(&p.to_vec()) {
                        right_preimages.push(p.to_vec());
                    }
                }
            }
        }
        _ => {}
    });
    alpha.extend(right_preimages.iter().cloned());
    alpha.push(oracle::ZERO32.to_vec());
    alpha.push(vec![0x22; 33]);
    let mut a2: Vec<Vec<u8>> = Vec::new();
    for a in alpha {
        if !a2.contains(&a) {
            a2.push(a);
        }
    }
    let alpha = a2;

    let base = t & spec::BASES;
    let is_w = base == spec::W;
    let prefix: Vec<Vec<u8>> = if is_w { vec![SENT.to_vec()] } else { vec![] };
    let flags = Flags::STANDARD;
    let budget = Budget { max_len: 8, max_nodes: 150_000 };
    let leaf = unit.leaf.map(TapLeafHash::from_byte_array);
    let frag = node.frag_name();

    let mut truncated = false;
    let mut n_sat = 0usize;
    let mut n_dissat = 0usize;
    let mut first_fail: Option<Failure> = None;

    for locks_ok in [true, false] {
        let chk = LockOverride { inner: &sym.checker, locks_ok };
        let mut runs: Vec<RunInfo> = Vec::new();
        let mut shape_fail: Option<String> = None;
        let ex = explore(&unit.script, unit.sv, &flags, &alpha, &chk, leaf, budget, false, &prefix, &mut |run| {
            if run.result.is_err() {
                return true;
            }
            let n_in = run.inputs.len() - prefix.len();
            let inputs: Vec<Vec<u8>> = run.inputs[..n_in].to_vec();
            let st = run.stack;
            let result: Option<Vec<u8>> = match base {
                spec::B => {
                    if st.len() != 1 {
                        shape_fail = Some(format!("B fragment left {} elements (inputs {:?})", st.len(), hexes(&inputs)));
                        return false;
                    }
                    Some(st[0].clone())
                }
                spec::V => {
                    if !st.is_empty() {
                        shape_fail = Some(format!("V fragment left {} elements (inputs {:?})", st.len(), hexes(&inputs)));
                        return false;
                    }
                    None
                }
                spec::K => {
                    if st.len() != 1 || !(st[0].len() == 33 || st[0].len() == 65 || st[0].len() == 32) || !key_bytes_list.contains(&st[0]) {
                        shape_fail = Some(format!("K fragment did not leave exactly one of its keys: {:?}", hexes(st)));
                        return false;
                    }
                    Some(st[0].clone())
                }
                _ => {
                    if st.len() != 2 || !st.contains(&SENT.to_vec()) {
                        shape_fail = Some(format!("W fragment did not preserve the extra element: {:?}", hexes(st)));
                        return false;
                    }
                    let r = if st[0] == SENT.to_vec() { st[1].clone() } else { st[0].clone() };
                    Some(r)
                }
            };
            let sig_free = !inputs.iter().any(|i| valid_sigs.contains(i));
            let preimage_free = !inputs.iter().any(|i| right_preimages.contains(i));
            runs.push(RunInfo { inputs, result, sig_free, preimage_free });
            true
        });
        truncated |= ex.truncated;
        rep.evals += ex.nodes as u64;
        if let Some(m) = shape_fail {
            first_fail = Some(Failure { sig: format!("shape/{}/{}", spec::show(base), frag), msg: m });
            break;
        }
        let is_sat = |r: &RunInfo| match &r.result {
            None => true,
            Some(v) => base == spec::K || cast_to_bool(v),
        };
        let is_dissat = |r: &RunInfo| match &r.result {
            None => false,
            Some(v) => base != spec::K && !cast_to_bool(v),
        };
        let mut viol = |letter: char, msg: String| {
            if first_fail.is_none() {
                first_fail = Some(Failure { sig: format!("claim/{}/{}", letter, frag), msg });
            }
        };
        if locks_ok {
            n_sat = runs.iter().filter(|r| is_sat(r)).count();
            n_dissat = runs.iter().filter(|r| is_dissat(r)).count();
            for r in &runs {
                // a K fragment's argument counts include the signature its `c:` will consume;
                // they are checked on the enclosing c: fragment
                if base == spec::K {
                    continue;
                }
                if t & spec::Z != 0 && !r.inputs.is_empty() {
                    viol('z', format!("typed z but a run consumes {:?}", hexes(&r.inputs)));
                }
                if t & spec::O != 0 && r.inputs.len() != 1 {
                    viol('o', format!("typed o but a run consumes {} elements {:?}", r.inputs.len(), hexes(&r.inputs)));
                }
                if base != spec::K {
                    if is_dissat(r) {
                        if let Some(v) = &r.result {
                            if !v.is_empty() {
                                viol('B', format!("dissatisfaction leaves a non-canonical zero {:?} (inputs {:?})", keys::hex(v), hexes(&r.inputs)));
                            }
                        }
                    }
                    if is_sat(r) && base != spec::V {
                        if t & spec::U != 0 && r.result.as_deref() != Some(&[1u8][..]) {
                            viol('u', format!("typed u but a satisfaction leaves {:?} (inputs {:?})", r.result.as_ref().map(|x| keys::hex(x)), hexes(&r.inputs)));
                        }
                    }
                    if is_sat(r) && t & spec::N != 0 && !is_w {
                        if r.inputs.is_empty() || r.inputs.last().unwrap().is_empty() {
                            viol('n', format!("typed n but a satisfaction has inputs {:?}", hexes(&r.inputs)));
                        }
                    }
                    if is_sat(r) && t & spec::S != 0 && r.sig_free {
                        viol('s', format!("typed s but satisfied without a signature by {:?}", hexes(&r.inputs)));
                    }
                    if is_dissat(r) && t & spec::F != 0 && r.sig_free {
                        viol('f', format!("typed f but dissatisfied without a signature by {:?}", hexes(&r.inputs)));
                    }
                }
            }
            // `e` is stated under the fragment's non-malleability requirement, so it is only a
            // claim about execution for fragments that are also typed `m`
            if base != spec::K && t & spec::E != 0 && t & spec::M != 0 && !ex.truncated {
                let n = runs.iter().filter(|r| is_dissat(r) && r.sig_free).count();
                if n != 1 {
                    let ex2: Vec<Vec<String>> = runs.iter().filter(|r| is_dissat(r) && r.sig_free).take(3).map(|r| hexes(&r.inputs)).collect();
                    viol('e', format!("typed e but there are {} signature-free dissatisfactions, e.g. {:?}", n, ex2));
                }
            }
        } else if base != spec::K && t & spec::D != 0 && !ex.truncated {
            // unconditional dissatisfaction: no signature, no preimage, no time lock
            if !runs.iter().any(|r| is_dissat(r) && r.sig_free && r.preimage_free && r.result.as_deref() == Some(&[][..])) {
                viol('d', "typed d but no signature-free, preimage-free, lock-free input leaves exactly 0".to_string());
            }
        }
        // sentinel re-run: the same inputs on top of two extra elements behave identically
        if locks_ok && first_fail.is_none() {
            for r in runs.iter().take(24) {
                let mut init: Vec<Vec<u8>> = vec![vec![0xaa; 3], vec![0xbb; 2]];
                init.extend(r.inputs.iter().cloned());
                init.extend(prefix.iter().cloned());
                let mut trace = crate::refscript::Trace::default();
                let mut exec = crate::refscript::ExecData { leaf, annex: None, validation_weight_left: 1_000_000 };
                let res = crate::refscript::eval_script(&mut init, &unit.script, &flags, &chk, unit.sv, &mut exec, &mut trace);
                let ok = res.is_ok() && init.len() >= 2 && init[0] == vec![0xaa; 3] && init[1] == vec![0xbb; 2];
                if !ok {
                    first_fail = Some(Failure {
                        sig: format!("shape/below/{}", frag),
                        msg: format!("fragment disturbs elements below its inputs {:?}: {:?} -> {:?}", hexes(&r.inputs), res, hexes(&init)),
                    });
                    break;
                }
            }
        }
        if first_fail.is_some() {
            break;
        }
    }
    if let Some(f) = first_fail {
        return Err(Failure { sig: f.sig, msg: format!("{} [{:?} {} typed {}]", f.msg, ctx, text, spec::show(t)) });
    }
    if truncated {
        rep.inconclusive = true;
    }
    rep.class(format!("base={}", spec::show(base)));
    let nontrivial = node.n_nodes() >= 2 && n_sat >= 1 && (n_dissat >= 1 || (t & spec::D == 0 && t & spec::F != 0));
    Ok(nontrivial)
}

fn hexes(v: &[Vec<u8>]) -> Vec<String> { v.iter().map(|x| keys::hex(x)).collect() }

impl Check for C06 {
    fn id(&self) -> &'static str { "C06" }
    fn rule(&self) -> String {
        "case = well-typed fragment of any base type (B,V,K,W) with <= 6 nodes in a random context (lane frag), or such a fragment after 1-2 random local edits -- re-wrap, un-wrap, other combinator, swapped children -- kept whenever the LIBRARY still types it (lane loose), or the value decode(encode(M)).substitute_raw_pkh(keys) with the type that value carries, or sub-fragments of policy-compiler output with the types the compiler attached (lane derived); the independently encoded script is run by the reference interpreter on ALL input stacks found by lazy enumeration over the type alphabet (empty, 1, 2, 0x00, valid signature per key, a well-formed invalid signature, every key, right preimages, 32 zero bytes, 33-byte junk), once with all time locks satisfied and once with all unsatisfied; the library's stored type (z,o,n,u,d,f,s,e and base shape) is checked against every non-aborting run; every run is repeated on top of two extra elements. Non-trivial = >= 2 nodes, at least one satisfaction and (if the type allows) one dissatisfaction; distinct by (context, text).".into()
    }
    fn assumptions(&self) -> Vec<String> {
        vec![
            "n is checked as `top input of a satisfaction is not the empty vector` (what j: relies on)".into(),
            "d:/or_i are not generated in Bare/Legacy (banned there by the context's consensus parameters)".into(),
            "inputs <= 8 elements, 1.5e5 nodes per exploration; truncated explorations do not assert e/d".into(),
        ]
    }
    fn lanes(&self, tier: Tier) -> Vec<(&'static str, usize, usize)> {
        match tier {
            Tier::Quick => vec![("frag", 12_000, 200), ("loose", 12_000, 240), ("derived", 6_000, 200)],
            Tier::Thorough => vec![("frag", 400_000, 300), ("loose", 400_000, 340), ("derived", 120_000, 300)],
        }
    }
    fn run_case(&self, lane: &str, src: &mut Src, rep: &mut Report) -> Result<(), Failure> {
        let ctx = *src.pick(&[Ctx::Segwitv0, Ctx::Tap, Ctx::Legacy, Ctx::Bare]);
        let size = src.range(1, 6);
        let mut cfg = Cfg::new(ctx, size);
        cfg.key_style = KeyStyle::Hex;
        cfg.allow_uncompressed = true;
        cfg.max_multi_n = 3;
        cfg.max_thresh_n = 3;
        let want = if lane == "derived" { gen::W_B } else { *src.pick(&[gen::W_B, gen::W_B, gen::W_B, gen::W_V, gen::W_K, gen::W_W]) };
        let mut st = gen::State::new();
        if lane == "derived" {
            cfg.or_boost = if src.bool() { 4 } else { 1 };
        }
        let mut node = gen::gen(src, &cfg, &mut st, want, size);
        if lane == "derived" && src.chance(1, 3) {
            // sub-fragments of what the policy compiler builds (it attaches types through its own
            // cast tables): stored type against execution
            use std::str::FromStr;
            let cctx = if ctx == Ctx::Bare { Ctx::Segwitv0 } else { ctx };
            let pcfg = gen::PolCfg { max_leaves: 6, allow_const: false, distinct_keys: true, key_hex_ctx: cctx, named_keys: false, consistent_locks: true, max_weight: 5, allow_thresh: true, binary: true };
            let pol = gen::gen_policy(src, &pcfg);
            let text = pol.print();
            let c = match miniscript::policy::Concrete::<crate::glue::DK>::from_str(&text) {
                Ok(c) => c,
                Err(_) => return Ok(()),
            };
            macro_rules! subs {
                ($c:ty) => {{
                    match c.compile::<$c>() {
                        Ok(ms) => ms.iter().map(|m| (ast::from_lib(m), spec::from_lib(&m.ty))).collect::<Vec<_>>(),
                        Err(_) => Vec::new(),
                    }
                }};
            }
            let all: Vec<(Node, T)> = match cctx {
                Ctx::Legacy => subs!(Legacy),
                Ctx::Tap => subs!(Tap),
                _ => subs!(Segwitv0),
            };
            let cands: Vec<&(Node, T)> = all.iter().filter(|(n, _)| n.n_nodes() >= 2 && n.n_nodes() <= 8).collect();
            if cands.is_empty() {
                rep.class("derived:compiled-nothing");
                return Ok(());
            }
            rep.class("derived:compiled");
            for _ in 0..2 {
                let (n2, t2) = *src.pick(&cands);
                rep.desc = format!("{:?} sub-fragment {} of compile({})", cctx, ast::print(n2, true), text);
                if check_typed(n2, cctx, *t2, rep)? {
                    rep.nontrivial_by(&(cctx as u8, ast::print(n2, true)));
                }
            }
            return Ok(());
        }
        if lane == "derived" {
            // the library value obtained by decoding the script and substituting the key hashes
            // back (what the finalizer satisfies): its stored type against its own execution
            let got = match ctx {
                Ctx::Bare => derived::<BareCtx>(&node),
                Ctx::Legacy => derived::<Legacy>(&node),
                Ctx::Segwitv0 => derived::<Segwitv0>(&node),
                Ctx::Tap => derived::<Tap>(&node),
            };
            let (n2, t2) = match got {
                Some(x) => x,
                None => {
                    rep.class("derived:not-decodable");
                    return Ok(());
                }
            };
            rep.class(if n2 == node { "derived:same-ast" } else { "derived:other-ast" });
            rep.desc = format!("{:?} decode+substitute_raw_pkh of {} = {}", ctx, ast::print(&node, true), ast::print(&n2, true));
            if check_typed(&n2, ctx, t2, rep)? {
                rep.nontrivial_by(&(ctx as u8, &rep.desc.clone()));
            }
            return Ok(());
        }
        if lane == "loose" {
            // whatever the LIBRARY types (not what the specification tables type): local edits of
            // a typed tree; the library's claims about the result are held against execution
            node = gen::perturb(src, &cfg, &node);
            if node.n_nodes() > 9 {
                return Ok(());
            }
            // or_i and d: rely on MINIMALIF, which pre-segwit outputs do not have: those contexts
            // ban the two fragments (C12); the type rules are not meant to hold for them there
            if matches!(ctx, Ctx::Bare | Ctx::Legacy) && crate::mirror::analysis::has(&node, &|x| matches!(x, Node::OrI(..) | Node::DupIf(..))) {
                rep.class("loose:skipped-minimalif-fragment");
                return Ok(());
            }
            rep.class(if crate::mirror::spec::type_of(&node, ctx).is_ok() { "loose:spec-typed" } else { "loose:spec-untyped" });
        }
        rep.desc = format!("{:?} {}", ctx, ast::print(&node, true));
        rep.class(format!("ctx={:?}", ctx));
        if check_fragment(&node, ctx, rep)? {
            rep.nontrivial_by(&(ctx as u8, &rep.desc.clone()));
        }
        Ok(())
    }
}
