//! C07 — the lifted policy is exactly the script's spending condition.

use crate::mdesc::MDesc;
use crate::checks::c01::pick_kind;
use crate::gen::{self, Cfg, KeyStyle};
use crate::glue::{self, Level};
use crate::keys;
use crate::oracle::{self, Truth};
use crate::poleval::{self, MPol};
use crate::runner::{fail, Check, Failure, Report, Src, Tier};
use crate::search::Budget;
use crate::world::World;
use miniscript::policy::Liftable;
use std::collections::BTreeSet;

pub struct C07;

impl Check for C07 {
    fn id(&self) -> &'static str { "C07" }
    fn rule(&self) -> String {
        "case = liftable descriptor (all output types, taproot trees with key path) x a family of worlds: every subset of the script's keys and hash preimages when there are <= 6 such atoms (else 32 sampled subsets), combined with nLockTime/nSequence values on both sides of the script's locks; lane derived: the policy lifted from decode(encode(M)).substitute_raw_pkh(keys); lane ctor: trees of any base type (B, K, V, W) offered to Descriptor::new_wsh / new_sh / new_sh_wsh / new_bare through from_ast: whatever is accepted is compared like the rest; for each world: own evaluation of the Semantic policy returned by lift() vs. ground truth from lazy witness search over the holder alphabet on the independently encoded script (tr: key path signature held or some leaf satisfiable). Non-trivial = policy has >= 2 distinct atoms and both truth values were observed across the worlds; distinct by (descriptor text).".into()
    }
    fn assumptions(&self) -> Vec<String> {
        vec!["worlds are realisable (one nLockTime, one nSequence, version 2)".into(), "truncated searches are inconclusive".into()]
    }
    fn lanes(&self, tier: Tier) -> Vec<(&'static str, usize, usize)> {
        match tier {
            Tier::Quick => vec![("lift", 1200, 400), ("tr-mixed", 500, 400), ("consts", 700, 400), ("derived", 500, 400), ("ctor", 500, 400)],
            Tier::Thorough => vec![("lift", 50_000, 500), ("tr-mixed", 20_000, 500), ("consts", 30_000, 500), ("derived", 20_000, 500), ("ctor", 20_000, 500)],
        }
    }
    fn run_case(&self, lane: &str, src: &mut Src, rep: &mut Report) -> Result<(), Failure> {
        // lane tr-mixed: taproot trees whose leaves are full of time locks of both units (a leaf
        // that combines them cannot be lifted; the tree's policy must then not silently omit it);
        // lane consts: consensus-valid scripts with many 0/1 constants (or_i(1,X), andor(X,Y,1),
        // thresh over constants: the policy normaliser has to fold them correctly)
        let mut kind = pick_kind(src);
        let size = src.range(1, 7);
        let mut insane = src.chance(1, 3);
        if lane == "derived" || lane == "ctor" {
            use crate::mirror::spec::Ctx;
            let ctx = *src.pick(&[Ctx::Segwitv0, Ctx::Segwitv0, Ctx::Legacy, Ctx::Bare]);
            let mut c = Cfg::new(ctx, size);
            c.key_style = KeyStyle::Hex;
            c.allow_uncompressed = ctx != Ctx::Segwitv0;
            c.max_thresh_n = 3;
            c.or_boost = if src.bool() { 4 } else { 1 };
            let wi = if lane == "derived" { 0 } else { src.below(5) };
            let want = [gen::W_B, gen::W_K, gen::W_V, gen::W_W, gen::W_K][wi];
            let mut st = gen::State::new();
            let node = gen::gen(src, &c, &mut st, want, size);
            let shwsh = src.bool();
            let d = match ctx {
                Ctx::Segwitv0 if shwsh => MDesc::ShWsh(node.clone()),
                Ctx::Segwitv0 => MDesc::Wsh(node.clone()),
                Ctx::Legacy => MDesc::Sh(node.clone()),
                _ => MDesc::Bare(node.clone()),
            };
            let text = d.print(true);
            if lane == "derived" {
                // the policy of the value obtained by decoding the script and substituting the
                // key hashes back, against what the script itself does
                let got = match ctx {
                    Ctx::Segwitv0 => derived_lift::<miniscript::Segwitv0>(&node).map(|r| r.map(|p| MPol::from_semantic(&p))),
                    Ctx::Legacy => derived_lift::<miniscript::Legacy>(&node).map(|r| r.map(|p| MPol::from_semantic(&p))),
                    _ => derived_lift::<miniscript::BareCtx>(&node).map(|r| r.map(|p| MPol::from_semantic(&p))),
                };
                return match got {
                    None => {
                        rep.class("rejected-by-library");
                        Ok(())
                    }
                    Some(Err(_)) => {
                        rep.class("not-liftable");
                        Ok(())
                    }
                    Some(Ok(mp)) => compare(&d, &format!("derived {}", text), mp, src, rep),
                };
            }
            // lane ctor: whatever the programmatic constructors accept (any base type offered)
            macro_rules! build {
                ($c:ty, $f:expr) => {
                    match glue::ms_from_node_ast::<$c>(&node) {
                        Ok(ms) => $f(ms).map_err(|e: miniscript::Error| e.to_string()),
                        Err(e) => Err(e),
                    }
                };
            }
            let lib: Result<miniscript::Descriptor<glue::DK>, String> = match &d {
                MDesc::ShWsh(_) => build!(miniscript::Segwitv0, miniscript::Descriptor::new_sh_wsh),
                MDesc::Wsh(_) => build!(miniscript::Segwitv0, miniscript::Descriptor::new_wsh),
                MDesc::Sh(_) => build!(miniscript::Legacy, miniscript::Descriptor::new_sh),
                _ => build!(miniscript::BareCtx, miniscript::Descriptor::new_bare),
            };
            rep.class(format!("ctor:base={}", ["B", "K", "V", "W", "K"][wi]));
            let lib = match lib {
                Ok(l) => l,
                Err(_) => {
                    rep.class("rejected-by-library");
                    return Ok(());
                }
            };
            rep.class("ctor:accepted");
            return match lib.lift() {
                Ok(p) => compare(&d, &format!("ctor {}", text), MPol::from_semantic(&p), src, rep),
                Err(_) => {
                    rep.class("not-liftable");
                    Ok(())
                }
            };
        }
        if lane == "tr-mixed" {
            kind = gen::DescKind::TrTree;
            insane = true;
        }
        if lane == "consts" {
            insane = true;
            if matches!(kind, gen::DescKind::Pkh | gen::DescKind::Wpkh | gen::DescKind::ShWpkh | gen::DescKind::TrKey | gen::DescKind::Bare) {
                kind = gen::DescKind::Wsh;
            }
        }
        let d = gen::gen_desc(src, kind, &|ctx| {
            let mut c = if insane { Cfg::new(ctx, size) } else { Cfg::sane(ctx, size) };
            c.key_style = KeyStyle::Rich;
            c.allow_uncompressed = true;
            c.max_thresh_n = 3;
            if lane == "tr-mixed" {
                c.leaf_w = [4, 1, 6];
                c.allow_const = false;
                c.alternate_units = true;
                c.size = c.size.max(4) * 2;
                c.key_style = KeyStyle::Hex;
            }
            if lane == "consts" {
                c.leaf_w = [4, 1, 5];
                c.const_chance = 7;
                c.key_style = KeyStyle::Hex;
            }
            c
        });
        let sugar = src.bool();
        let text = d.print(sugar);
        let lib = match glue::desc_via_ctor(&d, Level::Insane, sugar) {
            Ok(l) => l,
            Err(_) => {
                rep.class("rejected-by-library");
                return Ok(());
            }
        };
        let pol = match lib.lift() {
            Ok(p) => p,
            Err(_) => {
                rep.class("not-liftable");
                return Ok(());
            }
        };
        compare(&d, &text, MPol::from_semantic(&pol), src, rep)
    }
}

/// decode(encode(M)).substitute_raw_pkh(keys) (the value the finalizer and psbt users lift).
fn derived_lift<C: miniscript::ScriptContext>(node: &crate::mirror::ast::Node) -> Option<Result<miniscript::policy::Semantic<C::Key>, ()>>
where
    C::Key: std::str::FromStr + miniscript::FromStrKey + miniscript::ToPublicKey,
{
    use miniscript::ToPublicKey;
    let ms = miniscript::Miniscript::<C::Key, C>::from_str_with_validation_params(&crate::mirror::ast::print(node, true), &C::CONSENSUS).ok()?;
    let dec = miniscript::Miniscript::<C::Key, C>::decode_consensus(&ms.encode()).ok()?;
    let mut map = std::collections::BTreeMap::new();
    for k in ms.iter_pk() {
        map.insert(k.to_pubkeyhash(C::sig_type()), k);
    }
    let sub = dec.substitute_raw_pkh(&map);
    Some(sub.lift().map_err(|_| ()))
}

fn compare(d: &MDesc, text: &str, mp: MPol, src: &mut Src, rep: &mut Report) -> Result<(), Failure> {
    {
        let pol = mp.print();
        rep.desc = format!("{} => {}", text, pol);
        let us = oracle::units(d).map_err(|e| Failure { sig: "mirror-encode".into(), msg: e })?;
        // atoms from the *script* (not from the policy): keys and preimages
        let ctx = d.ctx();
        let mut key_atoms: Vec<[u8; 32]> = Vec::new();
        for k in d.all_keys() {
            if let Ok(kb) = crate::mirror::encode::key_bytes(&k, ctx) {
                if let Some(x) = keys::xonly_of(&kb) {
                    if !key_atoms.contains(&x) {
                        key_atoms.push(x);
                    }
                }
            }
        }
        let mut pre_atoms: Vec<[u8; 32]> = Vec::new();
        for n in d.nodes() {
            n.walk(&mut |x| {
                use crate::mirror::ast::Node::*;
                if let Sha256(h) | Hash256(h) | Ripemd160(h) | Hash160(h) = x {
                    if let Ok(hb) = keys::unhex(h) {
                        if let Some(p) = keys::preimage_for_digest(&hb) {
                            if !pre_atoms.contains(&p) {
                                pre_atoms.push(p);
                            }
                        }
                    }
                }
            });
        }
        let (afters, olders) = gen::locks_of(&d.nodes());
        let n_atoms = key_atoms.len() + pre_atoms.len();
        let subsets: Vec<u64> = if n_atoms <= 6 {
            (0..(1u64 << n_atoms)).collect()
        } else {
            let mut v = vec![0u64, (1u64 << n_atoms) - 1];
            for _ in 0..30 {
                v.push(((src.u32() as u64) << 32 | src.u32() as u64) & ((1u64 << n_atoms) - 1));
            }
            v
        };
        // lock contexts
        let mut lock_ctx: Vec<(u32, u32)> = vec![(0, 0xffff_fffe)];
        for a in &afters {
            for lt in [*a, a.wrapping_sub(1), a.wrapping_add(1), if *a < 500_000_000 { 500_000_000 } else { 499_999_999 }] {
                lock_ctx.push((lt, 0xffff_fffe));
            }
            lock_ctx.push((*a, 0xffff_ffff));
        }
        for o in &olders {
            for sq in [*o, o.wrapping_sub(1), o.wrapping_add(1), *o ^ 0x40_0000, *o | 0x8000_0000, 0xffff_ffff] {
                lock_ctx.push((0, sq));
            }
        }
        if !afters.is_empty() && !olders.is_empty() {
            lock_ctx.push((*afters.iter().max().unwrap(), *olders.iter().max().unwrap()));
            lock_ctx.push((0x7fff_fff0, 0xffff));
            lock_ctx.push((499_999_999, 0x40_ffff));
        }
        lock_ctx.truncate(12);
        // keep the product bounded
        let max_worlds = 96usize;
        let mut seen_true = false;
        let mut seen_false = false;
        let mut count = 0usize;
        'outer: for (li, (lt, sq)) in lock_ctx.iter().enumerate() {
            for (si, s) in subsets.iter().enumerate() {
                // with many combinations, sample deterministically
                if subsets.len() * lock_ctx.len() > max_worlds && (si * 7 + li * 13) % ((subsets.len() * lock_ctx.len()) / max_worlds + 1) != 0 {
                    continue;
                }
                let mut w = World { keys: BTreeSet::new(), preimages: BTreeSet::new(), lock_time: *lt, sequence: *sq, tx_version: 2 };
                for (i, k) in key_atoms.iter().enumerate() {
                    if s >> i & 1 == 1 {
                        w.keys.insert(*k);
                    }
                }
                for (i, p) in pre_atoms.iter().enumerate() {
                    if s >> (key_atoms.len() + i) & 1 == 1 {
                        w.preimages.insert(*p);
                    }
                }
                let sym = oracle::symbolic(d, &us, &w).map_err(|e| Failure { sig: "symbolic".into(), msg: e })?;
                let (truth, nodes) = oracle::satisfiable(d, &us, &w, &sym, Budget { max_len: 14, max_nodes: 100_000 });
                rep.evals += 1 + nodes as u64 / 1000;
                count += 1;
                let pv = poleval::eval_world(&mp, &w);
                match truth {
                    Truth::Unknown => {
                        rep.inconclusive = true;
                    }
                    Truth::Yes if !pv => {
                        return fail(
                            &format!("policy-hides-path/{}", crate::checks::c02::frag_signature(d)),
                            format!("world [{}] can spend, but the lifted policy {} evaluates to false", w.describe(), pol),
                        );
                    }
                    Truth::No if pv => {
                        return fail(
                            &format!("policy-invents-path/{}", crate::checks::c02::frag_signature(d)),
                            format!("world [{}] cannot spend, but the lifted policy {} evaluates to true", w.describe(), pol),
                        );
                    }
                    Truth::Yes => seen_true = true,
                    Truth::No => seen_false = true,
                }
                if count >= max_worlds {
                    break 'outer;
                }
            }
        }
        rep.class(format!("kind={}", d.kind()));
        if poleval::atoms(&mp).len() >= 2 && seen_true && seen_false {
            rep.nontrivial_by(&text.to_string());
        }
        Ok(())
    }
}
