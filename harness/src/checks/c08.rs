//! C08 — compiled policies keep their meaning and are sane in the target context.

use crate::gen::{self, PolCfg};
use crate::glue::{self, DK};
use crate::keys;
use crate::mdesc::MDesc;
use crate::mirror::ast::{self, Node};
use crate::mirror::spec::Ctx;
use crate::oracle::{self, Truth};
use crate::poleval::{self, atoms, eval_assign, Atom, MPol};
use crate::runner::{fail, Check, Failure, Report, Src, Tier};
use crate::search::Budget;
use crate::world::World;
use miniscript::policy::concrete::DescriptorCtx;
use miniscript::policy::{Concrete, Liftable};
use miniscript::{BareCtx, Descriptor, Legacy, Miniscript, ScriptContext, Segwitv0, Tap};
use std::collections::BTreeSet;
use std::str::FromStr;

pub struct C08;

fn unspendable() -> String { keys::key_compressed(11) }

fn equivalent_modulo(p: &MPol, q: &MPol, dead: &Option<String>) -> Option<String> {
    let mut ats = atoms(p);
    for a in atoms(q) {
        if !ats.contains(&a) {
            ats.push(a);
        }
    }
    if ats.len() > 14 {
        return None;
    }
    for m in 0..(1u32 << ats.len()) {
        let truth = |a: &Atom| {
            if let (Atom::Key(k), Some(d)) = (a, dead) {
                if k == d {
                    return false;
                }
            }
            ats.iter().position(|x| x == a).map(|i| (m >> i) & 1 == 1).unwrap_or(false)
        };
        if eval_assign(p, &truth) != eval_assign(q, &truth) {
            let on: Vec<String> = ats.iter().filter(|x| truth(x)).map(|x| format!("{:?}", x)).collect();
            return Some(format!("under {{{}}} the policy is {} but the output is {}", on.join(","), eval_assign(p, &truth), eval_assign(q, &truth)));
        }
    }
    None
}

/// Checks on one compiled miniscript.
fn check_ms<C: ScriptContext>(ms: &Miniscript<DK, C>, what: &str) -> Result<(), Failure> {
    if let Err(e) = ms.validate(&C::SANE) {
        return fail(&format!("not-sane/{}/{}", what, sig_of_validation(&e)), format!("compiler output {} fails the default sanity rules of its context: {}", ms, e));
    }
    if !ms.ty.mall.signed {
        return fail(&format!("sigless/{}", what), format!("compiler output {} has a path without signature", ms));
    }
    if !ms.ty.mall.non_malleable {
        return fail(&format!("malleable/{}", what), format!("compiler output {} is malleable", ms));
    }
    // stored type / extra data == bottom-up rebuild
    for sub in ms.iter() {
        match Miniscript::<DK, C>::from_ast(sub.node.clone()) {
            Ok(re) => {
                if re.ty != sub.ty {
                    return fail(&format!("stored-type/{}/{}", what, ast::from_lib(sub).frag_name()), format!("node {} carries type {:?} but from_ast computes {:?}", sub, sub.ty, re.ty));
                }
                if re.ext != sub.ext {
                    return fail(&format!("stored-ext/{}/{}", what, ast::from_lib(sub).frag_name()), format!("node {} carries ext {:?} but from_ast computes {:?}", sub, sub.ext, re.ext));
                }
            }
            Err(e) => return fail(&format!("from-ast-rejects/{}", what), format!("from_ast rejects compiler-produced node {}: {}", sub, e)),
        }
    }
    // resource limits of the target context, from the specification's satisfaction table (own
    // recursion, `mirror::satsize`): the costliest canonical satisfaction must fit
    {
        let node = ast::from_lib(ms);
        let ctx = match C::name_str() {
            "Legacy/p2sh" => Some(Ctx::Legacy),
            "Segwitv0" => Some(Ctx::Segwitv0),
            "TapscriptCtx" => Some(Ctx::Tap),
            _ => None,
        };
        if let Some(ctx) = ctx {
            if let Some(crate::mirror::satsize::SD { sat: Some(c), .. }) = crate::mirror::satsize::sizes(&node, ctx) {
                let over = match ctx {
                    Ctx::Legacy if c.ssig > 1650 => Some(format!("its costliest satisfaction needs a {}-byte scriptSig (standard limit 1650)", c.ssig)),
                    Ctx::Segwitv0 if c.elems > 100 => Some(format!("its costliest satisfaction has {} witness elements (standard limit 100)", c.elems)),
                    Ctx::Tap if c.elems > 1000 => Some(format!("its costliest satisfaction has {} witness elements (stack limit 1000)", c.elems)),
                    _ => None,
                };
                if let Some(o) = over {
                    return fail(&format!("resource-limit/{}", what), format!("compiler output {}: {}", ms, o));
                }
            }
            if let Ok(sc) = crate::mirror::encode::encode(&node, ctx) {
                let lim = match ctx {
                    Ctx::Legacy => 520,
                    Ctx::Segwitv0 => 3600,
                    _ => usize::MAX,
                };
                if sc.len() > lim {
                    return fail(&format!("resource-limit/{}", what), format!("compiler output {} encodes to {} bytes (limit {})", ms, sc.len(), lim));
                }
                if ctx != Ctx::Tap {
                    if let Some(ops) = crate::mirror::satsize::count_ops(&sc) {
                        // (non-executed-branch independent part only: every opcode counts)
                        if ops > 201 {
                            return fail(&format!("resource-limit/{}", what), format!("compiler output {} has {} counted opcodes (limit 201)", ms, ops));
                        }
                    }
                }
            }
        }
    }
    // re-parse under the default rules
    let s = ms.to_string();
    match Miniscript::<DK, C>::from_str(&s) {
        Ok(back) => {
            if ast::from_lib(&back) != ast::from_lib(ms) {
                return fail(&format!("reparse-differs/{}", what), format!("{} re-parses to a different AST {}", s, back));
            }
        }
        Err(e) => {
            return fail(&format!("reparse-fails/{}/{}", what, err_class(&e)), format!("compiler output {} does not re-parse under the default rules of its context: {}", s, e));
        }
    }
    Ok(())
}

fn nest_and(items: &[String]) -> String {
    // right-nested binary conjunction (the policy language's and() is binary)
    match items.len() {
        0 => "1".to_string(),
        1 => items[0].clone(),
        _ => format!("and({},{})", items[0], nest_and(&items[1..])),
    }
}

fn sig_of_validation(e: &miniscript::ValidationError) -> String {
    let s = format!("{:?}", e);
    s.split(|c| c == '(' || c == ' ' || c == '{').next().unwrap_or("?").to_string()
}
fn err_class(e: &miniscript::Error) -> String {
    match e {
        miniscript::Error::Validation(v) => sig_of_validation(v),
        other => {
            let s = format!("{:?}", other);
            s.split(|c| c == '(' || c == ' ' || c == '{').next().unwrap_or("?").to_string()
        }
    }
}

fn check_desc_ms(d: &Descriptor<DK>, what: &str) -> Result<(), Failure> {
    use miniscript::descriptor::ShInner;
    match d {
        Descriptor::Bare(b) => {
            // bare outputs: only the standard templates (pk, pkh, multisig with at most 3 keys)
            if let Some(v) = crate::mirror::analysis::bare_template_violation(&ast::from_lib(b.as_inner())) {
                return fail(&format!("bare-non-standard/{}", what), format!("compiled bare descriptor {} is not a standard template: {}", d, v));
            }
            check_ms::<BareCtx>(b.as_inner(), what)
        }
        Descriptor::Wsh(w) => check_ms::<Segwitv0>(w.as_inner(), what),
        Descriptor::Sh(s) => match s.as_inner() {
            ShInner::Wsh(w) => check_ms::<Segwitv0>(w.as_inner(), what),
            ShInner::Ms(ms) => check_ms::<Legacy>(ms, what),
            _ => Ok(()),
        },
        Descriptor::Tr(tr) => {
            for l in tr.leaves() {
                check_ms::<Tap>(l.miniscript(), what)?;
            }
            Ok(())
        }
        _ => Ok(()),
    }
}

fn script_level(d: &MDesc, p: &MPol, dead: &Option<String>, src: &mut Src, rep: &mut Report, what: &str) -> Result<(), Failure> {
    let us = oracle::units(d).map_err(|e| Failure { sig: "mirror-encode".into(), msg: e })?;
    let ctx = d.ctx();
    let all_keys: Vec<String> = {
        let mut v = Vec::new();
        p.walk(&mut |x| {
            if let MPol::Key(k) = x {
                if !v.contains(k) {
                    v.push(k.clone());
                }
            }
        });
        v
    };
    let mut afters = Vec::new();
    let mut olders = Vec::new();
    p.walk(&mut |x| match x {
        MPol::After(t) => afters.push(*t),
        MPol::Older(t) => olders.push(*t),
        _ => {}
    });
    for _ in 0..6 {
        let mut w = World { keys: BTreeSet::new(), preimages: BTreeSet::new(), lock_time: 0, sequence: 0xffff_fffe, tx_version: 2 };
        let pk = src.range(1, 3);
        for k in &all_keys {
            if Some(k) == dead.as_ref() {
                continue;
            }
            if src.chance(pk, 4) {
                if let Ok(kb) = crate::mirror::encode::key_bytes(k, ctx) {
                    if let Some(x) = keys::xonly_of(&kb) {
                        w.keys.insert(x);
                    }
                }
            }
        }
        for i in 0..keys::N_PREIMAGES {
            if src.bool() {
                w.preimages.insert(keys::u().preimages[i]);
            }
        }
        if !afters.is_empty() && src.chance(2, 3) {
            let a = *src.pick(&afters);
            w.lock_time = *src.pick(&[a, a.wrapping_sub(1), a + 1]);
        }
        if !olders.is_empty() && src.chance(2, 3) {
            let o = *src.pick(&olders);
            w.sequence = *src.pick(&[o, o.wrapping_sub(1), o + 1]);
        }
        let sym = oracle::symbolic(d, &us, &w).map_err(|e| Failure { sig: "symbolic".into(), msg: e })?;
        let (truth, _) = oracle::satisfiable(d, &us, &w, &sym, Budget { max_len: 14, max_nodes: 150_000 });
        rep.evals += 1;
        // policy truth in this world; keys compared by x-only identity
        let pv = eval_assign(p, &|a| match a {
            Atom::Key(k) if Some(k) == dead.as_ref() => false,
            other => poleval::atom_in_world(other, &w),
        });
        match truth {
            Truth::Unknown => rep.inconclusive = true,
            Truth::Yes if !pv => {
                return fail(&format!("script-spendable-policy-false/{}", what), format!("world [{}] can spend the compiled output {} but the policy evaluates to false", w.describe(), d.print(true)));
            }
            Truth::No if pv => {
                return fail(&format!("policy-true-script-unspendable/{}", what), format!("world [{}] satisfies the policy but cannot spend the compiled output {}", w.describe(), d.print(true)));
            }
            _ => {}
        }
    }
    Ok(())
}

impl Check for C08 {
    fn id(&self) -> &'static str { "C08" }
    fn rule(&self) -> String {
        "case = valid concrete policy (binary and / weighted or with odds 1..127, thresh with every k, distinct keys, hashes, consistent time locks, 1-8 leaves) x target in {compile::<Bare|Legacy|Segwitv0|Tap>, compile_to_descriptor(Bare|Sh|Wsh|ShWsh|Tr(None|Some(key))), compile_tr(None|Some), compile_tr_native(max_leaves in {1,2,8,1024}), compile_tr_private_experimental}. On Ok: (1) truth table of lift(output) == truth table of the policy over all assignments (an unspendable internal key counts as absent); (2) 6 sampled worlds: ground-truth witness search on the independently encoded output == policy value; (3) every output miniscript validates under its context's default sanity rules, is typed signed and non-malleable; (4) every node's stored type/extra data equals a from_ast rebuild; (5) the output's string re-parses under the default parser to the same AST; (6) tr-native leaves contain no IF-family fragment, the internal key is a policy key or the supplied one. lane `nary`: policies with 3-4-ary and / or built through the enum constructors: refused or compiled with the same meaning. Non-trivial = compile succeeded and the policy has an or / thresh(k<n); distinct by (policy text, target).".into()
    }
    fn lanes(&self, tier: Tier) -> Vec<(&'static str, usize, usize)> {
        match tier {
            Tier::Quick => vec![("compile", 48_000, 300), ("nary", 12_000, 300)],
            Tier::Thorough => vec![("compile", 960_000, 400), ("nary", 240_000, 400)],
        }
    }
    fn extra(&self, tier: Tier, st: &mut crate::runner::Stats, _known: &dyn Fn(&str) -> bool, _threads: usize) -> Result<serde_json::Value, Failure> {
        // policies at the numeric limits of each target (the random lanes stay far below them):
        // key thresholds around the 20-key CHECKMULTISIG limit and around the 1000-element
        // tapscript stack, conjunctions around the 1650-byte scriptSig / 100-witness-item limits.
        // Whatever the compiler returns must pass the same checks as any other output.
        let secp = secp256k1::Secp256k1::new();
        let key = |i: usize| -> String {
            let mut b = [0u8; 32];
            b[28..].copy_from_slice(&((i + 1) as u32).to_be_bytes());
            b[0] = 0x5a;
            let sk = secp256k1::SecretKey::from_slice(&b).expect("scalar");
            keys::hex(&secp256k1::PublicKey::from_secret_key(&secp, &sk).serialize())
        };
        let ks = |n: usize| -> String { (0..n).map(|i| format!("pk({})", key(i))).collect::<Vec<_>>().join(",") };
        let mut pols: Vec<(String, bool)> = Vec::new(); // (policy, tap-only)
        for n in [15usize, 16, 17, 18, 19, 20, 21, 22] {
            pols.push((nest_and(&(0..n).map(|i| format!("pk({})", key(i))).collect::<Vec<_>>()), false));
            pols.push((format!("or(99@pk({}),1@{})", key(900), nest_and(&(0..n).map(|i| format!("pk({})", key(i))).collect::<Vec<_>>())), false));
            for k in [1usize, 2, n - 1] {
                pols.push((format!("thresh({},{})", k, ks(n)), false));
            }
        }
        for n in [98usize, 99, 100, 101] {
            pols.push((format!("thresh({},{})", n - 1, ks(n)), false));
        }
        let tap_ns: Vec<usize> = if tier == Tier::Thorough { vec![997, 998, 999, 1000, 1001] } else { vec![998, 999, 1000, 1001] };
        for n in tap_ns {
            for k in [2usize, n - 1] {
                pols.push((format!("thresh({},{})", k, ks(n)), true));
            }
        }
        // or-chains with halving odds: the Huffman tree of compile_tr is a chain whose depth is
        // the number of keys minus 2 (limit 128)
        for n in [129usize, 130, 131, 132, 133] {
            let mut t = format!("pk({})", key(n - 1));
            for i in (0..n - 1).rev() {
                t = format!("or(1@pk({}),1@{})", key(i), t);
            }
            pols.push((t, true));
        }
        // key thresholds for bare outputs (standard templates: at most 3 keys)
        for n in [2usize, 3, 4, 5] {
            for k in 1..=n.min(3) {
                pols.push((format!("thresh({},{})", k, ks(n)), false));
            }
        }
        let mut compiled = 0u64;
        let mut refused = 0u64;
        for (text, tap_only) in &pols {
            let c = match Concrete::<DK>::from_str(text) {
                Ok(c) => c,
                Err(_) => continue,
            };
            macro_rules! ms_t {
                ($c:ty, $name:expr) => {{
                    st.evaluations += 1;
                    match c.compile::<$c>() {
                        Ok(ms) => {
                            compiled += 1;
                            check_ms::<$c>(&ms, $name)?;
                        }
                        Err(_) => refused += 1,
                    }
                }};
            }
            macro_rules! desc_t {
                ($r:expr, $name:expr) => {{
                    st.evaluations += 1;
                    match $r {
                        Ok(d) => {
                            compiled += 1;
                            let d: Descriptor<DK> = d;
                            check_desc_ms(&d, $name)?;
                            let s = d.to_string();
                            if Descriptor::<DK>::from_str(&s).ok().as_ref() != Some(&d) {
                                return fail(&format!("desc-reparse-fails/{}", $name), format!("compiled descriptor of the boundary policy `{}...` does not re-parse to itself", &text[..text.len().min(60)]));
                            }
                        }
                        Err(_) => refused += 1,
                    }
                }};
            }
            if !*tap_only {
                ms_t!(Legacy, "boundary/compile<Legacy>");
                ms_t!(Segwitv0, "boundary/compile<Segwitv0>");
                ms_t!(BareCtx, "boundary/compile<Bare>");
                desc_t!(c.compile_to_descriptor::<Legacy>(DescriptorCtx::Sh), "boundary/to_desc(Sh)");
                desc_t!(c.compile_to_descriptor::<Segwitv0>(DescriptorCtx::Wsh), "boundary/to_desc(Wsh)");
                desc_t!(c.compile_to_descriptor::<BareCtx>(DescriptorCtx::Bare), "boundary/to_desc(Bare)");
            }
            // (the generic compiler is exponential on or-chains: those go through compile_tr only)
            if !text.starts_with("or(1@pk(") || text.len() < 4000 {
                ms_t!(Tap, "boundary/compile<Tap>");
            }
            desc_t!(c.compile_tr(None), "boundary/compile_tr");
            desc_t!(c.compile_to_descriptor::<Tap>(DescriptorCtx::Tr(None)), "boundary/to_desc(Tr)");
        }
        Ok(serde_json::json!({"boundary_policies": pols.len(), "boundary_outputs_checked": compiled, "boundary_refused": refused}))
    }
    fn run_case(&self, lane: &str, src: &mut Src, rep: &mut Report) -> Result<(), Failure> {
        // lane nary: and / or with 3-4 children, built through the enum constructors (the text
        // parser refuses them): every compile entry must refuse them too or keep the meaning
        let nary = lane == "nary";
        let cfg = PolCfg {
            max_leaves: 7,
            allow_const: src.chance(1, 10),
            distinct_keys: true,
            key_hex_ctx: Ctx::Segwitv0,
            named_keys: false,
            // a quarter of the policies mix height and time locks of one kind: the compiler must
            // refuse them or still produce a sane script
            consistent_locks: !src.chance(1, 4),
            max_weight: 127,
            allow_thresh: true,
            binary: !nary,
        };
        let mut p = gen::gen_policy(src, &cfg);
        // most unconstrained policies have a signature-less path and are (rightly) refused;
        // guard two thirds of them with a fresh key so that the compiler has work to do
        if src.chance(2, 3) {
            let guard = keys::key_compressed(9 + src.below(2));
            p = if src.bool() { MPol::And(vec![MPol::Key(guard), p]) } else { MPol::And(vec![p, MPol::Key(guard)]) };
        }
        let text = p.print();
        let target = src.below(16);
        let tname = [
            "compile<Bare>", "compile<Legacy>", "compile<Segwitv0>", "compile<Tap>", "to_desc(Bare)", "to_desc(Sh)", "to_desc(Wsh)", "to_desc(ShWsh)",
            "to_desc(Tr(None))", "to_desc(Tr(Some))", "compile_tr(None)", "compile_tr(Some)", "tr_native(1)", "tr_native(2)", "tr_native(8|1024)", "tr_private",
        ][target];
        rep.desc = format!("{} -> {}", text, tname);
        let c = if nary {
            match concrete_from_mpol(&p) {
                Some(c) => {
                    rep.class("nary:built");
                    c
                }
                None => return Ok(()),
            }
        } else {
            match Concrete::<DK>::from_str(&text) {
                Ok(c) => c,
                Err(_) => {
                    rep.class("policy-rejected-by-parser");
                    return Ok(());
                }
            }
        };
        let unsp = DK::from_str(&unspendable()).expect("key");
        let mut dead: Option<String> = None;
        // compile
        enum Out {
            Ms(MDesc, Box<dyn Fn() -> Result<(), Failure>>),
            Desc(Descriptor<DK>),
        }
        macro_rules! ms_target {
            ($c:ty, $wrap:expr) => {{
                match c.compile::<$c>() {
                    Ok(ms) => {
                        let node = ast::from_lib(&ms);
                        let m2 = ms.clone();
                        Some(Out::Ms($wrap(node), Box::new(move || check_ms::<$c>(&m2, tname))))
                    }
                    Err(_) => None,
                }
            }};
        }
        let out: Option<Out> = match target {
            0 => ms_target!(BareCtx, MDesc::Bare),
            1 => ms_target!(Legacy, MDesc::Sh),
            2 => ms_target!(Segwitv0, MDesc::Wsh),
            3 => ms_target!(Tap, |n: Node| MDesc::Tr(unspendable(), Some(crate::mdesc::MTree::Leaf(n)))),
            4 => c.compile_to_descriptor::<BareCtx>(DescriptorCtx::Bare).ok().map(Out::Desc),
            5 => c.compile_to_descriptor::<Legacy>(DescriptorCtx::Sh).ok().map(Out::Desc),
            6 => c.compile_to_descriptor::<Segwitv0>(DescriptorCtx::Wsh).ok().map(Out::Desc),
            7 => c.compile_to_descriptor::<Segwitv0>(DescriptorCtx::ShWsh).ok().map(Out::Desc),
            8 => c.compile_to_descriptor::<Tap>(DescriptorCtx::Tr(None)).ok().map(Out::Desc),
            9 => c.compile_to_descriptor::<Tap>(DescriptorCtx::Tr(Some(unsp.clone()))).ok().map(Out::Desc),
            10 => c.compile_tr(None).ok().map(Out::Desc),
            11 => c.compile_tr(Some(unsp.clone())).ok().map(Out::Desc),
            12 => c.compile_tr_native(Some(unsp.clone()), 1).ok().map(Out::Desc),
            13 => c.compile_tr_native(Some(unsp.clone()), 2).ok().map(Out::Desc),
            14 => c.compile_tr_native(if src.bool() { None } else { Some(unsp.clone()) }, if src.bool() { 8 } else { 1024 }).ok().map(Out::Desc),
            _ => c.compile_tr_private_experimental(Some(unsp.clone())).ok().map(Out::Desc),
        };
        rep.class(format!("target={}", tname));
        let out = match out {
            Some(o) => o,
            None => {
                rep.class("compile-error");
                return Ok(());
            }
        };
        rep.class("compiled");
        let (md, lifted): (MDesc, Option<MPol>) = match &out {
            Out::Ms(md, checks) => {
                checks()?;
                if target == 3 {
                    dead = Some(unspendable());
                }
                // lift at the miniscript level
                let l = match md {
                    MDesc::Bare(n) => glue::ms_from_node::<BareCtx>(n, glue::Level::Insane, true).ok().and_then(|m| m.lift().ok()),
                    MDesc::Sh(n) => glue::ms_from_node::<Legacy>(n, glue::Level::Insane, true).ok().and_then(|m| m.lift().ok()),
                    MDesc::Wsh(n) => glue::ms_from_node::<Segwitv0>(n, glue::Level::Insane, true).ok().and_then(|m| m.lift().ok()),
                    MDesc::Tr(_, Some(crate::mdesc::MTree::Leaf(n))) => glue::ms_from_node::<Tap>(n, glue::Level::Insane, true).ok().and_then(|m| m.lift().ok()),
                    _ => None,
                };
                (md.clone(), l.map(|s| MPol::from_semantic(&s)))
            }
            Out::Desc(d) => {
                check_desc_ms(d, tname)?;
                let md = glue::mdesc_from_lib(d).map_err(|e| Failure { sig: "mdesc-from-lib".into(), msg: e })?;
                if let MDesc::Tr(ik, tree) = &md {
                    if *ik == unspendable() {
                        dead = Some(unspendable());
                    } else {
                        // internal key must be a key of the policy
                        let mut found = false;
                        p.walk(&mut |x| {
                            if let MPol::Key(k) = x {
                                if k == ik {
                                    found = true;
                                }
                            }
                        });
                        if !found {
                            return fail(&format!("internal-key-invented/{}", tname), format!("internal key {} is neither a policy key nor the supplied unspendable key", ik));
                        }
                    }
                    if (12..=14).contains(&target) {
                        if let Some(t) = tree {
                            for (_, n) in t.leaves() {
                                let mut bad = false;
                                n.walk(&mut |x| {
                                    if matches!(x, Node::DupIf(_) | Node::NonZero(_) | Node::AndOr(..) | Node::OrD(..) | Node::OrC(..) | Node::OrI(..)) {
                                        bad = true;
                                    }
                                });
                                if bad {
                                    return fail("native-leaf-has-if", format!("tr-native leaf {} contains an IF-family fragment", ast::print(n, true)));
                                }
                            }
                        }
                    }
                }
                // descriptor re-parse
                let s = d.to_string();
                match Descriptor::<DK>::from_str(&s) {
                    Ok(back) => {
                        if glue::mdesc_from_lib(&back).ok().as_ref() != Some(&md) {
                            return fail(&format!("desc-reparse-differs/{}", tname), format!("{} re-parses to a different descriptor {}", s, back));
                        }
                    }
                    Err(e) => return fail(&format!("desc-reparse-fails/{}", tname), format!("compiled descriptor {} does not re-parse: {}", s, e)),
                }
                let l = d.lift().ok().map(|s| MPol::from_semantic(&s));
                (md, l)
            }
        };
        // (1) lift-level truth tables
        match &lifted {
            Some(l) => {
                if let Some(diff) = equivalent_modulo(&p, l, &dead) {
                    return fail(&format!("meaning-changed/{}", tname), format!("policy {} compiled to {} whose lifted policy differs: {}", text, md.print(true), diff));
                }
            }
            None => {
                return fail(&format!("output-not-liftable/{}", tname), format!("compiled output {} cannot be lifted", md.print(true)));
            }
        }
        // (2) script level
        script_level(&md, &p, &dead, src, rep, tname)?;
        let mut has_or = false;
        p.walk(&mut |x| match x {
            MPol::Or(_) => has_or = true,
            MPol::Thresh(k, v) if *k < v.len() => has_or = true,
            _ => {}
        });
        if has_or {
            rep.nontrivial_by(&(&text, target));
        }
        Ok(())
    }
}


/// The concrete policy value of a mirror policy through the enum constructors (no text).
fn concrete_from_mpol(p: &MPol) -> Option<Concrete<DK>> {
    use miniscript::{AbsLockTime, RelLockTime, Threshold};
    use std::sync::Arc;
    Some(match p {
        MPol::Unsat => Concrete::Unsatisfiable,
        MPol::Trivial => Concrete::Trivial,
        MPol::Key(k) => Concrete::Key(DK::from_str(k).ok()?),
        MPol::After(v) => Concrete::After(AbsLockTime::from_consensus(*v).ok()?),
        MPol::Older(v) => Concrete::Older(RelLockTime::from_consensus(*v).ok()?),
        MPol::Sha256(h) => Concrete::Sha256(bitcoin::hashes::sha256::Hash::from_str(h).ok()?),
        MPol::Hash256(h) => Concrete::Hash256(miniscript::hash256::Hash::from_str(h).ok()?),
        MPol::Ripemd160(h) => Concrete::Ripemd160(bitcoin::hashes::ripemd160::Hash::from_str(h).ok()?),
        MPol::Hash160(h) => Concrete::Hash160(bitcoin::hashes::hash160::Hash::from_str(h).ok()?),
        MPol::And(v) => Concrete::And(v.iter().map(|x| concrete_from_mpol(x).map(Arc::new)).collect::<Option<Vec<_>>>()?),
        MPol::Or(v) => Concrete::Or(v.iter().map(|(w, x)| concrete_from_mpol(x).map(|c| (*w, Arc::new(c)))).collect::<Option<Vec<_>>>()?),
        MPol::Thresh(k, v) => Concrete::Thresh(Threshold::new(*k, v.iter().map(|x| concrete_from_mpol(x).map(Arc::new)).collect::<Option<Vec<_>>>()?).ok()?),
    })
}
