//! C10 — text forms round-trip and the descriptor checksum detects corruption.

use crate::checks::c01::pick_kind;
use crate::checks::c16::templatize;
use crate::descsum;
use crate::gen::{self, Cfg, KeyStyle, PolCfg};
use crate::glue;
use crate::keys;
use crate::mirror::ast::{self, Node};
use crate::mirror::encode::encode;
use crate::mirror::spec::Ctx;
use crate::poleval::MPol;
use crate::runner::{fail, Check, Failure, Report, Src, Tier};
use miniscript::descriptor::{DescriptorSecretKey, WalletPolicy};
use miniscript::policy::{Concrete, Semantic};
use miniscript::{BareCtx, Descriptor, DescriptorPublicKey, Legacy, Miniscript, ScriptContext, Segwitv0, Tap, ValidationParams};
use std::str::FromStr;

pub struct C10;

fn strip_checksum(s: &str) -> &str { s.split('#').next().unwrap_or(s) }

/// Does the text contain a multipath specifier whose alternatives are all identical?  The
/// parsed value cannot remember where such a specifier stood, so the printed position may
/// legitimately differ (the value still round-trips).
fn degenerate_multipath(s: &str) -> bool {
    let mut rest = s;
    while let Some(a) = rest.find('<') {
        let b2 = match rest[a..].find('>') {
            Some(x) => a + x,
            None => return false,
        };
        let alts: Vec<String> = rest[a + 1..b2].split(';').map(|x| x.replace('h', "'")).collect();
        if alts.len() > 1 && alts.iter().all(|x| *x == alts[0]) {
            return true;
        }
        rest = &rest[b2 + 1..];
    }
    false
}

/// value -> string -> value -> string
fn ms_roundtrip<C: ScriptContext>(node: &Node, text: &str, ctx: Ctx, rep: &mut Report) -> Result<bool, Failure> {
    let mut p = ValidationParams::MAX;
    p.allow_raw_pkh = true;
    let x = match Miniscript::<String, C>::from_str_with_validation_params(text, &p) {
        Ok(x) => x,
        Err(_) => {
            rep.class("rejected");
            return Ok(false);
        }
    };
    if ast::from_lib(&x) != *node {
        return fail(
            &format!("parse-unfaithful/{}", first_diff(node, &ast::from_lib(&x))),
            format!("`{}` parsed to {} which is not the written AST {}", text, ast::print(&ast::from_lib(&x), false), ast::print(node, false)),
        );
    }
    let s = x.to_string();
    let x2 = match Miniscript::<String, C>::from_str_with_validation_params(&s, &p) {
        Ok(v) => v,
        Err(e) => return fail(&format!("print-unparseable/{}", frag_set(node)), format!("{:?}: `{}` printed as `{}` which does not parse: {}", ctx, text, s, e)),
    };
    if ast::from_lib(&x2) != ast::from_lib(&x) {
        return fail(
            &format!("roundtrip-differs/{}", first_diff(&ast::from_lib(&x), &ast::from_lib(&x2))),
            format!("`{}` re-parses to a different AST: {} vs {}", s, ast::print(&ast::from_lib(&x2), false), ast::print(&ast::from_lib(&x), false)),
        );
    }
    if x2.to_string() != s {
        return fail("print-not-fixed-point", format!("`{}` prints as `{}` after one round trip", s, x2));
    }
    Ok(true)
}

fn frag_set(n: &Node) -> String { crate::checks::c02::frag_signature(&crate::mdesc::MDesc::Wsh(n.clone())) }

/// Name of the first fragment (pre-order) at which two ASTs differ.
fn first_diff(a: &Node, b: &Node) -> String {
    if std::mem::discriminant(a) != std::mem::discriminant(b) {
        return format!("{}-vs-{}", a.frag_name(), b.frag_name());
    }
    let (ca, cb) = (a.children(), b.children());
    if ca.len() != cb.len() {
        return format!("{}-arity", a.frag_name());
    }
    for (x, y) in ca.iter().zip(cb.iter()) {
        if x != y {
            return first_diff(x, y);
        }
    }
    format!("{}-payload", a.frag_name())
}

pub fn key_forms(src: &mut Src) -> String {
    let u = keys::u();
    let hard = |src: &mut Src| if src.bool() { "'" } else { "h" };
    let mut s = String::new();
    if src.chance(1, 2) {
        // origin
        s.push('[');
        s.push_str(&keys::master_fingerprint());
        let n = src.range(0, 3);
        for _ in 0..n {
            s.push('/');
            s.push_str(&src.range(0, 50).to_string());
            if src.bool() {
                s.push_str(hard(src));
            }
        }
        s.push(']');
    }
    match src.below(5) {
        0 => s.push_str(&keys::key_compressed(src.below(8))),
        1 => s.push_str(&keys::key_uncompressed(src.below(8))),
        2 => s.push_str(&keys::key_xonly(src.below(8))),
        _ => {
            let a = src.below(keys::N_ACCOUNTS);
            s.push_str(&u.accounts[a].2.to_string());
            let n = src.range(0, 3);
            let multi_at = if src.chance(1, 3) && n > 0 { Some(src.below(n)) } else { None };
            for i in 0..n {
                s.push('/');
                if Some(i) == multi_at {
                    let m = src.range(2, 4);
                    s.push('<');
                    let base = src.range(0, 5);
                    for j in 0..m {
                        if j > 0 {
                            s.push(';');
                        }
                        // repeated alternatives allowed
                        let v = if src.chance(1, 4) { base } else { base + j };
                        s.push_str(&v.to_string());
                        if src.chance(1, 5) {
                            s.push_str(hard(src));
                        }
                    }
                    s.push('>');
                } else {
                    s.push_str(&src.range(0, 9).to_string());
                    if src.chance(1, 5) {
                        s.push_str(hard(src));
                    }
                }
            }
            match src.below(4) {
                0 => s.push_str("/*"),
                1 => {
                    s.push_str("/*");
                    s.push_str(hard(src));
                }
                _ => {}
            }
        }
    }
    s
}

pub fn secret_forms(src: &mut Src) -> String {
    let u = keys::u();
    let hard = |src: &mut Src| if src.bool() { "'" } else { "h" };
    let mut s = String::new();
    if src.chance(1, 3) {
        s.push('[');
        s.push_str(&keys::master_fingerprint());
        s.push_str("/1'/2");
        s.push(']');
    }
    if src.chance(1, 3) {
        let sk = u.sks[src.below(8)];
        let pk = bitcoin::PrivateKey { compressed: src.bool(), network: bitcoin::NetworkKind::Main, inner: sk };
        s.push_str(&pk.to_wif());
        return s;
    }
    let a = src.below(keys::N_ACCOUNTS);
    s.push_str(&u.accounts[a].1.to_string());
    let n = src.range(0, 3);
    let multi_at = if src.chance(1, 3) && n > 0 { Some(src.below(n)) } else { None };
    for i in 0..n {
        s.push('/');
        if Some(i) == multi_at {
            let m = src.range(2, 4);
            s.push('<');
            let base = src.range(0, 5);
            let repeats = src.chance(1, 3);
            for j in 0..m {
                if j > 0 {
                    s.push(';');
                }
                let v = if repeats { base + src.below(2) } else { base + j };
                s.push_str(&v.to_string());
            }
            s.push('>');
        } else {
            s.push_str(&src.range(0, 9).to_string());
            if src.chance(1, 3) {
                s.push_str(hard(src));
            }
        }
    }
    if src.chance(1, 3) {
        s.push_str("/*");
        if src.bool() {
            s.push_str(hard(src));
        }
    }
    s
}

pub fn mutate_text(src: &mut Src, s: &str) -> String {
    let mut v: Vec<char> = s.chars().collect();
    if v.is_empty() {
        return String::new();
    }
    let n = src.range(1, 2);
    for _ in 0..n {
        let i = src.below(v.len());
        match src.below(10) {
            0 => {
                v.remove(i);
            }
            9 if v.contains(&'}') && src.bool() => {
                // a third child in a taproot branch
                let closes: Vec<usize> = (0..v.len()).filter(|j| v[*j] == '}').collect();
                let at = *src.pick(&closes);
                let ins = format!(",pk({})", keys::key_xonly(src.below(12)));
                for (k, c) in ins.chars().enumerate() {
                    v.insert(at + k, c);
                }
            }
            9 => {
                // give a number (a threshold's k, a lock value, an index) children of its own
                let digits: Vec<usize> = (0..v.len()).filter(|j| v[*j].is_ascii_digit() && (*j + 1 == v.len() || v[*j + 1] == ',' || v[*j + 1] == ')')).collect();
                if !digits.is_empty() {
                    let at = *src.pick(&digits) + 1;
                    let ins = *src.pick(&["(pk(A),pk(B))", "(older(1),after(2))", "()", "(0)", "(1,2)", "(pk(A))"]);
                    for (k, c) in ins.chars().enumerate() {
                        v.insert(at + k, c);
                    }
                }
            }
            7 | 8 => {
                // characters outside the descriptor charset: controls, DEL, upper case, non-ASCII
                let c = *src.pick(&['\u{0}', '\t', '\n', '\u{1f}', '\u{7f}', '\u{80}', '\u{a0}', '\u{e9}', '\u{20ac}', '\u{1f600}', '\u{fffd}', 'A', 'Z', 'Q', '"', '\\', '`', '~', '|', '!', '$', '%', '&', '+', '-', '.', '=', '?', '[', ']', '^']);
                if src.bool() {
                    v[i] = c;
                } else {
                    v.insert(i, c);
                }
            }
            1 => {
                let c = v[i];
                v.insert(i, c);
            }
            2 => {
                let c = *src.pick(&['(', ')', ',', ':', '0', '1', 'a', 'v', 's', 'c', 'n', 't', 'l', 'u', 'd', 'j', '{', '}', '/', '*', '\'', 'h', '<', '>', ';', '@', '#', ' ', '_']);
                v[i] = c;
            }
            3 => {
                let c = *src.pick(&['(', ')', ',', ':', '0', '9', 'a', 'v', 't', '{', '}', '/', '*', '\'', ';']);
                v.insert(i, c);
            }
            4 => {
                if i + 1 < v.len() {
                    v.swap(i, i + 1);
                }
            }
            5 => {
                v.truncate(i);
                if v.is_empty() {
                    v.push('0');
                }
            }
            _ => {
                // token replacement
                let s2: String = v.iter().collect();
                let pairs = [("and_v", "and_b"), ("or_d", "or_c"), ("or_i", "or_b"), ("pk(", "pkh("), ("multi(", "sortedmulti("), ("thresh(1", "thresh(2"), ("older", "after"), ("sha256", "hash256"), ("wsh(", "sh("), ("andor", "and_n"), ("pk_k", "pk_h"), ("v:", "t:"), ("a:", "s:"), ("c:", "n:")];
                let (a, b2) = *src.pick(&pairs);
                let r = if s2.contains(a) { s2.replacen(a, b2, 1) } else { s2.replacen(b2, a, 1) };
                v = r.chars().collect();
                if v.is_empty() {
                    v.push('0');
                }
            }
        }
        if v.is_empty() {
            v.push('0');
        }
    }
    v.into_iter().collect()
}

/// fixed point after one trip, for any accepted string
fn string_fixed_point<T, M>(what: &str, s: &str, parse: &dyn Fn(&str) -> Option<T>, mirror: M, rep: &mut Report) -> Result<bool, Failure>
where
    T: std::fmt::Display,
    M: Fn(&T) -> String,
{
    let x = match parse(s) {
        Some(x) => x,
        None => return Ok(false),
    };
    rep.class(format!("accepted-{}", what));
    let t = x.to_string();
    let x2 = match parse(&t) {
        Some(x2) => x2,
        None => return fail(&format!("print-unparseable/{}", what), format!("`{}` is accepted and printed as `{}`, which is rejected", s, t)),
    };
    if mirror(&x2) != mirror(&x) {
        // mirrors of the form `kind|text` make the signature specific
        let (m1, m2) = (mirror(&x), mirror(&x2));
        let k = match (m1.split_once('|'), m2.split_once('|')) {
            (Some((a, _)), Some((b2, _))) => format!("/{}->{}", a, b2),
            _ => String::new(),
        };
        return fail(&format!("roundtrip-differs/{}{}", what, k), format!("`{}` -> `{}` re-parses to a different value: {} vs {}", s, t, m2, m1));
    }
    if x2.to_string() != t {
        return fail(&format!("print-not-fixed-point/{}", what), format!("`{}` prints `{}` then `{}`", s, t, x2));
    }
    Ok(true)
}

impl Check for C10 {
    fn id(&self) -> &'static str { "C10" }
    fn rule(&self) -> String {
        "lanes: `miniscript` (4 contexts, String keys, every fragment incl. sugar and expr_raw_pkh; the written AST must be what is parsed, print->parse gives the same mirror AST and the same string; sugared and desugared spellings parse to equal ASTs with equal scripts), `descriptor` (all output types, hex / origin / xpub / wildcard / multipath keys, taproot trees; `{:#}` == string without checksum; printed checksum == own BIP380 implementation), `keys` (DescriptorPublicKey / DescriptorSecretKey strings with origins, h and ' markers, hardened steps, wildcards, multipath with repeated alternatives; mirror = derived Debug of the value; for multipath secret keys to_public() commutes with into_single_keys() on the derived public keys), `policy` (Concrete with weights / Semantic), `wallet` (WalletPolicy from descriptor and from template), `strings` (grammar-aware mutations of valid strings: anything accepted must print to a string that re-parses to the same value and is a fixed point), `checksum` (the checksum Engine / verify_checksum on arbitrary strings over the whole BIP380 input alphabet vs the own implementation, with one substitution; in checksummed descriptors 1-2 arbitrary character substitutions, or <= 4 substitutions within the first charset group, in checksummed strings <= 500 chars: verify_checksum and Descriptor::from_str must reject). Non-trivial = values with >= 3 nodes or a key with origin/path/multipath; every substitution case; accepted mutants.".into()
    }
    fn extra(&self, _tier: Tier, st: &mut crate::runner::Stats, _known: &dyn Fn(&str) -> bool, _threads: usize) -> Result<serde_json::Value, Failure> {
        // values at the nesting limit: whatever the AST entry point builds must print to a
        // string that parses back to the same value (heights 395..=405 around the limit of 402)
        let mut built = 0usize;
        for h in 395usize..=405 {
            for shape in 0..3 {
                let mut node = Node::Check(Box::new(Node::PkK("A".into())));
                for i in 0..h.saturating_sub(2) {
                    node = match shape {
                        0 => Node::AndV(Box::new(Node::Verify(Box::new(Node::Check(Box::new(Node::PkK(format!("K{}", i % 7))))))), Box::new(node)),
                        1 => Node::OrI(Box::new(Node::False), Box::new(node)),
                        _ => Node::AndOr(Box::new(Node::Check(Box::new(Node::PkK(format!("K{}", i % 7))))), Box::new(node), Box::new(Node::False)),
                    };
                }
                st.evaluations += 1;
                let text = ast::print(&node, false);
                let ms = match ms_string_from_node::<Tap>(&node) {
                    Ok(m) => m,
                    Err(_) => continue,
                };
                built += 1;
                let printed = ms.to_string();
                match Miniscript::<String, Tap>::from_str_with_validation_params(&printed, &miniscript::ValidationParams::MAX) {
                    Ok(back) => {
                        if back != ms || back.to_string() != printed {
                            return fail("boundary-roundtrip-differs", format!("a miniscript of {} levels (shape {}) re-parses to a different value", h, shape));
                        }
                    }
                    Err(e) => {
                        return fail("boundary-print-unparseable", format!("from_ast builds a miniscript of {} levels (shape {}, {} bytes of text) whose printed form does not parse: {}", h, shape, text.len(), e));
                    }
                }
            }
        }
        st.samples.push(format!("[boundary] {} values of 395..=405 levels built through from_ast print and re-parse to themselves", built));
        Ok(serde_json::json!({"boundary_values_roundtripped": built}))
    }
    fn lanes(&self, tier: Tier) -> Vec<(&'static str, usize, usize)> {
        match tier {
            Tier::Quick => vec![("miniscript", 450_000, 300), ("descriptor", 225_000, 300), ("keys", 450_000, 100), ("policy", 300_000, 200), ("wallet", 75_000, 300), ("strings", 600_000, 300), ("checksum", 450_000, 300)],
            Tier::Thorough => vec![("miniscript", 9_000_000, 400), ("descriptor", 4_500_000, 400), ("keys", 9_000_000, 100), ("policy", 6_000_000, 300), ("wallet", 1_500_000, 400), ("strings", 12_000_000, 400), ("checksum", 9_000_000, 400)],
        }
    }
    fn run_case(&self, lane: &str, src: &mut Src, rep: &mut Report) -> Result<(), Failure> {
        match lane {
            "miniscript" => {
                let ctx = *src.pick(&[Ctx::Segwitv0, Ctx::Tap, Ctx::Legacy, Ctx::Bare]);
                let size = src.range(1, 14);
                let mut cfg = Cfg::new(ctx, size);
                cfg.key_style = KeyStyle::Hex;
                cfg.legacy_restrict = false;
                cfg.allow_uncompressed = true;
                cfg.allow_raw_pkh = src.chance(1, 4);
                let want = *src.pick(&[gen::W_B, gen::W_B, gen::W_B, gen::W_V, gen::W_K, gen::W_W]);
                let mut st = gen::State::new();
                let node = gen::gen(src, &cfg, &mut st, want, size);
                let sugar = src.bool();
                let text = ast::print(&node, sugar);
                rep.desc = format!("{:?} {}", ctx, text);
                let ok = match ctx {
                    Ctx::Bare => ms_roundtrip::<BareCtx>(&node, &text, ctx, rep)?,
                    Ctx::Legacy => ms_roundtrip::<Legacy>(&node, &text, ctx, rep)?,
                    Ctx::Segwitv0 => ms_roundtrip::<Segwitv0>(&node, &text, ctx, rep)?,
                    Ctx::Tap => ms_roundtrip::<Tap>(&node, &text, ctx, rep)?,
                };
                if ok {
                    // the other spelling must mean the same
                    let other = ast::print(&node, !sugar);
                    if other != text {
                        let same = match ctx {
                            Ctx::Bare => ms_roundtrip::<BareCtx>(&node, &other, ctx, rep)?,
                            Ctx::Legacy => ms_roundtrip::<Legacy>(&node, &other, ctx, rep)?,
                            Ctx::Segwitv0 => ms_roundtrip::<Segwitv0>(&node, &other, ctx, rep)?,
                            Ctx::Tap => ms_roundtrip::<Tap>(&node, &other, ctx, rep)?,
                        };
                        if !same {
                            return fail("alias-rejected", format!("`{}` is accepted but its alias spelling `{}` is rejected", text, other));
                        }
                        rep.class("alias-pair");
                    }
                    // concrete script of both spellings (keys are hex): own encoding is spelling-independent
                    let _ = encode(&node, ctx);
                    if node.n_nodes() >= 3 {
                        rep.nontrivial_by(&(ctx as u8, &text));
                    }
                }
                Ok(())
            }
            "descriptor" => {
                let kind = pick_kind(src);
                let size = src.range(1, 8);
                let mut d = gen::gen_desc(src, kind, &|ctx| {
                    let mut c = Cfg::sane(ctx, size);
                    c.key_style = KeyStyle::Rich;
                    c.allow_uncompressed = true;
                    c.xpub_chance = 2;
                    c
                });
                // "taproot trees of any shape": now and then a tree from C15's shape generator
                // (spines down to the BIP341 maximum depth with bushy bottoms, combs, balanced)
                if src.chance(1, 40) {
                    let mut next = src.below(40);
                    let t = crate::checks::c15::gen_shape(src, &mut next, false);
                    d = crate::mdesc::MDesc::Tr(keys::key_xonly(src.below(12)), Some(t));
                }
                let wild = *src.pick(&[0u8, 0, 1, 2]);
                let multi = *src.pick(&[0usize, 0, 2, 3, 4]);
                let t = d.map_keys(&mut |k| templatize(k, wild, multi, src));
                let text = t.print(src.bool());
                rep.desc = text.clone();
                let x = match Descriptor::<DescriptorPublicKey>::from_str(&text) {
                    Ok(x) => x,
                    Err(_) => {
                        rep.class("rejected");
                        return Ok(());
                    }
                };
                let m = glue::mdesc_from_lib(&x).map_err(|e| Failure { sig: "mdesc".into(), msg: e })?;
                // keys print canonically (' markers): compare modulo h -> '
                let canon = t.map_keys(&mut |k| k.replace('h', "'"));
                let m_c = m.map_keys(&mut |k| k.replace('h', "'"));
                if m_c != canon && !degenerate_multipath(&text) {
                    return fail(&format!("parse-unfaithful/descriptor/{}", t.kind()), format!("`{}` parsed to {}", text, m.print(true)));
                }
                let s = x.to_string();
                let body = strip_checksum(&s);
                if format!("{:#}", x) != body {
                    return fail("alternate-form", format!("{{:#}} gives `{:#}` but the string without checksum is `{}`", x, body));
                }
                match descsum::checksum(body) {
                    Some(c) => {
                        if s != format!("{}#{}", body, c) {
                            return fail("checksum-differs", format!("printed `{}` but BIP380 checksum of the body is {}", s, c));
                        }
                    }
                    None => return fail("checksum-charset", format!("printed descriptor has a character outside the BIP380 charset: {}", s)),
                }
                for inp in [s.as_str(), body] {
                    let x2 = match Descriptor::<DescriptorPublicKey>::from_str(inp) {
                        Ok(v) => v,
                        Err(e) => return fail(&format!("print-unparseable/descriptor/{}", t.kind()), format!("`{}` printed as `{}` which does not parse: {}", text, inp, e)),
                    };
                    let m2 = glue::mdesc_from_lib(&x2).map_err(|e| Failure { sig: "mdesc".into(), msg: e })?;
                    if m2 != m {
                        return fail(&format!("roundtrip-differs/descriptor/{}", t.kind()), format!("`{}` re-parses to {} instead of {}", inp, m2.print(true), m.print(true)));
                    }
                    if x2.to_string() != s {
                        return fail("print-not-fixed-point/descriptor", format!("`{}` prints as `{}` after one round trip", s, x2));
                    }
                }
                rep.class(format!("kind={}", t.kind()));
                rep.nontrivial_by(&text);
                Ok(())
            }
            "keys" => {
                let secret = src.chance(1, 3);
                let t = if secret { secret_forms(src) } else { key_forms(src) };
                rep.desc = t.clone();
                if secret {
                    // turning a multipath secret key into public keys commutes with splitting it
                    // into its alternatives (compared on the derived public keys)
                    if let Ok(sk) = DescriptorSecretKey::from_str(&t) {
                        let secp = secp256k1::Secp256k1::new();
                        if sk.is_multipath() {
                            if let Ok(pk_multi) = sk.to_public(&secp) {
                                let a: Vec<DescriptorPublicKey> = pk_multi.into_single_keys();
                                let b2: Vec<DescriptorSecretKey> = sk.clone().into_single_keys();
                                if a.len() != b2.len() {
                                    return fail("secret-multipath/len", format!("`{}`: {} public alternatives, {} secret alternatives", t, a.len(), b2.len()));
                                }
                                for (j, (pa, sb)) in a.iter().zip(b2.iter()).enumerate() {
                                    if let Ok(pb) = sb.to_public(&secp) {
                                        for idx in [0u32, 5] {
                                            let ka = pa.clone().at_derivation_index(idx).ok().map(|k| k.derive_public_key(&secp));
                                            let kb = pb.clone().at_derivation_index(idx).ok().map(|k| k.derive_public_key(&secp));
                                            if let (Some(ka), Some(kb)) = (ka, kb) {
                                                if ka != kb {
                                                    return fail("secret-multipath/to-public", format!("`{}`: alternative {} of to_public() derives {:?} at index {}, to_public() of alternative {} derives {:?}", t, j, ka, idx, j, kb));
                                                }
                                                rep.class("secret-multipath-compared");
                                            }
                                        }
                                    }
                                }
                            }
                        }
                    }
                    let nt = string_fixed_point("secret-key", &t, &|s| DescriptorSecretKey::from_str(s).ok(), |k| format!("{:?}", k), rep)?;
                    if nt {
                        rep.nontrivial_by(&t);
                    } else {
                        rep.class("rejected-secret");
                    }
                } else {
                    let k = match DescriptorPublicKey::from_str(&t) {
                        Ok(k) => k,
                        Err(_) => {
                            rep.class("rejected-public");
                            return Ok(());
                        }
                    };
                    // what was written must be what is printed, modulo the hardened marker
                    let s = k.to_string();
                    if s.replace('h', "'") != t.replace('h', "'") && !degenerate_multipath(&t) {
                        return fail("key-print-differs", format!("key `{}` prints as `{}`", t, s));
                    }
                    string_fixed_point("public-key", &t, &|s| DescriptorPublicKey::from_str(s).ok(), |k| format!("{:?}", k), rep)?;
                    if t.contains('/') || t.contains('[') {
                        rep.nontrivial_by(&t);
                    }
                }
                Ok(())
            }
            "policy" => {
                let cfg = PolCfg { max_leaves: 8, allow_const: true, distinct_keys: false, key_hex_ctx: Ctx::Segwitv0, named_keys: true, consistent_locks: false, max_weight: 9, allow_thresh: true, binary: false };
                let p = gen::gen_policy(src, &cfg);
                let text = p.print();
                rep.desc = text.clone();
                if let Ok(c) = Concrete::<String>::from_str(&text) {
                    if MPol::from_concrete(&c) != p {
                        return fail("parse-unfaithful/concrete", format!("`{}` parsed to {:?}", text, MPol::from_concrete(&c)));
                    }
                    string_fixed_point("concrete", &text, &|s| Concrete::<String>::from_str(s).ok(), |c| format!("{:?}", MPol::from_concrete(c)), rep)?;
                    if p.n_nodes() >= 3 {
                        rep.nontrivial_by(&("concrete", &text));
                    }
                } else {
                    rep.class("rejected-concrete");
                }
                let stext = p.print_semantic();
                if let Ok(s) = Semantic::<String>::from_str(&stext) {
                    let _ = s;
                    string_fixed_point("semantic", &stext, &|s| Semantic::<String>::from_str(s).ok(), |c| format!("{:?}", MPol::from_semantic(c)), rep)?;
                } else {
                    rep.class("rejected-semantic");
                }
                // a semantic VALUE (built through the enum, e.g. what lift() returns) prints to a
                // string that parses back to it: n-ary or / and, thresholds with constants
                if let Some(sv) = crate::checks::c18::to_semantic(&p) {
                    for (how, v) in [("as-built", sv.clone()), ("normalized", sv.clone().normalized()), ("sorted", sv.sorted())] {
                        let printed = v.to_string();
                        match Semantic::<String>::from_str(&printed) {
                            Ok(back) => {
                                if MPol::from_semantic(&back) != MPol::from_semantic(&v) {
                                    return fail("print-parse-differs/semantic-value", format!("semantic policy ({}) prints as `{}` which parses to `{}`", how, printed, back));
                                }
                                rep.class("semantic-value-roundtrip");
                            }
                            Err(e) => return fail("print-unparseable/semantic-value", format!("semantic policy ({}) prints as `{}` which does not parse: {}", how, printed, e)),
                        }
                    }
                }
                Ok(())
            }
            "wallet" => {
                let kind = *src.pick(&[gen::DescKind::Wsh, gen::DescKind::TrTree, gen::DescKind::ShWsh, gen::DescKind::Pkh, gen::DescKind::Wpkh, gen::DescKind::Sh, gen::DescKind::TrKey]);
                let size = src.range(1, 6);
                let d = gen::gen_desc(src, kind, &|ctx| {
                    let mut c = Cfg::sane(ctx, size);
                    c.key_style = KeyStyle::Rich;
                    c.xpub_chance = 3;
                    c
                });
                // BIP388 key placeholders stand for `/<M;N>/*` (unhardened wildcard) only: a
                // hardened wildcard must not be turned into a template
                let wild = *src.pick(&[1u8, 1, 1, 2]);
                let t = d.map_keys(&mut |k| templatize(k, wild, 2, src));
                let text = t.print(true);
                rep.desc = text.clone();
                // metamorphic: whether a descriptor is a wallet policy depends on the ORDER of the
                // numbers in `<M;N>`, not on their spelling: adding one constant to every
                // alternative (so that e.g. <0;1> becomes <9;10>, <2;0> becomes <10;8>) changes nothing
                {
                    let k = *src.pick(&[8u32, 9, 98, 99, 999, 2_147_483_000]);
                    let mut shifted = String::new();
                    let mut rest = &text[..];
                    let mut n_groups = 0;
                    while let Some(p) = rest.find('<') {
                        shifted.push_str(&rest[..=p]);
                        let e = rest[p..].find('>').map(|x| x + p).unwrap_or(rest.len());
                        let alts: Vec<String> = rest[p + 1..e].split(';').map(|a| a.parse::<u32>().map(|v| (v + k).to_string()).unwrap_or(a.to_string())).collect();
                        shifted.push_str(&alts.join(";"));
                        n_groups += 1;
                        rest = &rest[e..];
                    }
                    shifted.push_str(rest);
                    if n_groups > 0 {
                        let (a, b2) = (WalletPolicy::from_str(&text), WalletPolicy::from_str(&shifted));
                        if a.is_ok() != b2.is_ok() {
                            return fail(
                                "wallet-policy-depends-on-number-spelling",
                                format!("`{}` is {} as a wallet policy but `{}` (every multipath alternative + {}) is {}", text, if a.is_ok() { "accepted" } else { "rejected" }, shifted, k, if b2.is_ok() { "accepted" } else { "rejected" }),
                            );
                        }
                        if let Ok(w) = b2 {
                            rep.class("wallet:shifted-accepted");
                            match (w.clone().into_descriptor(), Descriptor::<DescriptorPublicKey>::from_str(&shifted)) {
                                (Ok(back), Ok(want)) => {
                                    if back != want {
                                        return fail("wallet-into-descriptor", format!("wallet policy of `{}` converts back to `{}`", shifted, back));
                                    }
                                }
                                (Err(e), Ok(_)) => return fail("wallet-into-descriptor-fails", format!("wallet policy of `{}` cannot be converted back: {}", shifted, e)),
                                _ => {}
                            }
                        } else {
                            rep.class("wallet:shifted-rejected");
                        }
                    }
                }
                let desc = match Descriptor::<DescriptorPublicKey>::from_str(&text) {
                    Ok(x) => x,
                    Err(_) => {
                        rep.class("rejected");
                        return Ok(());
                    }
                };
                let wp = match WalletPolicy::from_str(&text) {
                    Ok(w) => w,
                    Err(_) => {
                        rep.class("wallet-policy-rejected");
                        return Ok(());
                    }
                };
                let templ = wp.to_string();
                if wild == 2 && t.all_keys().iter().any(|k| k.ends_with("*h") || k.ends_with("*'")) {
                    return fail("wallet-template-hardened-wildcard", format!("`{}` has a hardened wildcard but is turned into the template `{}` (placeholders denote unhardened wildcards)", text, templ));
                }
                // own template: keys numbered by first appearance, `/<0;1>/*` spelled `/**`
                {
                    let mut order: Vec<String> = Vec::new();
                    let own = t.map_keys(&mut |k| {
                        if !k.contains("pub") {
                            return k.to_string();
                        }
                        let xi = k.find("pub").unwrap_or(0);
                        let slash = k[xi..].find('/').map(|p| p + xi).unwrap_or(k.len());
                        let (base, suffix) = k.split_at(slash);
                        let idx = match order.iter().position(|b| b == base) {
                            Some(i) => i,
                            None => {
                                order.push(base.to_string());
                                order.len() - 1
                            }
                        };
                        let suffix = match suffix.strip_prefix("/<").and_then(|r| r.strip_suffix(">/*")) {
                            Some(inner) => {
                                let parts: Vec<&str> = inner.split(';').collect();
                                match (parts.len(), parts.first().and_then(|a| a.parse::<u32>().ok()), parts.get(1).and_then(|b| b.parse::<u32>().ok())) {
                                    // BIP388: `/**` abbreviates exactly `/<0;1>/*`
                                    (2, Some(0), Some(1)) => "/**".to_string(),
                                    _ => suffix.to_string(),
                                }
                            }
                            None => suffix.to_string(),
                        };
                        format!("@{}{}", idx, suffix)
                    });
                    // (how placeholders are numbered when one xpub occurs with two derivations is
                    // the library's choice: compare modulo the indices)
                    let strip = |x: &str| -> String {
                        let mut out = String::new();
                        let mut it = x.chars().peekable();
                        while let Some(c) = it.next() {
                            out.push(c);
                            if c == '@' {
                                while it.peek().map(|d| d.is_ascii_digit()).unwrap_or(false) {
                                    it.next();
                                }
                            }
                        }
                        out
                    };
                    let own_text = strip(&own.print(true));
                    let templ = strip(&templ);
                    if own.all_keys().iter().all(|k| k.starts_with('@')) && own_text != templ {
                        return fail("wallet-template-differs", format!("template of `{}` is `{}`, expected `{}`", text, templ, own_text));
                    }
                }
                match wp.clone().into_descriptor() {
                    Ok(back) => {
                        if glue::mdesc_from_lib(&back).ok() != glue::mdesc_from_lib(&desc).ok() || back.to_string() != desc.to_string() {
                            return fail("wallet-into-descriptor", format!("wallet policy of `{}` converts back to `{}`", text, back));
                        }
                    }
                    Err(e) => return fail("wallet-into-descriptor-fails", format!("wallet policy of `{}` (template {}) cannot be converted back: {}", text, templ, e)),
                }
                // the template string is a fixed point
                match WalletPolicy::from_str(&templ) {
                    Ok(w2) => {
                        if w2.to_string() != templ {
                            return fail("wallet-template-fixed-point", format!("template `{}` prints as `{}`", templ, w2));
                        }
                    }
                    Err(e) => return fail("wallet-template-unparseable", format!("template `{}` of `{}` does not parse: {}", templ, text, e)),
                }
                rep.nontrivial_by(&text);
                Ok(())
            }
            "strings" => {
                // start from a valid string of a random type, mutate, test fixed point
                match src.below(4) {
                    0 => {
                        let ctx = *src.pick(&[Ctx::Segwitv0, Ctx::Tap, Ctx::Legacy]);
                        let size = src.range(1, 8);
                        let mut cfg = Cfg::new(ctx, size);
                        cfg.legacy_restrict = false;
                        let node = gen::gen_ms(src, &cfg);
                        let named = {
                            let mut i = 0;
                            node.map_keys(&mut |_| {
                                i += 1;
                                format!("K{}", i % 5)
                            })
                        };
                        let sg = src.bool();
                        let m = mutate_text(src, &ast::print(&named, sg));
                        rep.desc = format!("{:?} {}", ctx, m);
                        let mut p = ValidationParams::MAX;
                        p.allow_raw_pkh = true;
                        macro_rules! go {
                            ($c:ty) => {
                                string_fixed_point("miniscript", &m, &|s| Miniscript::<String, $c>::from_str_with_validation_params(s, &p).ok(), |x| ast::print(&ast::from_lib(x), false), rep)?
                            };
                        }
                        let acc = match ctx {
                            Ctx::Legacy => go!(Legacy),
                            Ctx::Tap => go!(Tap),
                            _ => go!(Segwitv0),
                        };
                        if acc {
                            rep.nontrivial_by(&(ctx as u8, &m));
                        }
                    }
                    1 => {
                        let kind = pick_kind(src);
                        let size = src.range(1, 6);
                        let d = gen::gen_desc(src, kind, &|ctx| Cfg::sane(ctx, size));
                        let named = {
                            let mut i = 0;
                            d.map_keys(&mut |_| {
                                i += 1;
                                format!("K{}", i % 7)
                            })
                        };
                        let sg = src.bool();
                        let m = mutate_text(src, &named.print(sg));
                        rep.desc = m.clone();
                        let acc = string_fixed_point("descriptor", &m, &|s| Descriptor::<String>::from_str(s).ok(), |x| glue::mdesc_from_lib(x).map(|m| format!("{}|{}", m.kind(), m.print(false))).unwrap_or_default(), rep)?;
                        if acc {
                            rep.nontrivial_by(&m);
                        }
                    }
                    2 => {
                        let t = if src.bool() { key_forms(src) } else { secret_forms(src) };
                        let m = mutate_text(src, &t);
                        rep.desc = m.clone();
                        let a = string_fixed_point("public-key", &m, &|s| DescriptorPublicKey::from_str(s).ok(), |k| format!("{:?}", k), rep)?;
                        let b2 = string_fixed_point("secret-key", &m, &|s| DescriptorSecretKey::from_str(s).ok(), |k| format!("{:?}", k), rep)?;
                        if a || b2 {
                            rep.nontrivial_by(&m);
                        }
                    }
                    _ => {
                        let cfg = PolCfg { max_leaves: 6, allow_const: true, distinct_keys: false, key_hex_ctx: Ctx::Segwitv0, named_keys: true, consistent_locks: false, max_weight: 9, allow_thresh: true, binary: false };
                        let p = gen::gen_policy(src, &cfg);
                        let m = mutate_text(src, &p.print());
                        rep.desc = m.clone();
                        let a = string_fixed_point("concrete", &m, &|s| Concrete::<String>::from_str(s).ok(), |c| format!("{:?}", MPol::from_concrete(c)), rep)?;
                        let b2 = string_fixed_point("semantic", &m, &|s| Semantic::<String>::from_str(s).ok(), |c| format!("{:?}", MPol::from_semantic(c)), rep)?;
                        if a || b2 {
                            rep.nontrivial_by(&m);
                        }
                    }
                }
                Ok(())
            }
            _ => {
                // checksum
                if src.chance(1, 5) {
                    // the checksum engine on arbitrary strings over the whole BIP380 input
                    // alphabet (descriptors only ever use a part of it) against the own
                    // implementation of the specification
                    let alphabet: Vec<char> = descsum::input_charset().chars().filter(|c| *c != '#').collect();
                    let len = src.range(1, 60);
                    let body: String = (0..len).map(|_| *src.pick(&alphabet)).collect();
                    rep.desc = format!("[engine] {}", body);
                    let own = match descsum::checksum(&body) {
                        Some(c) => c,
                        None => return Ok(()),
                    };
                    let mut eng = miniscript::descriptor::checksum::Engine::new();
                    if let Err(e) = eng.input(&body) {
                        return fail("checksum-engine-rejects-charset", format!("Engine::input rejects `{}`: {}", body, e));
                    }
                    let lib = eng.checksum();
                    if lib != own {
                        return fail("checksum-engine-differs", format!("Engine gives {} for `{}`, the BIP380 algorithm gives {}", lib, body, own));
                    }
                    let full = format!("{}#{}", body, own);
                    if miniscript::descriptor::checksum::verify_checksum(&full).is_err() {
                        return fail("checksum-verify-rejects-own", format!("verify_checksum rejects `{}`", full));
                    }
                    // any single substitution inside the body must be caught
                    let mut v: Vec<char> = body.chars().collect();
                    let i = src.below(v.len());
                    let c = *src.pick(&alphabet);
                    if c != v[i] {
                        v[i] = c;
                        let corrupted: String = v.into_iter().collect();
                        if miniscript::descriptor::checksum::verify_checksum(&format!("{}#{}", corrupted, own)).is_ok() {
                            return fail("checksum-misses-corruption/engine", format!("verify_checksum accepts `{}#{}` (one substitution of `{}`)", corrupted, own, body));
                        }
                    }
                    rep.nontrivial_by(&body);
                    return Ok(());
                }
                let kind = pick_kind(src);
                let size = src.range(1, 8);
                let d = gen::gen_desc(src, kind, &|ctx| {
                    let mut c = Cfg::sane(ctx, size);
                    c.key_style = KeyStyle::Rich;
                    c
                });
                let text = d.print(true);
                let x = match Descriptor::<DescriptorPublicKey>::from_str(&text) {
                    Ok(x) => x,
                    Err(_) => {
                        rep.class("rejected");
                        return Ok(());
                    }
                };
                let s = x.to_string();
                if s.len() > 500 || !s.contains('#') {
                    rep.class("too-long");
                    return Ok(());
                }
                if miniscript::descriptor::checksum::verify_checksum(&s).is_err() {
                    return fail("own-checksum-rejected", format!("the printed checksum is not accepted: {}", s));
                }
                let hash_pos = s.find('#').unwrap();
                let mut v: Vec<char> = s.chars().collect();
                let in_group = src.bool();
                let n_subst = if in_group { src.range(1, 4) } else { src.range(1, 2) };
                let charset: Vec<char> = descsum::input_charset().chars().collect();
                let cset: Vec<char> = descsum::checksum_charset().iter().map(|c| *c as char).collect();
                let mut positions = Vec::new();
                let mut tries = 0;
                while positions.len() < n_subst && tries < 200 {
                    tries += 1;
                    let i = src.below(v.len());
                    if i == hash_pos || positions.contains(&i) {
                        continue;
                    }
                    let old = v[i];
                    if i > hash_pos {
                        // checksum symbol: any other checksum symbol (one 5-bit symbol error), or
                        // (1/3) any other printable character -- its upper-case twin first of all
                        let c = match src.below(6) {
                            0 => old.to_ascii_uppercase(),
                            1 => (0x20u8 + src.below(95) as u8) as char,
                            _ => *src.pick(&cset),
                        };
                        if c == old {
                            continue;
                        }
                        v[i] = c;
                    } else if in_group {
                        if !descsum::in_first_group(old) {
                            continue;
                        }
                        let c = charset[src.below(32)];
                        if c == old || c == '#' {
                            continue;
                        }
                        v[i] = c;
                    } else {
                        let c = charset[src.below(charset.len())];
                        if c == old || c == '#' {
                            continue;
                        }
                        v[i] = c;
                    }
                    positions.push(i);
                }
                // or: a checksum of the wrong length (a symbol dropped / doubled / appended)
                if src.chance(1, 10) {
                    positions.clear();
                    let tail = hash_pos + 1 + src.below(8);
                    match src.below(3) {
                        0 => {
                            v.remove(tail);
                        }
                        1 => {
                            let c = v[tail];
                            v.insert(tail, c);
                        }
                        _ => v.push(*src.pick(&cset)),
                    }
                    positions.push(tail);
                }
                if positions.is_empty() {
                    return Ok(());
                }
                let corrupted: String = v.into_iter().collect();
                rep.desc = format!("{} -> {}", s, corrupted);
                rep.class(format!("substitutions={}{}", positions.len(), if in_group { "-in-group" } else { "" }));
                if miniscript::descriptor::checksum::verify_checksum(&corrupted).is_ok() {
                    return fail("checksum-misses-corruption/verify", format!("verify_checksum accepts `{}` ({} substitutions of `{}`)", corrupted, positions.len(), s));
                }
                if Descriptor::<DescriptorPublicKey>::from_str(&corrupted).is_ok() {
                    return fail("checksum-misses-corruption/from_str", format!("Descriptor::from_str accepts `{}` ({} substitutions of `{}`)", corrupted, positions.len(), s));
                }
                rep.nontrivial_by(&corrupted);
                Ok(())
            }
        }
    }
}


/// String-keyed library value of a mirror node through `Miniscript::from_ast` only.
fn ms_string_from_node<C: miniscript::ScriptContext>(n: &Node) -> Result<Miniscript<String, C>, String> {
    use miniscript::miniscript::decode::Terminal;
    use std::sync::Arc;
    let sub = |x: &Node| -> Result<Arc<Miniscript<String, C>>, String> { Ok(Arc::new(ms_string_from_node::<C>(x)?)) };
    let t: Terminal<String, C> = match n {
        Node::True => Terminal::True,
        Node::False => Terminal::False,
        Node::PkK(k) => Terminal::PkK(k.clone()),
        Node::PkH(k) => Terminal::PkH(k.clone()),
        Node::Check(x) => Terminal::Check(sub(x)?),
        Node::Verify(x) => Terminal::Verify(sub(x)?),
        Node::AndV(x, y) => Terminal::AndV(sub(x)?, sub(y)?),
        Node::OrI(x, y) => Terminal::OrI(sub(x)?, sub(y)?),
        Node::AndOr(x, y, z) => Terminal::AndOr(sub(x)?, sub(y)?, sub(z)?),
        _ => return Err("unsupported".into()),
    };
    Miniscript::from_ast(t).map_err(|e| e.to_string())
}
