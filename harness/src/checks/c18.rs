//! C18 — policy transformations preserve meaning.

use crate::gen::{self, PolCfg};
use crate::mirror::spec::Ctx;
use crate::poleval::{self, atoms, eval_assign, Atom, MPol};
use crate::runner::{fail, Check, Failure, Report, Src, Tier};
use bitcoin::{absolute, relative};
use miniscript::policy::{Concrete, Liftable, Semantic};
use miniscript::{AbsLockTime, RelLockTime, Threshold};
use std::str::FromStr;
use std::sync::Arc;

pub struct C18;

pub fn to_semantic(p: &MPol) -> Option<Semantic<String>> {
    let th = |k: usize, v: &Vec<MPol>| -> Option<Semantic<String>> {
        let subs: Option<Vec<Arc<Semantic<String>>>> = v.iter().map(|x| to_semantic(x).map(Arc::new)).collect();
        Threshold::new(k, subs?).ok().map(Semantic::Thresh)
    };
    Some(match p {
        MPol::Unsat => Semantic::Unsatisfiable,
        MPol::Trivial => Semantic::Trivial,
        MPol::Key(k) => Semantic::Key(k.clone()),
        MPol::After(t) => Semantic::After(AbsLockTime::from_consensus(*t).ok()?),
        MPol::Older(t) => Semantic::Older(RelLockTime::from_consensus(*t).ok()?),
        MPol::Sha256(h) => Semantic::Sha256(h.clone()),
        MPol::Hash256(h) => Semantic::Hash256(h.clone()),
        MPol::Ripemd160(h) => Semantic::Ripemd160(h.clone()),
        MPol::Hash160(h) => Semantic::Hash160(h.clone()),
        MPol::And(v) => th(v.len(), v)?,
        MPol::Or(v) => {
            let vv: Vec<MPol> = v.iter().map(|(_, x)| x.clone()).collect();
            th(1, &vv)?
        }
        MPol::Thresh(k, v) => th(*k, v)?,
    })
}

/// all assignments over `ats` (<= 12 atoms): calls f(mask)
fn for_all(ats: &[Atom], f: &mut dyn FnMut(&dyn Fn(&Atom) -> bool) -> bool) -> bool {
    let n = ats.len().min(14);
    for m in 0..(1u32 << n) {
        let truth = |a: &Atom| match ats.iter().position(|x| x == a) {
            Some(i) => i < n && (m >> i) & 1 == 1,
            None => false,
        };
        if !f(&truth) {
            return false;
        }
    }
    true
}

fn union_atoms(a: &MPol, b: &MPol) -> Vec<Atom> {
    let mut v = atoms(a);
    for x in atoms(b) {
        if !v.contains(&x) {
            v.push(x);
        }
    }
    v
}

fn equivalent(a: &MPol, b: &MPol) -> Option<String> {
    let ats = union_atoms(a, b);
    let mut bad: Option<String> = None;
    for_all(&ats, &mut |t| {
        if eval_assign(a, t) != eval_assign(b, t) {
            let on: Vec<String> = ats.iter().filter(|x| t(x)).map(|x| format!("{:?}", x)).collect();
            bad = Some(format!("assignment true={{{}}}: {} vs {}", on.join(","), eval_assign(a, t), eval_assign(b, t)));
            false
        } else {
            true
        }
    });
    bad
}

fn rel_met(lock: u32, age: u32) -> bool {
    // BIP68: same unit and value <=
    let tl = lock & 0x40_0000 != 0;
    let ta = age & 0x40_0000 != 0;
    tl == ta && (lock & 0xffff) <= (age & 0xffff)
}
fn abs_met(lock: u32, n: u32) -> bool {
    let tl = lock >= 500_000_000;
    let tn = n >= 500_000_000;
    tl == tn && lock <= n
}

/// Rename every key occurrence uniquely.
fn rename_occurrences(p: &MPol, ctr: &mut usize) -> MPol {
    match p {
        MPol::Key(_) => {
            *ctr += 1;
            MPol::Key(format!("occ{}", ctr))
        }
        MPol::And(v) => MPol::And(v.iter().map(|x| rename_occurrences(x, ctr)).collect()),
        MPol::Or(v) => MPol::Or(v.iter().map(|(w, x)| (*w, rename_occurrences(x, ctr))).collect()),
        MPol::Thresh(k, v) => MPol::Thresh(*k, v.iter().map(|x| rename_occurrences(x, ctr)).collect()),
        o => o.clone(),
    }
}

fn own_min_keys(p: &MPol) -> Option<usize> {
    let mut c = 0;
    let r = rename_occurrences(p, &mut c);
    let ks: Vec<Atom> = atoms(&r).into_iter().filter(|a| matches!(a, Atom::Key(_))).collect();
    if ks.len() > 16 {
        return None;
    }
    let mut best: Option<usize> = None;
    for m in 0..(1u32 << ks.len()) {
        let pc = m.count_ones() as usize;
        if let Some(b) = best {
            if pc >= b {
                continue;
            }
        }
        let truth = |a: &Atom| match a {
            Atom::Key(_) => ks.iter().position(|x| x == a).map(|i| (m >> i) & 1 == 1).unwrap_or(false),
            _ => true,
        };
        if eval_assign(&r, &truth) {
            best = Some(pc);
        }
    }
    best
}

/// Set of lock-kind combinations over syntactic paths: bit0 abs-height, bit1 abs-time,
/// bit2 rel-height, bit3 rel-time.
fn path_sets(p: &MPol) -> Vec<u8> {
    fn cross(a: &[u8], b: &[u8]) -> Vec<u8> {
        let mut v = Vec::new();
        for x in a {
            for y in b {
                let z = x | y;
                if !v.contains(&z) {
                    v.push(z);
                }
            }
        }
        v
    }
    match p {
        MPol::After(t) => vec![if *t >= 500_000_000 { 2 } else { 1 }],
        MPol::Older(t) => vec![if t & 0x40_0000 != 0 { 8 } else { 4 }],
        MPol::And(v) => v.iter().fold(vec![0u8], |acc, x| cross(&acc, &path_sets(x))),
        MPol::Or(v) => {
            let mut out = Vec::new();
            for (_, x) in v {
                for s in path_sets(x) {
                    if !out.contains(&s) {
                        out.push(s);
                    }
                }
            }
            out
        }
        MPol::Thresh(k, v) => {
            let sets: Vec<Vec<u8>> = v.iter().map(path_sets).collect();
            let n = v.len();
            let mut out = Vec::new();
            for m in 0..(1u32 << n) {
                if m.count_ones() as usize != *k {
                    continue;
                }
                let mut acc = vec![0u8];
                for (i, s) in sets.iter().enumerate() {
                    if (m >> i) & 1 == 1 {
                        acc = cross(&acc, s);
                    }
                }
                for s in acc {
                    if !out.contains(&s) {
                        out.push(s);
                    }
                }
            }
            out
        }
        _ => vec![0],
    }
}

fn has_const(p: &MPol) -> bool {
    let mut f = false;
    p.walk(&mut |x| {
        if matches!(x, MPol::Trivial | MPol::Unsat) {
            f = true;
        }
    });
    f
}

fn interesting(p: &MPol) -> bool {
    let mut f = has_const(p);
    p.walk(&mut |x| match x {
        MPol::Thresh(k, v) => {
            for c in v {
                if let MPol::Thresh(k2, v2) = c {
                    if (*k == v.len()) == (*k2 == v2.len()) || (*k == 1) == (*k2 == 1) {
                        f = true;
                    }
                }
            }
        }
        MPol::And(v) => {
            if v.iter().any(|c| matches!(c, MPol::And(_))) {
                f = true;
            }
        }
        MPol::Or(v) => {
            if v.iter().any(|(_, c)| matches!(c, MPol::Or(_))) {
                f = true;
            }
        }
        _ => {}
    });
    // repeated atoms
    let mut leaves = Vec::new();
    p.walk(&mut |x| {
        if x.children().is_empty() && !matches!(x, MPol::Trivial | MPol::Unsat) {
            leaves.push(x.clone());
        }
    });
    let mut l2 = leaves.clone();
    l2.sort();
    l2.dedup();
    f || l2.len() < leaves.len()
}

/// Lane `compiled`: the abstract policy of a miniscript obtained from the policy compiler.  The
/// lift of the compiled script must exist exactly when no path of that script mixes lock units
/// (own path analysis of the script's AST), `has_mixed_timelocks()` must say the same, and the
/// lifted policy must be equivalent to the concrete policy's own lift.
fn compiled_case(src: &mut Src, rep: &mut Report) -> Result<(), Failure> {
    use miniscript::policy::Liftable;
    let ctx = *src.pick(&[Ctx::Segwitv0, Ctx::Tap, Ctx::Legacy]);
    let cfg = PolCfg {
        max_leaves: 7,
        allow_const: false,
        distinct_keys: true,
        key_hex_ctx: ctx,
        named_keys: false,
        consistent_locks: !src.chance(1, 2),
        max_weight: 5,
        allow_thresh: true,
        binary: true,
    };
    let p = gen::gen_policy(src, &cfg);
    let text = p.print();
    rep.desc = format!("{:?} {}", ctx, text);
    let c = match Concrete::<crate::glue::DK>::from_str(&text) {
        Ok(c) => c,
        Err(_) => {
            rep.class("rejected-by-parser");
            return Ok(());
        }
    };
    macro_rules! go {
        ($c:ty) => {{
            match c.compile::<$c>() {
                Ok(ms) => {
                    let node = crate::mirror::ast::from_lib(&ms);
                    let mixed = crate::mirror::analysis::has_mixed_timelocks(&node);
                    if ms.has_mixed_timelocks() != mixed {
                        return fail(
                            &format!("ms-mixed-timelocks/{}", if mixed { "false-negative" } else { "false-positive" }),
                            format!("has_mixed_timelocks() = {} for the compiled script {} but its paths {} lock units", !mixed, ms, if mixed { "mix" } else { "do not mix" }),
                        );
                    }
                    match ms.lift() {
                        Ok(l) => {
                            if mixed {
                                return fail("ms-lift-mixed", format!("lift() succeeded on {} although a path mixes lock units", ms));
                            }
                            let lm = MPol::from_semantic(&l);
                            if let Some(d) = equivalent(&p, &lm) {
                                return fail("compiled-lift-differs", format!("policy {} compiles to {} whose lift {} is not equivalent: {}", text, ms, l, d));
                            }
                            rep.class("compiled:lifted");
                            Some(ms.to_string())
                        }
                        Err(e) => {
                            if !mixed {
                                return fail("ms-lift-refused", format!("lift() of the compiled script {} fails ({}) although no path mixes lock units", ms, e));
                            }
                            rep.class("compiled:lift-refused-mixed");
                            None
                        }
                    }
                }
                Err(_) => {
                    rep.class("compile-error");
                    None
                }
            }
        }};
    }
    let out = match ctx {
        Ctx::Segwitv0 => go!(miniscript::Segwitv0),
        Ctx::Tap => go!(miniscript::Tap),
        _ => go!(miniscript::Legacy),
    };
    if let Some(o) = out {
        if interesting(&p) {
            rep.nontrivial_by(&(ctx as u8, o));
        }
    }
    Ok(())
}

impl Check for C18 {
    fn id(&self) -> &'static str { "C18" }
    fn rule(&self) -> String {
        "lane `compiled`: concrete policy -> compile::<Segwitv0 | Tap | Legacy> -> miniscript: lift() exists exactly when own path analysis of the script finds no path mixing lock units, has_mixed_timelocks() agrees, and the lift is truth-table equivalent to the policy. Other lanes: case = random abstract policy (<= 10 leaves, nested and/or/thresh with every k, TRIVIAL/UNSATISFIABLE children, repeated atoms) or concrete policy (and / weighted or / thresh). Oracles, all by own truth tables over the policy's distinct atoms (<= 2^12 rows): normalized() and sorted() equivalent to the original; at_age(a)/at_lock_time(t) equivalent to the original with every unmet lock atom forced false (a, t around the policy's locks, both units); A.entails(B) == (forall assignments A => B) on pairs (A, variant of A / independent B); minimum_n_keys == minimum number of true key occurrences over satisfying assignments (None iff unsatisfiable), n_keys == key leaves; Concrete::lift equivalent to own evaluation of the concrete tree; check_timelocks errs iff some syntactic path (one arm per or, all per and, any k per thresh) contains a height and a time lock of the same kind; is_safe_nonmalleable().0 iff no satisfying assignment has all keys false (constant-free policies). Non-trivial = policy contains a constant child, nested same-kind connectives or repeated atoms; distinct by policy text.".into()
    }
    fn lanes(&self, tier: Tier) -> Vec<(&'static str, usize, usize)> {
        match tier {
            Tier::Quick => vec![("semantic", 750_000, 200), ("concrete", 750_000, 200), ("compiled", 30_000, 300)],
            Tier::Thorough => vec![("semantic", 15_000_000, 300), ("concrete", 15_000_000, 300), ("compiled", 600_000, 400)],
        }
    }
    fn extra(&self, _tier: Tier, st: &mut crate::runner::Stats, _known: &dyn Fn(&str) -> bool, _threads: usize) -> Result<serde_json::Value, Failure> {
        // deterministic table for the mixed-time-lock check: every pair of lock values from a
        // list with both units, BIP68-ignored bits and boundary values, as a concrete policy, and
        // as a miniscript with the second lock under every wrapper that can carry it
        use miniscript::policy::Liftable;
        let olders: [u32; 9] = [1, 5, 0xffff, 0x40_0001, 0x40_ffff, 0x80_0005, 0xc0_0005, 0x1_0005, 0x7fbf_0003];
        let afters: [u32; 6] = [1, 499_999_999, 500_000_000, 500_000_001, 0x7fff_ffff, 65_536];
        let rel_time = |v: u32| v & 0x40_0000 != 0;
        let abs_time = |v: u32| v >= 500_000_000;
        let wraps = ["a:", "adv:", "al:", "au:", "an:", "atv:"];
        let mut n = 0u64;
        for (name, vals, is_time) in [("older", &olders[..], &rel_time as &dyn Fn(u32) -> bool), ("after", &afters[..], &abs_time as &dyn Fn(u32) -> bool)] {
            for a in vals {
                for b2 in vals {
                    let want = is_time(*a) != is_time(*b2);
                    let ptext = format!("and(pk(A),and({}({}),{}({})))", name, a, name, b2);
                    if let Ok(c) = Concrete::<String>::from_str(&ptext) {
                        n += 1;
                        if c.check_timelocks().is_err() != want {
                            return fail(&format!("check-timelocks/{}", if want { "false-negative" } else { "false-positive" }), format!("check_timelocks() of {} says mixed={}, the units {}", ptext, !want, if want { "differ" } else { "agree" }));
                        }
                        if c.lift().is_err() != want {
                            return fail(if want { "concrete-lift-mixed" } else { "concrete-lift-refused" }, format!("lift() of {} is {}", ptext, if want { "Ok although the units differ" } else { "refused although the units agree" }));
                        }
                    }
                    for w in wraps.iter() {
                        let mtext = format!("and_b({}({}),{}{}({}))", name, a, w, name, b2);
                        if let Ok(ms) = miniscript::Miniscript::<String, miniscript::Segwitv0>::from_str_insane(&mtext) {
                            n += 1;
                            if ms.has_mixed_timelocks() != want {
                                return fail(&format!("ms-mixed-timelocks/{}", if want { "false-negative" } else { "false-positive" }), format!("has_mixed_timelocks() = {} for {}", !want, mtext));
                            }
                            if ms.lift().is_err() != want {
                                return fail(if want { "ms-lift-mixed" } else { "ms-lift-refused" }, format!("lift() of {} is {}", mtext, if want { "Ok although a path mixes units" } else { "refused although no path mixes units" }));
                            }
                        }
                    }
                    // alternatives never mix
                    let otext = format!("or(and(pk(A),{}({})),and(pk(B),{}({})))", name, a, name, b2);
                    if let Ok(c) = Concrete::<String>::from_str(&otext) {
                        n += 1;
                        if c.check_timelocks().is_err() {
                            return fail("check-timelocks/false-positive", format!("check_timelocks() refuses {} whose locks sit on different paths", otext));
                        }
                    }
                }
            }
        }
        st.evaluations += n;
        Ok(serde_json::json!({"mixed_timelock_table_entries": n}))
    }
    fn run_case(&self, lane: &str, src: &mut Src, rep: &mut Report) -> Result<(), Failure> {
        if lane == "compiled" {
            return compiled_case(src, rep);
        }
        let cfg = PolCfg {
            max_leaves: 9,
            allow_const: true,
            distinct_keys: false,
            key_hex_ctx: Ctx::Segwitv0,
            named_keys: true,
            consistent_locks: false,
            max_weight: 5,
            allow_thresh: true,
            binary: false,
        };
        let p = gen::gen_policy(src, &cfg);
        if lane == "concrete" {
            let text = p.print();
            rep.desc = text.clone();
            let c = match Concrete::<String>::from_str(&text) {
                Ok(c) => c,
                Err(_) => {
                    rep.class("rejected-by-parser");
                    return Ok(());
                }
            };
            let mc = MPol::from_concrete(&c);
            if mc != p {
                return fail("concrete-parse-differs", format!("parsed concrete policy {:?} differs from generated {:?}", mc, p));
            }
            // check_timelocks
            let mixed = path_sets(&p).iter().any(|s| (s & 3) == 3 || (s & 12) == 12);
            let lib_mixed = c.check_timelocks().is_err();
            if mixed != lib_mixed {
                return fail(
                    &format!("check-timelocks/{}", if lib_mixed { "false-positive" } else { "false-negative" }),
                    format!("check_timelocks() says mixed={} but path analysis says mixed={} for {}", lib_mixed, mixed, text),
                );
            }
            {
                let mut unsafe_assign = false;
                let ats = atoms(&p);
                for_all(&ats, &mut |t| {
                    let t2 = |a: &Atom| !matches!(a, Atom::Key(_)) && t(a);
                    if eval_assign(&p, &t2) {
                        unsafe_assign = true;
                        false
                    } else {
                        true
                    }
                });
                let (safe, _) = c.is_safe_nonmalleable();
                if safe == unsafe_assign {
                    return fail(
                        "is-safe",
                        format!("is_safe_nonmalleable().0 = {} but a key-free satisfying assignment {} for {}", safe, if unsafe_assign { "exists" } else { "does not exist" }, text),
                    );
                }
            }
            match c.lift() {
                Ok(s) => {
                    let ms = MPol::from_semantic(&s);
                    if let Some(d) = equivalent(&p, &ms) {
                        return fail("concrete-lift", format!("lift() of {} is {} which is not equivalent: {}", text, s, d));
                    }
                    if mixed {
                        return fail("concrete-lift-mixed", format!("lift() succeeded on mixed-time-lock policy {}", text));
                    }
                }
                Err(_) => {
                    rep.class("lift-error");
                    if !mixed {
                        return fail("concrete-lift-refused", format!("lift() refused {} although no path mixes lock units", text));
                    }
                }
            }
            if interesting(&p) {
                rep.nontrivial_by(&text);
            }
            return Ok(());
        }
        // semantic lane
        let s = match to_semantic(&p) {
            Some(s) => s,
            None => {
                rep.class("not-constructible");
                return Ok(());
            }
        };
        let text = s.to_string();
        rep.desc = text.clone();
        let orig = MPol::from_semantic(&s);
        // normalized / sorted
        let n = s.clone().normalized();
        if let Some(d) = equivalent(&orig, &MPol::from_semantic(&n)) {
            return fail("normalized", format!("normalized() of {} is {}, not equivalent: {}", text, n, d));
        }
        let so = s.clone().sorted();
        if let Some(d) = equivalent(&orig, &MPol::from_semantic(&so)) {
            return fail("sorted", format!("sorted() of {} is {}, not equivalent: {}", text, so, d));
        }
        let nn = n.clone().normalized();
        if MPol::from_semantic(&nn) != MPol::from_semantic(&n) {
            return fail("normalized-idempotent", format!("normalized() is not idempotent on {}: {} then {}", text, n, nn));
        }
        // at_age / at_lock_time
        let mut olders = Vec::new();
        let mut afters = Vec::new();
        orig.walk(&mut |x| match x {
            MPol::Older(t) => olders.push(*t),
            MPol::After(t) => afters.push(*t),
            _ => {}
        });
        let mut ages: Vec<u32> = vec![1, 0xffff, 0x40_0001, 0x40_ffff];
        for o in &olders {
            ages.extend([*o, o.wrapping_sub(1), o + 1, o ^ 0x40_0000]);
        }
        for _ in 0..2 {
            let a = *src.pick(&ages);
            let val = (a & 0xffff) as u16;
            let age = if a & 0x40_0000 != 0 { relative::LockTime::from_512_second_intervals(val) } else { relative::LockTime::from_height(val) };
            let a_cons = if a & 0x40_0000 != 0 { 0x40_0000 | val as u32 } else { val as u32 };
            let r = s.clone().at_age(age);
            let mr = MPol::from_semantic(&r);
            let ats = union_atoms(&orig, &mr);
            let mut bad = None;
            for_all(&ats, &mut |t| {
                let t2 = |x: &Atom| match x {
                    Atom::Older(l) => t(x) && rel_met(*l, a_cons),
                    _ => t(x),
                };
                if eval_assign(&orig, &t2) != eval_assign(&mr, t) {
                    bad = Some(format!("{} vs {}", eval_assign(&orig, &t2), eval_assign(&mr, t)));
                    false
                } else {
                    true
                }
            });
            if let Some(b) = bad {
                return fail("at-age", format!("at_age({:#x}) of {} is {}: differs from the original restricted to that age ({})", a_cons, text, r, b));
            }
        }
        let mut lts: Vec<u32> = vec![1, 499_999_999, 500_000_000, 0x7fff_ffff];
        for a in &afters {
            lts.extend([*a, a.wrapping_sub(1), a + 1, if *a < 500_000_000 { 500_000_001 } else { 1000 }]);
        }
        for _ in 0..2 {
            let l = *src.pick(&lts);
            if l == 0 {
                continue;
            }
            let lt = absolute::LockTime::from_consensus(l);
            let r = s.clone().at_lock_time(lt);
            let mr = MPol::from_semantic(&r);
            let ats = union_atoms(&orig, &mr);
            let mut bad = None;
            for_all(&ats, &mut |t| {
                let t2 = |x: &Atom| match x {
                    Atom::After(a) => t(x) && abs_met(*a, l),
                    _ => t(x),
                };
                if eval_assign(&orig, &t2) != eval_assign(&mr, t) {
                    bad = Some(format!("{} vs {}", eval_assign(&orig, &t2), eval_assign(&mr, t)));
                    false
                } else {
                    true
                }
            });
            if let Some(b) = bad {
                return fail("at-lock-time", format!("at_lock_time({}) of {} is {}: differs from the original restricted to that time ({})", l, text, r, b));
            }
        }
        // minimum_n_keys / n_keys
        let mut nk = 0usize;
        orig.walk(&mut |x| {
            if matches!(x, MPol::Key(_)) {
                nk += 1;
            }
        });
        if s.n_keys() != nk {
            return fail("n-keys", format!("n_keys() = {} but {} key leaves in {}", s.n_keys(), nk, text));
        }
        if nk <= 14 {
            let own = own_min_keys(&orig);
            let lib = s.minimum_n_keys();
            if own != lib {
                return fail("minimum-n-keys", format!("minimum_n_keys() = {:?} but the fewest true key occurrences over satisfying assignments is {:?} for {}", lib, own, text));
            }
        }
        // entailment: against a second policy (independent, or a mutation of the first)
        let q = if src.bool() {
            gen::gen_policy(src, &cfg)
        } else {
            match src.below(4) {
                0 => MPol::Or(vec![(1, p.clone()), (1, gen::gen_policy(src, &cfg))]),
                1 => MPol::And(vec![p.clone(), gen::gen_policy(src, &cfg)]),
                2 => MPol::Trivial,
                _ => MPol::Unsat,
            }
        };
        if let Some(sq) = to_semantic(&q) {
            let mq = MPol::from_semantic(&sq);
            let ats = union_atoms(&orig, &mq);
            if ats.len() <= 12 {
                for (a, b2, sa, sb) in [(&orig, &mq, s.clone(), sq.clone()), (&mq, &orig, sq.clone(), s.clone())] {
                    let mut truth = true;
                    for_all(&ats, &mut |t| {
                        if eval_assign(a, t) && !eval_assign(b2, t) {
                            truth = false;
                            false
                        } else {
                            true
                        }
                    });
                    let (ta, tb) = (sa.to_string(), sb.to_string());
                    if let Some(ans) = sa.entails(sb) {
                        if ans != truth {
                            return fail(
                                &format!("entails/{}", if ans { "says-true" } else { "says-false" }),
                                format!("({}).entails({}) = {} but truth-table implication is {}", ta, tb, ans, truth),
                            );
                        }
                    }
                }
            }
        }
        if interesting(&orig) {
            rep.nontrivial_by(&text);
        }
        let _ = poleval::eval_world;
        Ok(())
    }
}
