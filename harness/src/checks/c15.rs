//! C15 — taproot outputs commit to exactly the described script tree.

use crate::bip341;
use crate::glue::DK;
use crate::keys;
use crate::mdesc::{MDesc, MTree};
use crate::mirror::ast::{self, b, Node};
use crate::mirror::encode::key_bytes;
use crate::mirror::spec::Ctx;
use crate::runner::{fail, Check, Failure, Report, Src, Tier};
use miniscript::descriptor::{TapTree, Tr};
use miniscript::{Descriptor, Miniscript, Tap, Translator};
use std::str::FromStr;

pub struct C15;

fn leaf_node(i: usize, dup: bool) -> Node {
    let j = if dup { i / 2 } else { i };
    // distinct small tapscripts; every script stays tiny
    if j % 7 == 6 {
        // full (02/03) keys of both parities: script order is by the x-only form
        return Node::SortedMultiA(1, vec![keys::key_compressed(j % 12), keys::key_compressed((j + 3) % 12), keys::key_compressed((j + 7) % 12)]);
    }
    match j % 3 {
        0 => Node::AndV(b(Node::Verify(b(Node::Check(b(Node::PkK(keys::key_xonly(j % 12))))))), b(Node::Older((j + 1) as u32))),
        1 => Node::AndV(b(Node::Verify(b(Node::Check(b(Node::PkK(keys::key_xonly((j + 5) % 12))))))), b(Node::After((j + 1) as u32))),
        _ => Node::MultiA(1, vec![keys::key_xonly(j % 12), keys::key_xonly((j + 1 + (j / 12) % 11) % 12)]),
    }
}

fn comb(depth: usize, left: bool, next: &mut usize, dup: bool) -> MTree {
    // a chain: at every level one leaf and one subtree
    let mut t = MTree::Leaf(leaf_node(*next, dup));
    *next += 1;
    let mut d = 0;
    // build bottom-up: deepest pair first
    let first_sibling = MTree::Leaf(leaf_node(*next, dup));
    *next += 1;
    if depth == 0 {
        return t;
    }
    t = if left { MTree::Branch(Box::new(t), Box::new(first_sibling)) } else { MTree::Branch(Box::new(first_sibling), Box::new(t)) };
    d += 1;
    while d < depth {
        let l = MTree::Leaf(leaf_node(*next, dup));
        *next += 1;
        t = if left { MTree::Branch(Box::new(t), Box::new(l)) } else { MTree::Branch(Box::new(l), Box::new(t)) };
        d += 1;
    }
    t
}

fn height(t: &MTree) -> usize {
    match t {
        MTree::Leaf(_) => 0,
        MTree::Branch(a, b2) => 1 + height(a).max(height(b2)),
    }
}

fn random_tree(src: &mut Src, n: usize, next: &mut usize, dup: bool) -> MTree {
    if n <= 1 {
        let t = MTree::Leaf(leaf_node(*next, dup));
        *next += 1;
        return t;
    }
    let l = src.range(1, n - 1);
    let a = random_tree(src, l, next, dup);
    let b2 = random_tree(src, n - l, next, dup);
    MTree::Branch(Box::new(a), Box::new(b2))
}

fn balanced(depth: usize, next: &mut usize, dup: bool) -> MTree {
    if depth == 0 {
        let t = MTree::Leaf(leaf_node(*next, dup));
        *next += 1;
        return t;
    }
    let a = balanced(depth - 1, next, dup);
    let b2 = balanced(depth - 1, next, dup);
    MTree::Branch(Box::new(a), Box::new(b2))
}

fn lib_tree(t: &MTree) -> Result<TapTree<DK>, String> {
    match t {
        MTree::Leaf(n) => {
            let ms = Miniscript::<DK, Tap>::from_str(&ast::print(n, true)).map_err(|e| e.to_string())?;
            Ok(TapTree::leaf(ms))
        }
        MTree::Branch(a, b2) => TapTree::combine(lib_tree(a)?, lib_tree(b2)?).map_err(|e| e.to_string()),
    }
}

struct Ident;
impl Translator<DK> for Ident {
    type TargetPk = DK;
    type Error = ();
    fn pk(&mut self, pk: &DK) -> Result<DK, ()> { Ok(pk.clone()) }
    fn sha256(&mut self, h: &<DK as miniscript::MiniscriptKey>::Sha256) -> Result<<DK as miniscript::MiniscriptKey>::Sha256, ()> { Ok(*h) }
    fn hash256(&mut self, h: &<DK as miniscript::MiniscriptKey>::Hash256) -> Result<<DK as miniscript::MiniscriptKey>::Hash256, ()> { Ok(*h) }
    fn ripemd160(&mut self, h: &<DK as miniscript::MiniscriptKey>::Ripemd160) -> Result<<DK as miniscript::MiniscriptKey>::Ripemd160, ()> { Ok(*h) }
    fn hash160(&mut self, h: &<DK as miniscript::MiniscriptKey>::Hash160) -> Result<<DK as miniscript::MiniscriptKey>::Hash160, ()> { Ok(*h) }
}

/// Maps every key through `map` (text -> text); fails on `fail_on`.
struct Mapper<'a> {
    map: &'a dyn Fn(&str) -> String,
    fail_on: Option<String>,
}
impl<'a> Translator<DK> for Mapper<'a> {
    type TargetPk = DK;
    type Error = ();
    fn pk(&mut self, pk: &DK) -> Result<DK, ()> {
        let t = pk.to_string();
        if self.fail_on.as_deref() == Some(&t[..]) {
            return Err(());
        }
        DK::from_str(&(self.map)(&t)).map_err(|_| ())
    }
    fn sha256(&mut self, h: &<DK as miniscript::MiniscriptKey>::Sha256) -> Result<<DK as miniscript::MiniscriptKey>::Sha256, ()> { Ok(*h) }
    fn hash256(&mut self, h: &<DK as miniscript::MiniscriptKey>::Hash256) -> Result<<DK as miniscript::MiniscriptKey>::Hash256, ()> { Ok(*h) }
    fn ripemd160(&mut self, h: &<DK as miniscript::MiniscriptKey>::Ripemd160) -> Result<<DK as miniscript::MiniscriptKey>::Ripemd160, ()> { Ok(*h) }
    fn hash160(&mut self, h: &<DK as miniscript::MiniscriptKey>::Hash160) -> Result<<DK as miniscript::MiniscriptKey>::Hash160, ()> { Ok(*h) }
}

/// Print the tree with the `at`-th branch (pre-order) malformed: 0 = a third child, 1 = a single
/// child, 2 = a trailing comma.
fn print_malformed(t: &MTree, at: usize, kind: usize, extra: &str, counter: &mut usize) -> String {
    match t {
        MTree::Leaf(n) => ast::print(n, true),
        MTree::Branch(a, b2) => {
            let me = *counter;
            *counter += 1;
            let l = print_malformed(a, at, kind, extra, counter);
            let r = print_malformed(b2, at, kind, extra, counter);
            if me != at {
                format!("{{{},{}}}", l, r)
            } else {
                match kind {
                    0 => format!("{{{},{},{}}}", l, r, extra),
                    1 => format!("{{{}}}", l),
                    2 => format!("{{{},{},}}", l, r),
                    _ => format!("{{{},{{{}}}}}", l, r),
                }
            }
        }
    }
}

fn n_branches(t: &MTree) -> usize {
    match t {
        MTree::Leaf(_) => 0,
        MTree::Branch(a, b2) => 1 + n_branches(a) + n_branches(b2),
    }
}

/// Invariants of C15 that need no model: whatever `Tr` value the library hands out, its leaf list
/// and its spend info agree and every control block proves its leaf against the output key.
fn check_self(tr: &Tr<DK>, how: &str) -> Result<(), Failure> {
    let spk = tr.script_pubkey();
    let sb = spk.as_bytes();
    if sb.len() != 34 || sb[0] != 0x51 || sb[1] != 32 {
        return fail(&format!("self-spk/{}", how), "scriptPubKey is not a v1 program".to_string());
    }
    let mut q = [0u8; 32];
    q.copy_from_slice(&sb[2..]);
    let a: Vec<(usize, Vec<u8>)> = tr.leaves().map(|l| (l.depth() as usize, l.compute_script().into_bytes())).collect();
    // the leaf iterator from the back, and from both ends alternately
    {
        let mut back: Vec<(usize, Vec<u8>)> = tr.leaves().rev().map(|l| (l.depth() as usize, l.compute_script().into_bytes())).collect();
        back.reverse();
        if back != a {
            return fail(&format!("self-leaves-reversed/{}", how), "Tr::leaves().rev() is not the reverse of Tr::leaves()".to_string());
        }
        let mut it = tr.leaves();
        let (mut front, mut tail) = (Vec::new(), Vec::new());
        loop {
            match it.next() {
                Some(l) => front.push((l.depth() as usize, l.compute_script().into_bytes())),
                None => break,
            }
            match it.next_back() {
                Some(l) => tail.push((l.depth() as usize, l.compute_script().into_bytes())),
                None => break,
            }
        }
        tail.reverse();
        front.extend(tail);
        if front != a {
            return fail(&format!("self-leaves-two-ended/{}", how), "alternating next() / next_back() on Tr::leaves() does not visit every leaf once in order".to_string());
        }
        if tr.leaves().len() != a.len() {
            return fail(&format!("self-leaves-len/{}", how), format!("Tr::leaves().len() = {} but it yields {} leaves", tr.leaves().len(), a.len()));
        }
    }
    let si = tr.spend_info();
    let b2: Vec<(usize, Vec<u8>)> = si.leaves().map(|l| (usize::from(l.depth()), l.script().as_bytes().to_vec())).collect();
    if a != b2 {
        return fail(&format!("self-leaves-vs-spend-info/{}", how), format!("Tr::leaves() depths {:?} but spend_info depths {:?}", a.iter().map(|x| x.0).collect::<Vec<_>>(), b2.iter().map(|x| x.0).collect::<Vec<_>>()));
    }
    for (i, item) in si.leaves().enumerate() {
        let cb = item.control_block().serialize();
        let lh = bip341::tapleaf_hash(0xc0, item.script().as_bytes());
        if !bip341::verify_commitment(&cb, &q, &lh) {
            return fail(&format!("self-control-block/{}", how), format!("control block of leaf #{} does not prove the leaf against the output key", i + 1));
        }
    }
    // Kraft equality: the depths describe a full binary tree
    if !a.is_empty() {
        let mut sum = 0f64;
        for (d, _) in &a {
            sum += (0.5f64).powi(*d as i32);
        }
        if a.iter().all(|x| x.0 <= 50) && (sum - 1.0).abs() > 1e-12 {
            return fail(&format!("self-not-a-binary-tree/{}", how), format!("leaf depths {:?} do not form a binary tree", a.iter().map(|x| x.0).collect::<Vec<_>>()));
        }
    }
    Ok(())
}

fn check_tr(tr: &Tr<DK>, ik32: &[u8; 32], model: &bip341::Tree, how: &str) -> Result<(), Failure> {
    let leaves = model.leaves();
    let root = model.root();
    let (q, parity) = bip341::output_key(ik32, Some(&root)).ok_or(Failure { sig: "tweak".into(), msg: "tweak failed".into() })?;
    // (depth, script) list through the descriptor's own iterator
    let got: Vec<(usize, Vec<u8>)> = tr.leaves().map(|l| (l.depth() as usize, l.compute_script().into_bytes())).collect();
    let want: Vec<(usize, Vec<u8>)> = leaves.iter().map(|(d, s, _)| (*d, s.clone())).collect();
    if got != want {
        return fail(&format!("leaves-order/{}", how), format!("leaf list (depth, script) differs from the described tree: got {} leaves {:?}, want {:?}", got.len(), got.iter().map(|x| x.0).collect::<Vec<_>>(), want.iter().map(|x| x.0).collect::<Vec<_>>()));
    }
    let spk = tr.script_pubkey();
    let mut want_spk = vec![0x51, 32];
    want_spk.extend_from_slice(&q);
    if spk.as_bytes() != &want_spk[..] {
        return fail(&format!("output-key/{}", how), format!("scriptPubKey {} != BIP341 tweak of the internal key by the tree's Merkle root {}", spk.to_hex_string(), keys::hex(&want_spk)));
    }
    let si = tr.spend_info();
    if si.merkle_root().map(|r| { use bitcoin::hashes::Hash; r.to_byte_array() }) != Some(root) {
        return fail(&format!("merkle-root/{}", how), "spend_info().merkle_root() differs from own BIP341 root".to_string());
    }
    if si.output_key().to_x_only_public_key().serialize() != q {
        return fail(&format!("spend-info-output-key/{}", how), "spend_info().output_key() differs".to_string());
    }
    let par = if si.output_key_parity() == secp256k1::Parity::Odd { 1 } else { 0 };
    if par != parity {
        return fail(&format!("parity/{}", how), format!("parity {} vs own {}", par, parity));
    }
    let mut n = 0usize;
    for (item, (depth, script, path)) in si.leaves().zip(leaves.iter()) {
        n += 1;
        let cb = item.control_block().serialize();
        let lh = bip341::tapleaf_hash(0xc0, script);
        if item.script().as_bytes() != &script[..] {
            return fail(&format!("spend-info-leaf-script/{}", how), format!("leaf #{} script differs", n));
        }
        if usize::from(item.depth()) != *depth {
            return fail(&format!("spend-info-depth/{}", how), format!("leaf #{} depth {} vs {}", n, item.depth(), depth));
        }
        if cb.len() != 33 + 32 * depth {
            return fail(&format!("control-block-len/{}", how), format!("leaf #{} control block has {} bytes at depth {}", n, cb.len(), depth));
        }
        if !bip341::verify_commitment(&cb, &q, &lh) {
            return fail(&format!("control-block-commitment/{}", how), format!("control block of leaf #{} (depth {}) does not prove the leaf against the output key", n, depth));
        }
        // exact path
        let mut want_cb = vec![0xc0 | parity];
        want_cb.extend_from_slice(ik32);
        for p in path {
            want_cb.extend_from_slice(p);
        }
        if cb != want_cb {
            return fail(&format!("control-block-bytes/{}", how), format!("control block of leaf #{} differs from the own Merkle path", n));
        }
        {
            use bitcoin::hashes::Hash;
            if item.leaf_hash().to_byte_array() != lh {
                return fail(&format!("leaf-hash/{}", how), format!("leaf #{} leaf hash differs", n));
            }
        }
    }
    if n != leaves.len() || si.leaves().count() != leaves.len() {
        return fail(&format!("spend-info-count/{}", how), format!("spend_info yields {} leaves, tree has {}", n, leaves.len()));
    }
    // rust-bitcoin tree
    if let Some(tt) = si.to_tap_tree() {
        let got: Vec<(usize, Vec<u8>)> = tt.script_leaves().map(|l| (l.merkle_branch().len(), l.script().as_bytes().to_vec())).collect();
        // rust-bitcoin does not promise DFS order for script_leaves(): compare as multisets
        let mut got = got;
        let mut want2 = want.clone();
        got.sort();
        want2.sort();
        if got != want2 {
            return fail(&format!("to-tap-tree/{}", how), "TrSpendInfo::to_tap_tree() has different leaves".to_string());
        }
    } else {
        return fail(&format!("to-tap-tree/{}", how), "to_tap_tree() is None for a non-empty tree".to_string());
    }
    Ok(())
}

impl Check for C15 {
    fn id(&self) -> &'static str { "C15" }
    fn rule(&self) -> String {
        "case = (tree shape in {random binary tree <= 24 leaves, left / right chain of depth 1..128, balanced depth <= 6, chain with a random subtree, spine of total depth up to exactly 128 (all-left / all-right / mixed turns) with a random <= 6-leaf subtree at the bottom}, distinct or partly duplicated small leaf scripts, internal key) built through TapTree::leaf/combine and through text. Oracles: own BIP341 (tagged hashes, sorted branches, tweak): scriptPubKey / output key / parity / merkle_root; every spend_info leaf: control block bytes equal the own Merkle path, verify against the output key, length 33+32*depth, leaf hash; the (depth, script) DFS list equals the model through the constructor, parse, print->parse, identity translate_pk, Clone, spend_info (twice), TrSpendInfo::to_tap_tree; depth 129 must be rejected by both construction paths. Non-trivial = >= 3 leaves and not perfectly balanced, or depth >= 64; distinct by descriptor text.".into()
    }
    fn lanes(&self, tier: Tier) -> Vec<(&'static str, usize, usize)> {
        match tier {
            Tier::Quick => vec![("trees", 9_000, 300)],
            Tier::Thorough => vec![("trees", 180_000, 300)],
        }
    }
    fn extra(&self, tier: Tier, st: &mut crate::runner::Stats, _known: &dyn Fn(&str) -> bool, _threads: usize) -> Result<serde_json::Value, Failure> {
        // all chains of depth 1..=128 (thorough: both sides; quick: a spread) and the depth-129 rejects
        let depths: Vec<usize> = if tier == Tier::Thorough { (1..=128).collect() } else { vec![1, 2, 3, 7, 8, 9, 31, 32, 33, 63, 64, 65, 100, 126, 127, 128] };
        let ik = keys::key_xonly(1);
        let ikb = key_bytes(&ik, Ctx::Tap).map_err(|e| Failure { sig: "key".into(), msg: e })?;
        let mut ik32 = [0u8; 32];
        ik32.copy_from_slice(&ikb);
        let mut n = 0u64;
        for d in &depths {
            for left in [true, false] {
                let mut next = 0;
                let t = comb(*d, left, &mut next, false);
                let model = t.to_model().map_err(|e| Failure { sig: "mirror-encode".into(), msg: e })?;
                let lt = lib_tree(&t).map_err(|e| Failure { sig: format!("chain-rejected/{}", d), msg: format!("chain of depth {} rejected by TapTree::combine: {}", d, e) })?;
                let tr = Tr::new(DK::from_str(&ik).unwrap(), Some(lt)).map_err(|e| Failure { sig: "tr-new".into(), msg: e.to_string() })?;
                check_tr(&tr, &ik32, &model, &format!("chain{}-ctor", if left { "L" } else { "R" }))?;
                let text = MDesc::Tr(ik.clone(), Some(t.clone())).print(true);
                match Descriptor::<DK>::from_str(&text) {
                    Ok(Descriptor::Tr(tr2)) => check_tr(&tr2, &ik32, &model, &format!("chain{}-text", if left { "L" } else { "R" }))?,
                    Ok(_) => return fail("not-tr", "parsed to a non-tr descriptor".to_string()),
                    Err(e) => return fail(&format!("chain-text-rejected/{}", d), format!("chain of depth {} rejected by the parser: {}", d, e)),
                }
                n += 2;
                st.count_nontrivial(&("chain", *d, left));
            }
        }
        // depth 129 must be an error
        for left in [true, false] {
            let mut next = 0;
            let t = comb(129, left, &mut next, false);
            if lib_tree(&t).is_ok() {
                return fail("depth-129-accepted/ctor", "TapTree::combine built a tree of depth 129".to_string());
            }
            let text = MDesc::Tr(ik.clone(), Some(t)).print(true);
            if Descriptor::<DK>::from_str(&text).is_ok() {
                return fail("depth-129-accepted/text", "the parser accepted a tree of depth 129".to_string());
            }
            n += 2;
        }
        st.evaluations += n;
        Ok(serde_json::json!({"chains_checked": n, "chain_depths": depths.len()}))
    }
    fn run_case(&self, _lane: &str, src: &mut Src, rep: &mut Report) -> Result<(), Failure> {
        let dup = src.chance(1, 4);
        let mut next = src.below(40);
        let t = gen_shape(src, &mut next, dup);
        self.run_tree(src, rep, t)
    }
}

/// Random tree shape (see the rule text); `next` numbers the leaf scripts.
pub fn gen_shape(src: &mut Src, next_ref: &mut usize, dup: bool) -> MTree {
    let mut next = *next_ref;
    let shape = src.below(7);
    let t = {
        match shape {
            5 | 6 => {
                // a spine reaching (close to) the BIP341 maximum with a bushy bottom: several
                // leaves / sibling pairs at depth 126..128; turns all-left, all-right or mixed
                let n = src.range(1, 6);
                let mut t = random_tree(src, n, &mut next, dup);
                let h = height(&t);
                let total = match src.below(4) {
                    0 => 128,
                    1 => 127,
                    2 => src.range(120, 128),
                    _ => src.range(41, 128),
                };
                let turns = src.below(3);
                for _ in 0..total.saturating_sub(h) {
                    let l = MTree::Leaf(leaf_node(next, dup));
                    next += 1;
                    let left = match turns {
                        0 => true,
                        1 => false,
                        _ => src.bool(),
                    };
                    t = if left { MTree::Branch(Box::new(t), Box::new(l)) } else { MTree::Branch(Box::new(l), Box::new(t)) };
                }
                t
            }
            0 | 1 => {
                let n = src.range(1, 24);
                random_tree(src, n, &mut next, dup)
            }
            2 => {
                let d = src.range(1, 40);
                comb(d, src.bool(), &mut next, dup)
            }
            3 => balanced(src.range(0, 5), &mut next, dup),
            _ => {
                // chain with a random subtree at the bottom
                let d = src.range(1, 20);
                let left = src.bool();
                let n = src.range(2, 8);
                let mut t = random_tree(src, n, &mut next, dup);
                for _ in 0..d {
                    let l = MTree::Leaf(leaf_node(next, dup));
                    next += 1;
                    t = if left { MTree::Branch(Box::new(t), Box::new(l)) } else { MTree::Branch(Box::new(l), Box::new(t)) };
                }
                t
            }
        }
    };
    *next_ref = next;
    t
}

impl C15 {
    fn run_tree(&self, src: &mut Src, rep: &mut Report, t: MTree) -> Result<(), Failure> {
        let iki = src.below(12);
        let ik = if src.bool() { keys::key_xonly(iki) } else { keys::key_xpub(src.below(3), src.below(3) as u32, src.below(8) as u32, src.bool()) };
        let ikb = key_bytes(&ik, Ctx::Tap).map_err(|e| Failure { sig: "key".into(), msg: e })?;
        let mut ik32 = [0u8; 32];
        ik32.copy_from_slice(&ikb);
        let md = MDesc::Tr(ik.clone(), Some(t.clone()));
        let text = md.print(src.bool());
        let model = t.to_model().map_err(|e| Failure { sig: "mirror-encode".into(), msg: e })?;
        rep.desc = format!("{} leaves, max depth {}: {}", model.n_leaves(), model.max_depth(), if text.len() > 300 { &text[..300] } else { &text });
        rep.class(format!("leaves-bucket={}", (model.n_leaves() / 16) * 16));
        rep.class(format!("depth-bucket={}", (model.max_depth() / 8) * 8));
        // ctor path
        let lt = lib_tree(&t).map_err(|e| Failure { sig: "tree-rejected".into(), msg: e })?;
        let tr = Tr::new(DK::from_str(&ik).map_err(|e| Failure { sig: "key".into(), msg: e.to_string() })?, Some(lt)).map_err(|e| Failure { sig: "tr-new".into(), msg: e.to_string() })?;
        check_tr(&tr, &ik32, &model, "ctor")?;
        // twice (cache)
        check_tr(&tr, &ik32, &model, "ctor-again")?;
        // clone
        check_tr(&tr.clone(), &ik32, &model, "clone")?;
        // identity translation
        let tr_t: Tr<DK> = tr.translate_pk(&mut Ident).map_err(|_| Failure { sig: "translate".into(), msg: "identity translation failed".into() })?;
        check_tr(&tr_t, &ik32, &model, "translate")?;
        // text path
        let parsed = match Descriptor::<DK>::from_str(&text) {
            Ok(Descriptor::Tr(t2)) => t2,
            Ok(_) => return fail("not-tr", "parsed to a non-tr descriptor".to_string()),
            Err(e) => return fail("text-rejected", format!("{}: {}", text, e)),
        };
        check_tr(&parsed, &ik32, &model, "text")?;
        // print -> parse
        let printed = Descriptor::Tr(tr.clone()).to_string();
        match Descriptor::<DK>::from_str(&printed) {
            Ok(Descriptor::Tr(t3)) => check_tr(&t3, &ik32, &model, "print-parse")?,
            _ => return fail("print-parse-rejected", format!("printed form does not re-parse: {}", printed)),
        }
        // a key-changing translation: every x-only test key i -> key (i + shift) % 12
        {
            let shift = src.range(1, 11);
            let table: Vec<(String, String)> = (0..12).map(|i| (keys::key_xonly(i), keys::key_xonly((i + shift) % 12))).collect();
            let mapf = move |k: &str| -> String { table.iter().find(|(a, _)| a == k).map(|(_, b2)| b2.clone()).unwrap_or_else(|| k.to_string()) };
            let md2 = md.map_keys(&mut |k| mapf(k));
            if let MDesc::Tr(ik2, Some(t2)) = &md2 {
                let ikb2 = key_bytes(ik2, Ctx::Tap).map_err(|e| Failure { sig: "key".into(), msg: e })?;
                let mut ik32b = [0u8; 32];
                ik32b.copy_from_slice(&ikb2);
                let model2 = t2.to_model().map_err(|e| Failure { sig: "mirror-encode".into(), msg: e })?;
                let tr_m: Tr<DK> = tr.translate_pk(&mut Mapper { map: &mapf, fail_on: None }).map_err(|_| Failure { sig: "translate-map".into(), msg: "key-mapping translation failed".into() })?;
                check_tr(&tr_m, &ik32b, &model2, "translate-map")?;
                rep.class("translate-map".to_string());
            }
            // a translation that fails on a key occurring in one leaf only: the result may not be a
            // descriptor that silently lost leaves
            let leaves = t.leaves();
            let li = src.below(leaves.len());
            let lkeys = leaves[li].1.keys();
            if !lkeys.is_empty() {
                let target = lkeys[src.below(lkeys.len())].clone();
                if target != ik {
                    let idf = |k: &str| k.to_string();
                    match tr.translate_pk(&mut Mapper { map: &idf, fail_on: Some(target.clone()) }) {
                        Err(_) => rep.class("translate-fails-in-leaf:err".to_string()),
                        Ok(t2) => {
                            let t2: Tr<DK> = t2;
                            let n2 = t2.leaves().count();
                            if n2 != leaves.len() {
                                return fail("translate-error-swallowed", format!("a translator failing on a key of leaf #{} got Ok with {} of {} leaves", li + 1, n2, leaves.len()));
                            }
                        }
                    }
                }
            }
        }
        // malformed tree text (non-binary branch): rejected, or whatever value comes back is self-consistent
        if n_branches(&t) > 0 {
            let at = src.below(n_branches(&t));
            let kind = src.below(4);
            let extra = ast::print(&leaf_node(src.below(40), false), true);
            let mut c = 0;
            let bad = format!("tr({},{})", ik, print_malformed(&t, at, kind, &extra, &mut c));
            match Descriptor::<DK>::from_str(&bad) {
                Err(_) => rep.class("malformed-branch:rejected".to_string()),
                Ok(Descriptor::Tr(tb)) => {
                    rep.class("malformed-branch:accepted".to_string());
                    check_self(&tb, "malformed-branch")?;
                    let again = Descriptor::Tr(tb.clone()).to_string();
                    match Descriptor::<DK>::from_str(&again) {
                        Ok(d2) if d2 == Descriptor::Tr(tb) => {}
                        _ => return fail("malformed-branch/print-parse", format!("`{}` parses but its printed form `{}` does not parse back to it", bad, again)),
                    }
                }
                Ok(_) => return fail("not-tr", "parsed to a non-tr descriptor".to_string()),
            }
        }
        check_self(&tr, "ctor")?;
        // mirror of the library value equals the mirror tree
        let back = crate::glue::mdesc_from_lib(&Descriptor::Tr(parsed)).map_err(|e| Failure { sig: "mdesc".into(), msg: e })?;
        if back != md {
            return fail("mirror-differs", "tree read back from the library value differs from the described tree".to_string());
        }
        let bal = {
            let ls = model.leaves();
            ls.iter().all(|l| l.0 == ls[0].0)
        };
        if (model.n_leaves() >= 3 && !bal) || model.max_depth() >= 64 {
            rep.nontrivial_by(&text);
        }
        Ok(())
    }
}
