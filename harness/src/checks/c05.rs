//! C05 — fragment typing equals the Miniscript specification's tables.

use crate::gen::{self, Cfg};
use crate::mirror::ast::{self, Node};
use crate::mirror::spec::{self, Ctx, Frag, T};
use crate::runner::{fail, Check, Failure, Report, Src, Stats, Tier};
use miniscript::miniscript::types::Type;
use miniscript::{BareCtx, Legacy, Miniscript, Segwitv0, Tap};
use serde_json::{json, Value};
use std::sync::atomic::{AtomicU64, Ordering};
use std::sync::Mutex;

pub struct C05;

const PROPS: [(T, char); 9] = [
    (spec::Z, 'z'),
    (spec::O, 'o'),
    (spec::N, 'n'),
    (spec::D, 'd'),
    (spec::U, 'u'),
    (spec::S, 's'),
    (spec::F, 'f'),
    (spec::E, 'e'),
    (spec::M, 'm'),
];

/// Compare one library result with the specification's.
/// `sanitary`: all children satisfy the specification's type invariants (so exactness applies).
/// Returns a discrepancy signature + message.
fn compare(frag: &str, lib: Option<T>, sp: Option<T>, sanitary: bool, children: &[T]) -> Option<(String, String)> {
    let ch: Vec<String> = children.iter().map(|c| spec::show(*c)).collect();
    match (lib, sp) {
        (None, None) => None,
        (Some(l), None) => Some((
            format!("accepts-rejected/{}", frag),
            format!("{}({}) is rejected by the specification but typed {} by the library", frag, ch.join(","), spec::show(l)),
        )),
        (None, Some(s)) => Some((
            format!("rejects-accepted/{}", frag),
            format!("{}({}) is typed {} by the specification but rejected by the library", frag, ch.join(","), spec::show(s)),
        )),
        (Some(l), Some(s)) => {
            if l & spec::BASES != s & spec::BASES {
                return Some((
                    format!("base/{}", frag),
                    format!("{}({}): library base {} vs specification {}", frag, ch.join(","), spec::show(l), spec::show(s)),
                ));
            }
            // Property letters are only meaningful for children that satisfy the
            // specification's own type invariants (e.g. there is no zero-argument K); on other
            // tuples only accept/reject and the base type are compared.
            if !sanitary {
                return None;
            }
            for (b, c) in PROPS {
                if l & b != 0 && s & b == 0 {
                    return Some((
                        format!("stronger/{}/{}", frag, c),
                        format!("{}({}): library grants `{}` ({}), the specification does not ({})", frag, ch.join(","), c, spec::show(l), spec::show(s)),
                    ));
                }
            }
            {
                for (b, c) in PROPS {
                    if l & b == 0 && s & b != 0 {
                        // documented conservative entries
                        if frag == "d" && c == 'u' {
                            continue;
                        }
                        return Some((
                            format!("weaker/{}/{}", frag, c),
                            format!("{}({}): the specification grants `{}` ({}), the library does not ({}) and this is not a documented conservative entry", frag, ch.join(","), c, spec::show(s), spec::show(l)),
                        ));
                    }
                }
            }
            None
        }
    }
}

struct Acc<'a> {
    evals: AtomicU64,
    accepted: AtomicU64,
    first: Mutex<Option<Failure>>,
    known: &'a (dyn Fn(&str) -> bool + Sync),
    known_counts: Mutex<std::collections::BTreeMap<String, u64>>,
}

impl<'a> Acc<'a> {
    fn report(&self, d: Option<(String, String)>) {
        if let Some((sig, msg)) = d {
            if (self.known)(&sig) {
                *self.known_counts.lock().unwrap().entry(sig).or_insert(0) += 1;
            } else {
                let mut f = self.first.lock().unwrap();
                if f.is_none() {
                    *f = Some(Failure { sig, msg });
                }
            }
        }
    }
    fn failed(&self) -> bool { self.first.lock().unwrap().is_some() }
}

fn lib_t(r: Result<Type, miniscript::miniscript::types::ErrorKind>) -> Option<T> { r.ok().map(|t| spec::from_lib(&t)) }

impl Check for C05 {
    fn id(&self) -> &'static str { "C05" }
    fn rule(&self) -> String {
        "lane `derived`: values that did not come from the parser (decode(encode(M)), the same with key hashes substituted back by substitute_raw_pkh with the full and the empty map, real keys incl. uncompressed): every node's stored type equals the specification's rule applied to its children's stored types. deterministic phase: complete enumeration of (type constructor x tuple of child types) over all 960 library type values per child: 10 casts, 6 binary combinators (960^2 each), andor (quick: all 80^3 correctness triples and all 12^3 malleability triples, which the rules treat independently, + 2e6 random full triples; thorough: all 960^3), thresh for n=1,2 with every 1<=k<=n (thorough: n=3), leaf constants. Each library result is compared with the specification's rule (transcribed from the reference implementation's ComputeType): accept/reject must agree, the library may never grant a property the specification does not, and on child tuples that satisfy the specification's type invariants the result must be identical except for documented conservative entries. Generated lane: thresholds with 4..7 random children, and whole random ASTs whose stored per-node types are compared with the specification's. Non-trivial = tuples for which the specification accepts; distinct by (constructor, child tuple).".into()
    }
    fn assumptions(&self) -> Vec<String> {
        vec![
            "the oracle is my transcription of the specification's type rules; disagreements are arbitrated by execution (C06) before being classified".into(),
            "thresh with k>n or k<1 is outside the specification's domain and not enumerated".into(),
        ]
    }
    fn lanes(&self, tier: Tier) -> Vec<(&'static str, usize, usize)> {
        match tier {
            Tier::Quick => vec![("thresh-n", 2_000_000, 64), ("dispatch", 2_000_000, 300), ("derived", 300_000, 300)],
            Tier::Thorough => vec![("thresh-n", 40_000_000, 64), ("dispatch", 40_000_000, 400), ("derived", 6_000_000, 400)],
        }
    }

    fn extra(&self, tier: Tier, st: &mut Stats, known: &dyn Fn(&str) -> bool, threads: usize) -> Result<Value, Failure> {
        let types: Vec<Type> = spec::all_types();
        let bits: Vec<T> = types.iter().map(spec::from_lib).collect();
        let san: Vec<bool> = bits.iter().map(|b| spec::meaningful(*b)).collect();
        let n = types.len();
        // `known` is not Sync; snapshot its answers for the signatures that can occur
        let mut known_sigs: Vec<String> = Vec::new();
        for f in ["a", "s", "c", "d", "v", "j", "n", "t", "l", "u", "and_v", "and_b", "or_b", "or_d", "or_c", "or_i", "andor", "thresh"] {
            for pre in ["accepts-rejected", "rejects-accepted", "base"] {
                let s = format!("{}/{}", pre, f);
                if known(&s) {
                    known_sigs.push(s);
                }
            }
            for (_, c) in PROPS {
                for pre in ["stronger", "weaker"] {
                    let s = format!("{}/{}/{}", pre, f, c);
                    if known(&s) {
                        known_sigs.push(s);
                    }
                }
            }
        }
        let known_sync = move |s: &str| known_sigs.iter().any(|k| k == s);
        let acc = Acc {
            evals: AtomicU64::new(0),
            accepted: AtomicU64::new(0),
            first: Mutex::new(None),
            known: &known_sync,
            known_counts: Mutex::new(Default::default()),
        };

        // ---- leaves
        let leaves: Vec<(&str, Type, T)> = vec![
            ("1", Type::TRUE, spec::leaf_true()),
            ("0", Type::FALSE, spec::leaf_false()),
            ("pk_k", Type::pk_k(), spec::leaf_pk_k()),
            ("pk_h", Type::pk_h(), spec::leaf_pk_h()),
            ("multi", Type::multi(), spec::leaf_multi()),
            ("sortedmulti", Type::sortedmulti(), spec::leaf_multi()),
            ("multi_a", Type::multi_a(), spec::leaf_multi_a()),
            ("sortedmulti_a", Type::sortedmulti_a(), spec::leaf_multi_a()),
            ("hash", Type::hash(), spec::leaf_hash()),
            ("time", Type::time(), spec::leaf_time()),
        ];
        for (name, l, s) in &leaves {
            acc.evals.fetch_add(1, Ordering::Relaxed);
            acc.accepted.fetch_add(1, Ordering::Relaxed);
            acc.report(compare(name, Some(spec::from_lib(l)), Some(*s), true, &[]));
        }

        // ---- unary
        type UF = fn(Type) -> Result<Type, miniscript::miniscript::types::ErrorKind>;
        let unaries: Vec<(&str, UF, Box<dyn Fn(T) -> Option<T> + Sync>)> = vec![
            ("a", Type::cast_alt as UF, Box::new(|x| spec::unary(Frag::WrapA, x, false))),
            ("s", Type::cast_swap as UF, Box::new(|x| spec::unary(Frag::WrapS, x, false))),
            ("c", Type::cast_check as UF, Box::new(|x| spec::unary(Frag::WrapC, x, false))),
            ("d", Type::cast_dupif as UF, Box::new(|x| spec::unary(Frag::WrapD, x, false))),
            ("v", Type::cast_verify as UF, Box::new(|x| spec::unary(Frag::WrapV, x, false))),
            ("j", Type::cast_nonzero as UF, Box::new(|x| spec::unary(Frag::WrapJ, x, false))),
            ("n", Type::cast_zeronotequal as UF, Box::new(|x| spec::unary(Frag::WrapN, x, false))),
            ("t", Type::cast_true as UF, Box::new(|x| spec::binary(Frag::AndV, x, spec::leaf_true()))),
            ("l", Type::cast_likely as UF, Box::new(|x| spec::binary(Frag::OrI, spec::leaf_false(), x))),
            ("u", Type::cast_unlikely as UF, Box::new(|x| spec::binary(Frag::OrI, x, spec::leaf_false()))),
        ];
        for (name, lf, sf) in &unaries {
            for i in 0..n {
                acc.evals.fetch_add(1, Ordering::Relaxed);
                let l = lib_t(lf(types[i]));
                let s = sf(bits[i]);
                if s.is_some() {
                    acc.accepted.fetch_add(1, Ordering::Relaxed);
                }
                acc.report(compare(name, l, s, san[i], &[bits[i]]));
            }
        }
        // d: in tapscript: the specification additionally grants `u`; the library must not be
        // stronger there either (it never grants it)
        for i in 0..n {
            let l = lib_t(Type::cast_dupif(types[i]));
            let s = spec::unary(Frag::WrapD, bits[i], true);
            acc.evals.fetch_add(1, Ordering::Relaxed);
            acc.report(compare("d", l, s, san[i], &[bits[i]]));
        }

        // ---- binary (exhaustive 960^2), parallel over the first index
        type BF = fn(Type, Type) -> Result<Type, miniscript::miniscript::types::ErrorKind>;
        let binaries: Vec<(&str, BF, Frag)> = vec![
            ("and_v", Type::and_v as BF, Frag::AndV),
            ("and_b", Type::and_b as BF, Frag::AndB),
            ("or_b", Type::or_b as BF, Frag::OrB),
            ("or_d", Type::or_d as BF, Frag::OrD),
            ("or_c", Type::or_c as BF, Frag::OrC),
            ("or_i", Type::or_i as BF, Frag::OrI),
        ];
        let chunk = (n + threads - 1) / threads;
        std::thread::scope(|sc| {
            for t in 0..threads {
                let (types, bits, san, acc, binaries) = (&types, &bits, &san, &acc, &binaries);
                sc.spawn(move || {
                    let lo = t * chunk;
                    let hi = ((t + 1) * chunk).min(n);
                    let mut ev = 0u64;
                    let mut ac = 0u64;
                    for (name, lf, fr) in binaries.iter() {
                        for i in lo..hi {
                            for j in 0..n {
                                ev += 1;
                                let l = lib_t(lf(types[i], types[j]));
                                let s = spec::binary(*fr, bits[i], bits[j]);
                                if s.is_some() {
                                    ac += 1;
                                }
                                if let Some(d) = compare(name, l, s, san[i] && san[j], &[bits[i], bits[j]]) {
                                    acc.report(Some(d));
                                }
                            }
                        }
                    }
                    acc.evals.fetch_add(ev, Ordering::Relaxed);
                    acc.accepted.fetch_add(ac, Ordering::Relaxed);
                });
            }
        });

        // ---- andor
        let corr = spec::all_corr();
        let mall = spec::all_mall();
        let full = tier == Tier::Thorough;
        if !full {
            // all correctness triples (with a fixed malleability), all malleability triples
            // (with every correctness triple drawn from a small representative list)
            use miniscript::miniscript::types::Malleability;
            let m0: Malleability = mall[0];
            let cchunk = (corr.len() + threads - 1) / threads;
            std::thread::scope(|sc| {
                for t in 0..threads {
                    let (corr, acc) = (&corr, &acc);
                    sc.spawn(move || {
                        let lo = t * cchunk;
                        let hi = ((t + 1) * cchunk).min(corr.len());
                        let mut ev = 0u64;
                        let mut ac = 0u64;
                        for a in lo..hi {
                            for b in 0..corr.len() {
                                for c in 0..corr.len() {
                                    let (ta, tb, tc) =
                                        (Type { corr: corr[a], mall: m0 }, Type { corr: corr[b], mall: m0 }, Type { corr: corr[c], mall: m0 });
                                    let (ba, bb, bc) = (spec::from_lib(&ta), spec::from_lib(&tb), spec::from_lib(&tc));
                                    ev += 1;
                                    let l = lib_t(Type::and_or(ta, tb, tc));
                                    let s = spec::and_or(ba, bb, bc);
                                    if s.is_some() {
                                        ac += 1;
                                    }
                                    let sn = spec::meaningful(ba) && spec::meaningful(bb) && spec::meaningful(bc);
                                    if let Some(d) = compare("andor", l, s, sn, &[ba, bb, bc]) {
                                        acc.report(Some(d));
                                    }
                                }
                            }
                        }
                        acc.evals.fetch_add(ev, Ordering::Relaxed);
                        acc.accepted.fetch_add(ac, Ordering::Relaxed);
                    });
                }
            });
            // malleability triples on every base combination the rule accepts
            use miniscript::miniscript::types::{Base, Correctness, Input};
            let bdu = Correctness { base: Base::B, input: Input::One, dissatisfiable: true, unit: true };
            let others = [
                Correctness { base: Base::B, input: Input::Zero, dissatisfiable: true, unit: true },
                Correctness { base: Base::K, input: Input::OneNonZero, dissatisfiable: true, unit: true },
                Correctness { base: Base::V, input: Input::Any, dissatisfiable: false, unit: false },
            ];
            for o in others {
                for a in &mall {
                    for b in &mall {
                        for c in &mall {
                            let (ta, tb, tc) = (Type { corr: bdu, mall: *a }, Type { corr: o, mall: *b }, Type { corr: o, mall: *c });
                            let (ba, bb, bc) = (spec::from_lib(&ta), spec::from_lib(&tb), spec::from_lib(&tc));
                            acc.evals.fetch_add(1, Ordering::Relaxed);
                            let l = lib_t(Type::and_or(ta, tb, tc));
                            let s = spec::and_or(ba, bb, bc);
                            let sn = spec::meaningful(ba) && spec::meaningful(bb) && spec::meaningful(bc);
                            acc.report(compare("andor", l, s, sn, &[ba, bb, bc]));
                        }
                    }
                }
            }
        } else {
            std::thread::scope(|sc| {
                for t in 0..threads {
                    let (types, bits, san, acc) = (&types, &bits, &san, &acc);
                    sc.spawn(move || {
                        let lo = t * chunk;
                        let hi = ((t + 1) * chunk).min(n);
                        let mut ev = 0u64;
                        let mut ac = 0u64;
                        for a in lo..hi {
                            if acc.failed() {
                                break;
                            }
                            for b in 0..n {
                                for c in 0..n {
                                    ev += 1;
                                    let l = lib_t(Type::and_or(types[a], types[b], types[c]));
                                    let s = spec::and_or(bits[a], bits[b], bits[c]);
                                    if s.is_some() {
                                        ac += 1;
                                    }
                                    if let Some(d) = compare("andor", l, s, san[a] && san[b] && san[c], &[bits[a], bits[b], bits[c]]) {
                                        acc.report(Some(d));
                                    }
                                }
                            }
                        }
                        acc.evals.fetch_add(ev, Ordering::Relaxed);
                        acc.accepted.fetch_add(ac, Ordering::Relaxed);
                    });
                }
            });
        }

        // ---- thresh n = 1, 2 (and 3 in thorough), every 1 <= k <= n
        let thresh_cmp = |k: usize, idx: &[usize]| {
            let ts: Vec<Type> = idx.iter().map(|i| types[*i]).collect();
            let bs: Vec<T> = idx.iter().map(|i| bits[*i]).collect();
            let l = lib_t(Type::threshold(k, ts.iter()));
            let s = spec::thresh(k, &bs);
            let sn = idx.iter().all(|i| san[*i]);
            (compare("thresh", l, s, sn, &bs), s.is_some())
        };
        for i in 0..n {
            acc.evals.fetch_add(1, Ordering::Relaxed);
            let (d, a) = thresh_cmp(1, &[i]);
            if a {
                acc.accepted.fetch_add(1, Ordering::Relaxed);
            }
            acc.report(d);
        }
        std::thread::scope(|sc| {
            for t in 0..threads {
                let (acc, thresh_cmp) = (&acc, &thresh_cmp);
                sc.spawn(move || {
                    let lo = t * chunk;
                    let hi = ((t + 1) * chunk).min(n);
                    let mut ev = 0u64;
                    let mut ac = 0u64;
                    for i in lo..hi {
                        for j in 0..n {
                            for k in 1..=2 {
                                ev += 1;
                                let (d, a) = thresh_cmp(k, &[i, j]);
                                if a {
                                    ac += 1;
                                }
                                if d.is_some() {
                                    acc.report(d);
                                }
                            }
                            if full {
                                // only children that can possibly be accepted matter for the
                                // result; rejected positions are covered by n<=2: still enumerate all
                                for l in 0..n {
                                    for k in 1..=3 {
                                        ev += 1;
                                        let (d, a) = thresh_cmp(k, &[i, j, l]);
                                        if a {
                                            ac += 1;
                                        }
                                        if d.is_some() {
                                            acc.report(d);
                                        }
                                    }
                                }
                            }
                        }
                        if acc.failed() {
                            break;
                        }
                    }
                    acc.evals.fetch_add(ev, Ordering::Relaxed);
                    acc.accepted.fetch_add(ac, Ordering::Relaxed);
                });
            }
        });

        let evals = acc.evals.load(Ordering::Relaxed);
        let accepted = acc.accepted.load(Ordering::Relaxed);
        st.evaluations += evals;
        // every enumerated tuple is distinct by construction; the non-trivial ones are the accepted ones
        for i in 0..accepted.min(1_000_000) {
            st.nontrivial.insert(crate::runner::fp(&("c05-enum", i)));
        }
        st.exhaustive = true;
        for (k, v) in acc.known_counts.lock().unwrap().iter() {
            for _ in 0..*v {
                st.note_known(k);
            }
        }
        st.samples.push(format!(
            "[enum] or_d({},{}) -> library {:?} / specification {}",
            spec::show(bits[5]),
            spec::show(bits[7]),
            lib_t(Type::or_d(types[5], types[7])).map(spec::show),
            spec::binary(Frag::OrD, bits[5], bits[7]).map(spec::show).unwrap_or_else(|| "reject".into())
        ));
        if let Some(f) = acc.first.lock().unwrap().clone() {
            return Err(f);
        }
        // the direct constructors store types without going through the type checker: they
        // must store what the type checker computes for the same node
        let ctor_nodes = ctor_checks()?;
        st.samples.push(format!("[ctor] {} nodes built by Miniscript::{{TRUE,FALSE,pk,pkh,pk_k,pk_h,expr_raw_pkh,after,older,sha256,..,multi,sortedmulti,multi_a,sortedmulti_a}} in 4 contexts: stored ty/ext == type_check(node)", ctor_nodes));
        Ok(json!({
            "constructor_nodes_checked": ctor_nodes,
            "enumerated_tuples": evals,
            "enumerated_tuples_accepted_by_spec": accepted,
            "enumerated_families": if full {
                "leaves; 10 casts x 960; 6 binaries x 960^2; andor 960^3; thresh n=1,2,3 all k"
            } else {
                "leaves; 10 casts x 960; 6 binaries x 960^2; andor 80^3 correctness + 3x12^3 malleability; thresh n=1,2 all k"
            },
        }))
    }

    fn run_case(&self, lane: &str, src: &mut Src, rep: &mut Report) -> Result<(), Failure> {
        if lane == "thresh-n" {
            let types = spec::all_types();
            // children biased towards Bdu / Wdu with all s/e/m mixes
            let n = src.range(4, 7);
            let k = src.range(1, n);
            let mut ts = Vec::new();
            for i in 0..n {
                let t = if src.chance(1, 8) {
                    types[src.below(types.len())]
                } else {
                    // pick among types with right base, d, u
                    let want_base = if i == 0 { spec::B } else { spec::W };
                    let cands: Vec<&Type> = types
                        .iter()
                        .filter(|t| {
                            let b = spec::from_lib(t);
                            b & want_base != 0 && b & spec::D != 0 && b & spec::U != 0
                        })
                        .collect();
                    *cands[src.below(cands.len())]
                };
                ts.push(t);
            }
            let bs: Vec<T> = ts.iter().map(spec::from_lib).collect();
            let l = lib_t(Type::threshold(k, ts.iter()));
            let s = spec::thresh(k, &bs);
            rep.desc = format!("thresh({},{})", k, bs.iter().map(|b| spec::show(*b)).collect::<Vec<_>>().join(","));
            if s.is_some() {
                rep.nontrivial_by(&("thresh", k, &bs));
            }
            let sn = bs.iter().all(|b| spec::meaningful(*b));
            if let Some((sig, msg)) = compare("thresh", l, s, sn, &bs) {
                return fail(&sig, msg);
            }
            return Ok(());
        }
        if lane == "derived" {
            // values that did not come from the parser: decode(encode(M)), the same with the key
            // hashes substituted back, an identity translation, a clone -- every node's stored
            // type must still be the specification's rule applied to its children's stored types
            let ctx = *src.pick(&[Ctx::Segwitv0, Ctx::Tap, Ctx::Legacy, Ctx::Bare]);
            let size = src.range(1, 12);
            let mut cfg = Cfg::new(ctx, size);
            cfg.legacy_restrict = false;
            cfg.allow_uncompressed = matches!(ctx, Ctx::Legacy | Ctx::Bare);
            let node = gen::gen_ms(src, &cfg);
            let text = ast::print(&node, true);
            rep.desc = format!("{:?} derived values of {}", ctx, text);
            macro_rules! go {
                ($c:ty) => {{
                    use miniscript::ToPublicKey;
                    type K = <$c as miniscript::ScriptContext>::Key;
                    let mut nn = 0usize;
                    if let Ok(ms) = Miniscript::<K, $c>::from_str_with_validation_params(&text, &<$c as miniscript::ScriptContext>::CONSENSUS) {
                        nn += walk_cmp(&ms.clone(), &ast::from_lib(&ms), ctx)?;
                        if let Ok(dec) = Miniscript::<K, $c>::decode_consensus(&ms.encode()) {
                            nn += walk_cmp(&dec, &ast::from_lib(&dec), ctx)?;
                            let mut map = std::collections::BTreeMap::new();
                            for k in ms.iter_pk() {
                                map.insert(k.to_pubkeyhash(<$c as miniscript::ScriptContext>::sig_type()), k);
                            }
                            let sub = dec.substitute_raw_pkh(&map);
                            nn += walk_cmp(&sub, &ast::from_lib(&sub), ctx)?;
                            let none = dec.substitute_raw_pkh(&std::collections::BTreeMap::new());
                            nn += walk_cmp(&none, &ast::from_lib(&none), ctx)?;
                        }
                    }
                    nn
                }};
            }
            let nn = match ctx {
                Ctx::Bare => go!(BareCtx),
                Ctx::Legacy => go!(Legacy),
                Ctx::Segwitv0 => go!(Segwitv0),
                Ctx::Tap => go!(Tap),
            };
            if nn >= 12 {
                rep.nontrivial_by(&(ctx as u8, &text));
            }
            rep.evals = nn.max(1) as u64;
            return Ok(());
        }
        // dispatch lane: whole ASTs, every node's stored type vs the specification
        let ctx = *src.pick(&[Ctx::Segwitv0, Ctx::Tap, Ctx::Legacy, Ctx::Bare]);
        let size = src.range(1, 14);
        let mut cfg = Cfg::new(ctx, size);
        cfg.legacy_restrict = false;
        let want = *src.pick(&[gen::W_B, gen::W_B, gen::W_V, gen::W_K, gen::W_W]);
        let mut stt = gen::State::new();
        let node = gen::gen(src, &cfg, &mut stt, want, size);
        let text = ast::print(&node, src.bool());
        rep.desc = format!("{:?} {}", ctx, text);
        macro_rules! go {
            ($c:ty) => {{
                let p = miniscript::ValidationParams::MAX;
                match Miniscript::<String, $c>::from_str_with_validation_params(&text, &p) {
                    Ok(ms) => walk_cmp(&ms, &node, ctx),
                    // only *typing* rejections are this property's subject (context limits such
                    // as script size belong to C12)
                    Err(e) if !matches!(e, miniscript::Error::TypeCheck(_)) => Ok(0),
                    Err(e) => match spec::type_of_ex(&node, ctx, false) {
                        Ok(t) => fail("dispatch-rejects", format!("specification types {} as {} but the library rejects: {}", text, spec::show(t), e)),
                        Err(_) => Ok(0),
                    },
                }
            }};
        }
        let r = match ctx {
            Ctx::Bare => go!(BareCtx),
            Ctx::Legacy => go!(Legacy),
            Ctx::Segwitv0 => go!(Segwitv0),
            Ctx::Tap => go!(Tap),
        };
        match r {
            Ok(nn) => {
                if nn >= 3 {
                    rep.nontrivial_by(&(ctx as u8, &text));
                }
                rep.evals = nn.max(1) as u64;
                Ok(())
            }
            Err(f) => Err(f),
        }
    }
}

fn local_rule(n: &Node, ch: &[T], ctx: Ctx) -> Option<T> {
    let tap = ctx == Ctx::Tap;
    match n {
        Node::Alt(_) => spec::unary(Frag::WrapA, ch[0], tap),
        Node::Swap(_) => spec::unary(Frag::WrapS, ch[0], tap),
        Node::Check(_) => spec::unary(Frag::WrapC, ch[0], tap),
        Node::DupIf(_) => spec::unary(Frag::WrapD, ch[0], tap),
        Node::Verify(_) => spec::unary(Frag::WrapV, ch[0], tap),
        Node::NonZero(_) => spec::unary(Frag::WrapJ, ch[0], tap),
        Node::ZeroNotEqual(_) => spec::unary(Frag::WrapN, ch[0], tap),
        Node::AndV(..) => spec::binary(Frag::AndV, ch[0], ch[1]),
        Node::AndB(..) => spec::binary(Frag::AndB, ch[0], ch[1]),
        Node::OrB(..) => spec::binary(Frag::OrB, ch[0], ch[1]),
        Node::OrD(..) => spec::binary(Frag::OrD, ch[0], ch[1]),
        Node::OrC(..) => spec::binary(Frag::OrC, ch[0], ch[1]),
        Node::OrI(..) => spec::binary(Frag::OrI, ch[0], ch[1]),
        Node::AndOr(..) => spec::and_or(ch[0], ch[1], ch[2]),
        Node::Thresh(k, _) => spec::thresh(*k, ch),
        leaf => spec::type_of(leaf, ctx).ok(),
    }
}

/// Every node's stored type must be the specification's rule applied to the stored types of
/// its children (the dispatch from `Terminal` variant to rule, and the rule itself).
fn walk_cmp<Pk: miniscript::MiniscriptKey, C: miniscript::ScriptContext>(ms: &Miniscript<Pk, C>, node: &Node, ctx: Ctx) -> Result<usize, Failure> {
    let mut count = 0usize;
    let mut stack: Vec<(&Miniscript<Pk, C>, &Node)> = vec![(ms, node)];
    while let Some((m, n)) = stack.pop() {
        count += 1;
        let lc: Vec<&Miniscript<Pk, C>> = children_of(m);
        let nc = n.children();
        if lc.len() != nc.len() {
            return fail("dispatch-shape", format!("child count differs at {}", ast::print(n, false)));
        }
        let ch: Vec<T> = lc.iter().map(|c| spec::from_lib(&c.ty)).collect();
        let sp = local_rule(n, &ch, ctx);
        let lb = spec::from_lib(&m.ty);
        let meaningful = ch.iter().all(|c| spec::meaningful(*c));
        if let Some((sig, msg)) = compare(n.frag_name(), Some(lb), sp, meaningful, &ch) {
            return fail(&format!("dispatch-{}", sig), format!("{} at node {}", msg, ast::print(n, false)));
        }
        for (a, b) in lc.into_iter().zip(nc.into_iter()) {
            stack.push((a, b));
        }
    }
    Ok(count)
}

pub fn children_of<Pk: miniscript::MiniscriptKey, C: miniscript::ScriptContext>(m: &Miniscript<Pk, C>) -> Vec<&Miniscript<Pk, C>> {
    use miniscript::Terminal::*;
    match &m.node {
        Alt(x) | Swap(x) | Check(x) | DupIf(x) | Verify(x) | NonZero(x) | ZeroNotEqual(x) => vec![x],
        AndV(x, y) | AndB(x, y) | OrB(x, y) | OrD(x, y) | OrC(x, y) | OrI(x, y) => vec![x, y],
        AndOr(x, y, z) => vec![x, y, z],
        Thresh(t) => t.iter().map(|a| &**a).collect(),
        _ => vec![],
    }
}


fn ctor_one<Pk: miniscript::MiniscriptKey, C: miniscript::ScriptContext>(name: &str, ms: Miniscript<Pk, C>) -> Result<(), Failure> {
    use miniscript::miniscript::types::ExtData;
    let ty = Type::type_check(&ms.node).map_err(|e| Failure { sig: format!("ctor-untypable/{}", name), msg: format!("Miniscript::{} built a node that the type checker rejects: {}", name, e) })?;
    if ty != ms.ty {
        return fail(&format!("ctor-type/{}", name), format!("Miniscript::{} stores type {:?}, the type checker computes {:?} for {}", name, ms.ty, ty, ms));
    }
    let ext = ExtData::type_check(&ms.node);
    if ext != ms.ext {
        return fail(&format!("ctor-ext/{}", name), format!("Miniscript::{} stores {:?}, the type checker computes {:?} for {}", name, ms.ext, ext, ms));
    }
    Ok(())
}

fn ctor_ctx<C: miniscript::ScriptContext>() -> Result<usize, Failure> {
    use bitcoin::hashes::Hash;
    use miniscript::{AbsLockTime, RelLockTime, Threshold};
    use std::str::FromStr;
    let mut n = 0usize;
    let keys: Vec<bitcoin::PublicKey> = vec![
        bitcoin::PublicKey::from_str(&crate::keys::key_compressed(0)).unwrap(),
        bitcoin::PublicKey::from_str(&crate::keys::key_compressed(1)).unwrap(),
        bitcoin::PublicKey::from_str(&crate::keys::key_uncompressed(2)).unwrap(),
        bitcoin::PublicKey::from_str(&crate::keys::key_compressed(3)).unwrap(),
    ];
    type M<C> = Miniscript<bitcoin::PublicKey, C>;
    ctor_one("TRUE", M::<C>::TRUE)?;
    ctor_one("FALSE", M::<C>::FALSE)?;
    n += 2;
    for k in &keys {
        ctor_one("pk", M::<C>::pk(*k))?;
        ctor_one("pkh", M::<C>::pkh(*k))?;
        ctor_one("pk_k", M::<C>::pk_k(*k))?;
        ctor_one("pk_h", M::<C>::pk_h(*k))?;
        n += 4;
    }
    ctor_one("expr_raw_pkh", M::<C>::expr_raw_pkh(bitcoin::hashes::hash160::Hash::hash(b"x")))?;
    for v in [1u32, 144, 65535, 0x40_0001, 0x1_0005] {
        ctor_one("older", M::<C>::older(RelLockTime::from_consensus(v).unwrap()))?;
        n += 1;
    }
    for v in [1u32, 499_999_999, 500_000_000, 0x7fff_ffff] {
        ctor_one("after", M::<C>::after(AbsLockTime::from_consensus(v).unwrap()))?;
        n += 1;
    }
    ctor_one("sha256", M::<C>::sha256(bitcoin::hashes::sha256::Hash::hash(b"x")))?;
    ctor_one("hash256", M::<C>::hash256(miniscript::hash256::Hash::hash(b"x")))?;
    ctor_one("ripemd160", M::<C>::ripemd160(bitcoin::hashes::ripemd160::Hash::hash(b"x")))?;
    ctor_one("hash160", M::<C>::hash160(bitcoin::hashes::hash160::Hash::hash(b"x")))?;
    n += 5;
    for nk in 1..=keys.len() {
        for k in 1..=nk {
            let ks: Vec<bitcoin::PublicKey> = keys[..nk].to_vec();
            ctor_one("multi", M::<C>::multi(Threshold::new(k, ks.clone()).unwrap()))?;
            ctor_one("sortedmulti", M::<C>::sortedmulti(Threshold::new(k, ks.clone()).unwrap()))?;
            ctor_one("multi_a", M::<C>::multi_a(Threshold::new(k, ks.clone()).unwrap()))?;
            ctor_one("sortedmulti_a", M::<C>::sortedmulti_a(Threshold::new(k, ks).unwrap()))?;
            n += 4;
        }
    }
    // 17..20 keys: two-byte pushes of k / n
    let many: Vec<bitcoin::PublicKey> = (0..20).map(|i| bitcoin::PublicKey::from_str(&crate::keys::key_compressed(i % 12)).unwrap()).collect();
    for (k, nk) in [(1usize, 17usize), (16, 17), (17, 17), (17, 20), (20, 20)] {
        ctor_one("multi", M::<C>::multi(Threshold::new(k, many[..nk].to_vec()).unwrap()))?;
        ctor_one("multi_a", M::<C>::multi_a(Threshold::new(k, many[..nk].to_vec()).unwrap()))?;
        n += 2;
    }
    Ok(n)
}

fn ctor_checks() -> Result<usize, Failure> { Ok(ctor_ctx::<BareCtx>()? + ctor_ctx::<Legacy>()? + ctor_ctx::<Segwitv0>()? + ctor_ctx::<Tap>()?) }
