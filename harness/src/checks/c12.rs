//! C12 — accepted scripts obey their context; validation switches mean what they say.

use crate::gen::{self, Cfg, KeyStyle};
use crate::glue::DK;
use crate::keys;
use crate::mirror::analysis::{self, key_kind, KeyKind};
use crate::mirror::ast::{self, b, Node};
use crate::mirror::encode::{encode, key_bytes};
use crate::mirror::spec::{self, Ctx};
use crate::oracle;
use crate::refscript::{Flags, ScriptError, SigChecker, SigVersion, SymbolicChecker};
use crate::runner::{fail, guard, Check, Failure, Report, Src, Tier};
use crate::search::{search, Budget};
use crate::world::World;
use bitcoin::hashes::Hash;
use bitcoin::taproot::TapLeafHash;
use miniscript::{BareCtx, Descriptor, Legacy, Miniscript, ScriptContext, Segwitv0, Tap, ValidationError, ValidationParams};
use std::collections::BTreeSet;
use std::str::FromStr;

pub struct C12;

struct AllLocks<'a>(&'a SymbolicChecker);
impl<'a> SigChecker for AllLocks<'a> {
    fn check_ecdsa(&self, sig: &[u8], pk: &[u8], sc: &[u8], sv: SigVersion) -> bool { self.0.check_ecdsa(sig, pk, sc, sv) }
    fn check_schnorr(&self, sig: &[u8], pk: &[u8], sv: SigVersion, leaf: Option<TapLeafHash>, annex: Option<&[u8]>) -> Result<bool, ScriptError> { self.0.check_schnorr(sig, pk, sv, leaf, annex) }
    fn check_locktime(&self, _n: i64) -> bool { true }
    fn check_sequence(&self, _n: i64) -> bool { true }
}

/// Ground truth: does any witness satisfy this B-typed script when every key, preimage and lock
/// is available?  None = unknown.
fn satisfiable_at_all(node: &Node, ctx: Ctx) -> Option<bool> {
    let unit = oracle::unit_of(node, ctx).ok()?;
    let mut world = World { keys: BTreeSet::new(), preimages: keys::u().preimages.iter().copied().collect(), lock_time: 0, sequence: 0, tx_version: 2 };
    let mut ecdsa = Vec::new();
    let mut leafk = Vec::new();
    for k in node.keys() {
        let kb = key_bytes(&k, ctx).ok()?;
        world.keys.insert(keys::xonly_of(&kb)?);
        match unit.leaf {
            Some(lh) => {
                let mut x = [0u8; 32];
                x.copy_from_slice(&kb);
                leafk.push((x, lh));
            }
            None => ecdsa.push(kb),
        }
    }
    // raw pkh: whoever can spend knows the key behind the hash; look it up in the universe
    let mut raw_unknown = false;
    node.walk(&mut |n| {
        if let Node::RawPkH(h) = n {
            let mut found = false;
            for i in 0..keys::N_SINGLE {
                for form in [keys::key_compressed(i), keys::key_uncompressed(i), keys::key_xonly(i)] {
                    if let Ok(kb) = key_bytes(&form, ctx) {
                        if keys::hex(&bitcoin::hashes::hash160::Hash::hash(&kb).to_byte_array()) == *h {
                            found = true;
                            if let Some(x) = keys::xonly_of(&kb) {
                                world.keys.insert(x);
                            }
                            match unit.leaf {
                                Some(lh) => {
                                    let mut x = [0u8; 32];
                                    x.copy_from_slice(&kb);
                                    leafk.push((x, lh));
                                }
                                None => ecdsa.push(kb),
                            }
                        }
                    }
                }
            }
            if !found {
                raw_unknown = true;
            }
        }
    });
    if raw_unknown {
        return None;
    }
    let (sat, checker) = crate::world::sign_symbolic(&world, &ecdsa, &leafk, None);
    let sym = oracle::Sym { sat, checker };
    let alpha = oracle::holder_alphabet(&unit, &world, &sym.sat);
    // raw pkh cannot be satisfied without knowing a key: the alphabet handles known hashes
    let chk = AllLocks(&sym.checker);
    // consensus flags: "unsatisfiable" is a statement about the script, not about relay policy
    let r = search(&unit.script, unit.sv, &Flags::CONSENSUS, &alpha, &chk, unit.leaf.map(TapLeafHash::from_byte_array), Budget { max_len: 12, max_nodes: 60_000 }, 1);
    if !r.accepting.is_empty() {
        Some(true)
    } else if r.truncated {
        None
    } else {
        Some(false)
    }
}

fn err_name(e: &ValidationError) -> String {
    let s = format!("{:?}", e);
    s.split(|c| c == '(' || c == ' ' || c == '{').next().unwrap_or("?").to_string()
}

/// One (switch, expectation) comparison.
fn expect<C: ScriptContext>(ms: &Miniscript<DK, C>, p: &ValidationParams, want: Option<&str>, switch: &str, text: &str) -> Result<(), Failure> {
    let r = guard("validate", || ms.validate(p))?;
    match (r, want) {
        (Ok(()), None) => Ok(()),
        (Err(e), Some(w)) => {
            if err_name(&e) == w || (w == "Key" && err_name(&e) == "Key") {
                Ok(())
            } else {
                fail(&format!("switch-wrong-error/{}", switch), format!("with only `{}` restricted, validate() of {} reports {:?} instead of {}", switch, text, e, w))
            }
        }
        (Ok(()), Some(w)) => fail(&format!("switch-misses/{}", switch), format!("{} has the defect `{}` guards against ({}), but validate() accepts it with that switch off", text, switch, w)),
        (Err(e), None) => fail(&format!("switch-false-positive/{}", switch), format!("{} does not have the defect `{}` guards against, but validate() rejects it: {:?}", text, switch, e)),
    }
}

fn switches<C: ScriptContext>(node: &Node, ctx: Ctx, text: &str, rep: &mut Report) -> Result<bool, Failure> {
    let ms = match Miniscript::<DK, C>::from_str_with_validation_params(text, &ValidationParams::MAX) {
        Ok(m) => m,
        Err(_) => {
            rep.class("rejected");
            return Ok(false);
        }
    };
    let t = spec::type_of_ex(node, ctx, false).map_err(|e| Failure { sig: "accepted-ill-typed".into(), msg: format!("library accepted {} but the specification rejects it: {}", text, e) })?;
    let kinds: Vec<KeyKind> = analysis::validated_keys(node).iter().map(|k| key_kind(k)).collect();
    let mut p;
    macro_rules! one {
        ($field:ident, $name:expr, $want:expr) => {{
            p = ValidationParams::MAX;
            p.$field = false;
            let want: Option<&str> = $want;
            if want.is_some() {
                rep.class(format!("defect-present:{}", $name));
            }
            expect(&ms, &p, want, $name, text)?;
        }};
    }
    // the public analysis predicates answer the same questions as the switches
    for (name, lib, mine) in [
        ("requires_sig", ms.requires_sig(), t & spec::S != 0),
        ("is_non_malleable", ms.is_non_malleable(), t & spec::M != 0),
        ("has_repeated_keys", ms.has_repeated_keys(), analysis::has_duplicate_keys(node)),
        ("contains_raw_pkh", ms.contains_raw_pkh(), analysis::has(node, &|x| matches!(x, Node::RawPkH(_)))),
        ("has_mixed_timelocks", ms.has_mixed_timelocks(), analysis::has_mixed_timelocks(node)),
    ] {
        if lib != mine {
            return fail(&format!("predicate/{}", name), format!("Miniscript::{}() = {} for `{}`, the mirror analysis says {}", name, lib, text, mine));
        }
    }
    one!(allow_duplicate_keys, "allow_duplicate_keys", if analysis::has_duplicate_keys(node) { Some("DuplicateKeys") } else { None });
    one!(allow_dup_if, "allow_dup_if", if analysis::has(node, &|x| matches!(x, Node::DupIf(_))) { Some("IllegalDupIf") } else { None });
    one!(allow_or_i, "allow_or_i", if analysis::has(node, &|x| matches!(x, Node::OrI(..))) { Some("IllegalOrI") } else { None });
    one!(allow_multi, "allow_multi", if analysis::has(node, &|x| matches!(x, Node::Multi(..) | Node::SortedMulti(..))) { Some("IllegalMulti") } else { None });
    one!(allow_multi_a, "allow_multi_a", if analysis::has(node, &|x| matches!(x, Node::MultiA(..) | Node::SortedMultiA(..))) { Some("IllegalMultiA") } else { None });
    one!(allow_raw_pkh, "allow_raw_pkh", if analysis::has(node, &|x| matches!(x, Node::RawPkH(_))) { Some("IllegalRawPkh") } else { None });
    one!(allow_mixed_time_locks, "allow_mixed_time_locks", if analysis::has_mixed_timelocks(node) { Some("MixedTimeLocks") } else { None });
    one!(allow_malleability, "allow_malleability", if t & spec::M == 0 { Some("Malleable") } else { None });
    one!(allow_sigless_branch, "allow_sigless_branch", if t & spec::S == 0 { Some("SiglessBranch") } else { None });
    one!(allow_non_b, "allow_non_b", if t & spec::B == 0 { Some("NonBase") } else { None });
    one!(allow_uncompressed_keys, "allow_uncompressed_keys", if kinds.contains(&KeyKind::Uncompressed) { Some("Key") } else { None });
    one!(allow_x_only_keys, "allow_x_only_keys", if kinds.contains(&KeyKind::XOnly) { Some("Key") } else { None });
    // compressed keys are only refused when x-only keys are refused too
    {
        p = ValidationParams::MAX;
        p.allow_compressed_keys = false;
        expect(&ms, &p, None, "allow_compressed_keys(alone)", text)?;
        p.allow_x_only_keys = false;
        let want = if kinds.contains(&KeyKind::Compressed) || kinds.contains(&KeyKind::XOnly) { Some("Key") } else { None };
        expect(&ms, &p, want, "allow_compressed_keys+x_only", text)?;
    }
    if t & spec::B != 0 && node.n_nodes() <= 12 {
        if let Some(satisfiable) = satisfiable_at_all(node, ctx) {
            one!(allow_unsatisfiable, "allow_unsatisfiable", if satisfiable { None } else { Some("Unsatisfiable") });
        }
    }
    // numeric limits around the script's own figures
    // (the script's real length from the own encoder where the keys are concrete; the size
    // switch must cut exactly there, whatever the library's own size arithmetic says)
    let size = encode(node, ctx).map(|b| b.len()).unwrap_or_else(|_| ms.script_size());
    let mut lim = |f: &dyn Fn(&mut ValidationParams, usize), actual: usize, name: &str, errname: &str| -> Result<(), Failure> {
        let mut p = ValidationParams::MAX;
        f(&mut p, actual);
        expect(&ms, &p, None, &format!("{}=actual", name), text)?;
        if actual > 0 {
            let mut p = ValidationParams::MAX;
            f(&mut p, actual - 1);
            expect(&ms, &p, Some(errname), &format!("{}=actual-1", name), text)?;
        }
        let mut p = ValidationParams::MAX;
        f(&mut p, actual + 1);
        expect(&ms, &p, None, &format!("{}=actual+1", name), text)
    };
    lim(&|p, v| p.max_script_size = v, size, "max_script_size", "MaxScriptSizeExceeded")?;
    // the depth figure itself: the mirror's height (leaf = 1) is the library's tree_height + 1
    if ms.ext.tree_height + 1 != node.height() {
        return fail(&format!("tree-height/{}", node.frag_name()), format!("ext.tree_height = {} for `{}` whose expression tree has {} levels", ms.ext.tree_height, text, node.height()));
    }
    lim(&|p, v| p.max_recursive_depth = v, node.height() - 1, "max_recursive_depth", "MaxRecursiveDepthExceeded")?;
    if let Some(sd) = ms.ext.sat_data {
        lim(&|p, v| p.max_witness_items = v, sd.max_witness_stack_count + 1, "max_witness_items", "MaxWitnessItemsExceeded")?;
        lim(&|p, v| p.max_opcode_count = v, ms.ext.static_ops + sd.max_exec_op_count, "max_opcode_count", "MaxOpCountExceeded")?;
        lim(&|p, v| p.max_exec_stack_size = v, sd.max_witness_stack_count + sd.max_exec_stack_count, "max_exec_stack_size", "MaxExecStackSizeExceeded")?;
    }
    Ok(true)
}

/// Inject one violation of the context rules (or none).
fn violate(src: &mut Src, ctx: Ctx, node: Node) -> (Node, &'static str) {
    match src.below(9) {
        0 => {
            // non-B top level
            match src.below(3) {
                0 => (Node::Verify(b(node)), "top-V"),
                1 => (Node::Alt(b(node)), "top-W"),
                _ => (Node::PkK(keys::key_compressed(1)), "top-K"),
            }
        }
        1 => {
            // illegal key kind somewhere
            let bad = match ctx {
                Ctx::Tap | Ctx::Segwitv0 => keys::key_uncompressed(2),
                _ => keys::key_xonly(2),
            };
            let mut done = false;
            let n2 = node.map_keys(&mut |k| {
                if !done {
                    done = true;
                    bad.clone()
                } else {
                    k.to_string()
                }
            });
            if done {
                (n2, "illegal-key-kind")
            } else {
                (Node::AndV(b(Node::Verify(b(Node::Check(b(Node::PkH(bad)))))), b(node)), "illegal-key-kind")
            }
        }
        2 => {
            // wrong multisig flavour
            let ks = vec![keys::key_compressed(1), keys::key_compressed(2)];
            let m = if ctx == Ctx::Tap { Node::Multi(1, ks) } else { Node::MultiA(1, ks) };
            (Node::AndV(b(Node::Verify(b(m))), b(node)), "wrong-multi-flavour")
        }
        5 => {
            // a lock value outside 1 ..= 2^31-1
            let v = *src.pick(&[0u32, 0, 0x8000_0000, 0x8000_0001, 0xffff_ffff]);
            let l = if src.bool() { Node::Older(v) } else { Node::After(v) };
            (Node::AndV(b(Node::Verify(b(l))), b(node)), "lock-out-of-range")
        }
        6 => {
            // wrong sorted-multisig flavour
            let ks = if ctx == Ctx::Tap { vec![keys::key_xonly(1), keys::key_xonly(2)] } else { vec![keys::key_compressed(1), keys::key_compressed(2)] };
            let m = if ctx == Ctx::Tap { Node::SortedMulti(1, ks) } else { Node::SortedMultiA(1, ks) };
            (Node::AndV(b(Node::Verify(b(m))), b(node)), "wrong-multi-flavour")
        }
        3 => (Node::OrI(b(node.clone()), b(Node::Check(b(Node::PkK(keys::key_compressed(9)))))), "or_i"),
        4 => (Node::AndV(b(Node::Verify(b(Node::DupIf(b(Node::Verify(b(Node::After(7)))))))), b(node)), "d:"),
        _ => (node, "none"),
    }
}

fn wrap(kind: usize, inner: &str) -> (String, Ctx) {
    match kind {
        0 => (format!("wsh({})", inner), Ctx::Segwitv0),
        1 => (format!("sh(wsh({}))", inner), Ctx::Segwitv0),
        2 => (format!("sh({})", inner), Ctx::Legacy),
        3 => (format!("tr({},{})", keys::key_xonly(10), inner), Ctx::Tap),
        _ => (format!("tr({},{{{},pk({})}})", keys::key_xonly(10), inner, keys::key_xonly(9)), Ctx::Tap),
    }
}

fn accept_ms<C: ScriptContext>(node: &Node, ctx: Ctx, text: &str, rep: &mut Report) -> Result<(), Failure> {
    let cv = analysis::context_violation(node, ctx, true);
    let t = spec::type_of_ex(node, ctx, false).ok();
    let sane_defect: Option<String> = cv.clone().or_else(|| {
        let t = t?;
        if t & spec::S == 0 {
            return Some("sigless".into());
        }
        if t & spec::M == 0 {
            return Some("malleable".into());
        }
        if analysis::has_duplicate_keys(node) {
            return Some("duplicate-keys".into());
        }
        if analysis::has_mixed_timelocks(node) {
            return Some("mixed-timelocks".into());
        }
        if analysis::has(node, &|x| matches!(x, Node::RawPkH(_))) {
            return Some("raw-pkh".into());
        }
        None
    });
    if Miniscript::<DK, C>::from_str(text).is_ok() {
        rep.class("accepted:from_str");
        if let Some(d) = &sane_defect {
            return fail(&format!("from_str-accepts/{}", d.split(' ').next().unwrap_or("?")), format!("Miniscript::<_, {:?}>::from_str accepts `{}` which violates: {}", ctx, text, d));
        }
    }
    if Miniscript::<DK, C>::from_str_insane(text).is_ok() {
        rep.class("accepted:from_str_insane");
        if let Some(d) = &cv {
            return fail(&format!("from_str_insane-accepts/{}", d.split(' ').next().unwrap_or("?")), format!("from_str_insane ({:?}) accepts `{}` which violates: {}", ctx, text, d));
        }
        if analysis::has(node, &|x| matches!(x, Node::RawPkH(_))) {
            return fail("from_str_insane-accepts/raw-pkh", format!("from_str_insane accepts raw pkh: {}", text));
        }
    }
    // the AST entry point: every node through Miniscript::from_ast
    if crate::glue::ms_from_node_ast::<C>(node).is_ok() {
        rep.class("accepted:from_ast");
        // (from_ast builds expressions of any base type: no top-level rule)
        if let Some(d) = &analysis::context_violation(node, ctx, false) {
            return fail(&format!("from_ast-accepts/{}", d.split(' ').next().unwrap_or("?")), format!("Miniscript::<_, {:?}>::from_ast (bottom-up) accepts `{}` which violates: {}", ctx, text, d));
        }
    }
    if Miniscript::<DK, C>::from_str_with_validation_params(text, &C::CONSENSUS).is_ok() {
        rep.class("accepted:consensus-params");
        if let Some(d) = &cv {
            return fail(&format!("consensus-params-accept/{}", d.split(' ').next().unwrap_or("?")), format!("from_str_with_validation_params(Ctx::CONSENSUS) ({:?}) accepts `{}` which violates: {}", ctx, text, d));
        }
    }
    Ok(())
}

fn decode_entry<C: ScriptContext>(node: &Node, ctx: Ctx, rep: &mut Report) -> Result<(), Failure>
where
    C::Key: miniscript::ToPublicKey,
{
    // script entry points: only nodes whose keys are hex
    let script = match encode(node, ctx) {
        Ok(s) => s,
        Err(_) => return Ok(()),
    };
    let sb = bitcoin::ScriptBuf::from_bytes(script);
    for (name, r) in [("decode", Miniscript::<C::Key, C>::decode(&sb)), ("decode_consensus", Miniscript::<C::Key, C>::decode_consensus(&sb))] {
        if let Ok(m) = r {
            rep.class(format!("accepted:{}", name));
            let back = ast::from_lib(&m);
            // x-only keys print as 64 hex, compressed as 66: kinds are recoverable
            if let Some(d) = analysis::context_violation(&back, ctx, true) {
                return fail(&format!("{}-accepts/{}", name, d.split(' ').next().unwrap_or("?")), format!("{} ({:?}) accepts the script of `{}` (as {}) which violates: {}", name, ctx, ast::print(node, true), m, d));
            }
        }
    }
    Ok(())
}

fn rand_params(src: &mut Src) -> ValidationParams {
    let mut p = ValidationParams::MAX;
    let bits = src.u32();
    p.allow_compressed_keys = bits & 1 != 0;
    p.allow_duplicate_keys = bits & 2 != 0;
    p.allow_dup_if = bits & 4 != 0;
    p.allow_malleability = bits & 8 != 0;
    p.allow_mixed_time_locks = bits & 16 != 0;
    p.allow_multi = bits & 32 != 0;
    p.allow_multi_a = bits & 64 != 0;
    p.allow_or_i = bits & 128 != 0;
    p.allow_raw_pkh = bits & 256 != 0;
    p.allow_sigless_branch = bits & 512 != 0;
    p.allow_non_b = bits & 1024 != 0;
    p.allow_uncompressed_keys = bits & 2048 != 0;
    p.allow_unsatisfiable = bits & 4096 != 0;
    p.allow_x_only_keys = bits & 8192 != 0;
    p.allow_inconsistent_multipath_keys = bits & 16384 != 0;
    let lims = [0usize, 1, 3, 10, 50, 100, 201, 520, 1000, 3600, 10_000, usize::MAX, usize::MAX, usize::MAX];
    p.max_opcode_count = *src.pick(&lims);
    p.max_script_size = *src.pick(&lims);
    p.max_witness_items = *src.pick(&lims);
    p.max_exec_stack_size = *src.pick(&lims);
    p.max_recursive_depth = *src.pick(&[1usize, 3, 8, 402, 402]);
    p
}

impl Check for C12 {
    fn id(&self) -> &'static str { "C12" }
    fn rule(&self) -> String {
        "lane `accept`: a typed random miniscript with at most one injected context violation (non-B top level, key kind illegal in the context, wrong (sorted)multisig flavour, or_i / d: in pre-segwit contexts, a lock value of 0 or >= 2^31) offered as text to Miniscript::{from_str, from_str_insane, from_str_with_validation_params(Ctx::CONSENSUS)}, node by node to Miniscript::from_ast, as script to decode / decode_consensus, wrapped into wsh / sh(wsh) / sh / tr descriptors for Descriptor::from_str, and through Descriptor::new_{wsh,sh,sh_wsh,tr} and new_{wsh,sh_wsh,sh}_sortedmulti constructors (1-20 keys of any kind): whatever is accepted must satisfy the mirror's context rules (specification typing, top-level B, key kinds, multisig flavour, conditional fragments, script size, depth) and, for the default parsers, the default sanity predicates; what Descriptor::from_str accepts the miniscript parser with the context's consensus parameters must accept too. lane `switch`: miniscripts parsed with MAX parameters; the public predicates requires_sig / is_non_malleable / has_repeated_keys / contains_raw_pkh / has_mixed_timelocks must equal the mirror's; for each boolean switch, validate() with only that switch restricted must fail with that switch's error iff the mirror predicate finds the defect (key multiset, path-set time-lock analysis, specification type s/m/B, fragment census, key kinds, exhaustive witness search for `unsatisfiable`), and each numeric limit must accept at the script's own figure and at +1 and reject at -1. the numeric limits of every context's SANE / CONSENSUS parameters are compared with Bitcoin's constants; bare descriptors are additionally held to the standard templates (pk, pkh, multisig with at most 3 keys). lane `lattice`: random parameter sets p,q,r: intersect idempotent / commutative / associative / lower bound, entails reflexive / transitive, p.entails(q) => every script p accepts q accepts; Ctx::SANE entails Ctx::CONSENSUS. Non-trivial = accepted inputs with >= 2 nodes, rejected one-violation inputs, (script, switch) pairs where the defect is present.".into()
    }
    fn lanes(&self, tier: Tier) -> Vec<(&'static str, usize, usize)> {
        match tier {
            Tier::Quick => vec![("accept", 200_000, 300), ("switch", 80_000, 300), ("lattice", 60_000, 300)],
            Tier::Thorough => vec![("accept", 4_000_000, 400), ("switch", 1_600_000, 400), ("lattice", 1_200_000, 400)],
        }
    }
    fn extra(&self, _tier: Tier, st: &mut crate::runner::Stats, _known: &dyn Fn(&str) -> bool, _threads: usize) -> Result<serde_json::Value, Failure> {
        // the numeric limits of every context against Bitcoin's constants (consensus: 201
        // opcodes, 10000-byte scripts, 520-byte elements = P2SH redeem scripts, 1000 stack
        // elements; standardness: 3600-byte P2WSH scripts with 100 witness items)
        const U: usize = usize::MAX;
        let table: [(&str, ValidationParams, [usize; 5]); 8] = [
            ("Bare::SANE", BareCtx::SANE, [201, 10_000, U, U, 402]),
            ("Bare::CONSENSUS", BareCtx::CONSENSUS, [201, 10_000, U, U, 402]),
            ("Legacy::SANE", Legacy::SANE, [201, 520, U, U, 402]),
            ("Legacy::CONSENSUS", Legacy::CONSENSUS, [201, 520, U, U, 402]),
            ("Segwitv0::SANE", Segwitv0::SANE, [201, 3600, 100, 1000, 402]),
            ("Segwitv0::CONSENSUS", Segwitv0::CONSENSUS, [201, U, U, 1000, 402]),
            ("Tap::SANE", Tap::SANE, [U, U, U, 1000, 402]),
            ("Tap::CONSENSUS", Tap::CONSENSUS, [U, U, U, U, 402]),
        ];
        for (name, p, want) in table.iter() {
            st.evaluations += 1;
            let got = [p.max_opcode_count, p.max_script_size, p.max_witness_items, p.max_exec_stack_size, p.max_recursive_depth];
            if &got != want {
                return fail(&format!("limit-constants/{}", name), format!("{}: (max_opcode_count, max_script_size, max_witness_items, max_exec_stack_size, max_recursive_depth) = {:?}, expected {:?}", name, got, want));
            }
        }
        for (name, sane, cons) in [("Bare", BareCtx::SANE, BareCtx::CONSENSUS), ("Legacy", Legacy::SANE, Legacy::CONSENSUS), ("Segwitv0", Segwitv0::SANE, Segwitv0::CONSENSUS), ("Tap", Tap::SANE, Tap::CONSENSUS)] {
            st.evaluations += 1;
            if !sane.entails(&cons) {
                return fail(&format!("sane-not-entails-consensus/{}", name), format!("{}::SANE does not entail {}::CONSENSUS", name, name));
            }
            if !cons.entails(&ValidationParams::MAX) || !sane.entails(&ValidationParams::SANE.intersect(&cons)) && false {
                return fail("consensus-not-entails-max", name.to_string());
            }
        }
        // every way of building a Threshold obeys 1 <= k <= n <= MAX (MAX = 0: unbounded), also
        // from iterators whose size hint is inexact; the multisig constructors on top of it too
        fn thresh_table<const MAX: usize>(st: &mut crate::runner::Stats) -> Result<(), Failure> {
            for n in 0..=(if MAX == 0 { 24 } else { MAX + 3 }) {
                for k in 0..=n + 1 {
                    let want = k >= 1 && k <= n && (MAX == 0 || n <= MAX);
                    let items: Vec<usize> = (0..n).collect();
                    let a = miniscript::Threshold::<usize, MAX>::new(k, items.clone()).is_ok();
                    let b2 = miniscript::Threshold::<usize, MAX>::from_iter(k, items.clone().into_iter()).is_ok();
                    let c = miniscript::Threshold::<usize, MAX>::from_iter(k, items.clone().into_iter().filter(|_| true)).is_ok();
                    let mut it = items.clone().into_iter();
                    let d = miniscript::Threshold::<usize, MAX>::from_iter(k, std::iter::from_fn(move || it.next())).is_ok();
                    let e = miniscript::Threshold::<usize, MAX>::from_iter(k, items.iter().flat_map(|x| Some(*x))).is_ok();
                    let f = miniscript::Threshold::<usize, 0>::new(k, items.clone()).ok().map(|t| t.set_maximum::<MAX>().is_ok());
                    st.evaluations += 6;
                    for (name, got) in [("new", a), ("from_iter(exact)", b2), ("from_iter(filter)", c), ("from_iter(from_fn)", d), ("from_iter(flat_map)", e)] {
                        if got != want {
                            return fail(&format!("threshold-ctor/{}", name), format!("Threshold::<_, {}>::{} with k={} n={} is {} but 1 <= k <= n <= MAX is {}", MAX, name, k, n, if got { "accepted" } else { "rejected" }, want));
                        }
                    }
                    if let Some(f) = f {
                        if f != want {
                            return fail("threshold-ctor/set_maximum", format!("set_maximum::<{}> with k={} n={} is {} but should be {}", MAX, k, n, f, want));
                        }
                    }
                }
            }
            Ok(())
        }
        thresh_table::<0>(st)?;
        thresh_table::<20>(st)?;
        thresh_table::<3>(st)?;
        // 21 / 1000 keys offered through an inexact-size iterator to the multisig terminals
        {
            use miniscript::miniscript::decode::Terminal;
            let ks: Vec<DK> = (0..21).map(|i| DK::from_str(&keys::key_compressed(i % 12)).unwrap()).collect();
            if let Ok(t) = miniscript::Threshold::<DK, 20>::from_iter(2, ks.iter().cloned().filter(|_| true)) {
                if let Ok(ms) = Miniscript::<DK, Segwitv0>::from_ast(Terminal::Multi(t)) {
                    if Descriptor::new_wsh(ms).is_ok() {
                        return fail("ctor-accepts/multi-21-keys", "Threshold::from_iter -> Terminal::Multi -> from_ast -> Descriptor::new_wsh accepts a 21-key multi".to_string());
                    }
                }
            }
            st.evaluations += 1;
        }
        // nesting depth through the constructors: a taproot tree built by TapTree::combine may
        // have leaves down to depth 128, not 129
        {
            use miniscript::descriptor::{TapTree, Tr};
            let leaf = |i: usize| TapTree::leaf(Miniscript::<DK, Tap>::from_str(&format!("pk({})", keys::key_xonly(i % 12))).unwrap());
            for (depth, want_ok) in [(127usize, true), (128, true), (129, false), (130, false)] {
                for left in [true, false] {
                    let mut t = Ok(leaf(0));
                    for d in 0..depth {
                        t = match t {
                            Ok(x) => {
                                if left {
                                    TapTree::combine(x, leaf(d + 1))
                                } else {
                                    TapTree::combine(leaf(d + 1), x)
                                }
                            }
                            e => e,
                        };
                    }
                    let ok = match t {
                        Ok(tree) => Tr::new(DK::from_str(&keys::key_xonly(1)).unwrap(), Some(tree)).is_ok(),
                        Err(_) => false,
                    };
                    st.evaluations += 1;
                    if ok != want_ok {
                        return fail(&format!("ctor-{}/taptree-depth-{}", if ok { "accepts" } else { "rejects" }, depth), format!("a tree with a leaf at depth {} built through TapTree::combine + Tr::new is {}", depth, if ok { "accepted" } else { "rejected" }));
                    }
                }
            }
        }
        Ok(serde_json::json!({"threshold_constructor_table": "k 0..=n+1, n 0..=MAX+3 for MAX in {0 (unbounded, n <= 24), 3, 20}; new / from_iter with exact and inexact size hints / set_maximum"}))
    }
    fn run_case(&self, lane: &str, src: &mut Src, rep: &mut Report) -> Result<(), Failure> {
        let ctx = *src.pick(&[Ctx::Segwitv0, Ctx::Tap, Ctx::Legacy, Ctx::Bare]);
        match lane {
            "switch" => {
                let size = src.range(1, 12);
                let mut cfg = Cfg::new(ctx, size);
                cfg.key_style = KeyStyle::Hex;
                cfg.legacy_restrict = false;
                cfg.allow_uncompressed = true;
                cfg.allow_raw_pkh = true;
                cfg.distinct_keys = src.bool();
                cfg.leaf_w = [6, 2, 3];
                let want = *src.pick(&[gen::W_B, gen::W_B, gen::W_B, gen::W_B, gen::W_V, gen::W_K, gen::W_W]);
                let mut st = gen::State::new();
                let mut node = gen::gen(src, &cfg, &mut st, want, size);
                // sometimes use a key kind that the context tolerates only in some positions
                if src.chance(1, 6) {
                    let alt = match ctx {
                        Ctx::Tap => keys::key_compressed(3),
                        Ctx::Segwitv0 => keys::key_compressed(3),
                        _ => keys::key_uncompressed(3),
                    };
                    let mut done = false;
                    node = node.map_keys(&mut |k| {
                        if !done && k.len() <= 130 {
                            done = true;
                            alt.clone()
                        } else {
                            k.to_string()
                        }
                    });
                }
                let text = ast::print(&node, src.bool());
                rep.desc = format!("{:?} {}", ctx, text);
                let ok = match ctx {
                    Ctx::Bare => switches::<BareCtx>(&node, ctx, &text, rep)?,
                    Ctx::Legacy => switches::<Legacy>(&node, ctx, &text, rep)?,
                    Ctx::Segwitv0 => switches::<Segwitv0>(&node, ctx, &text, rep)?,
                    Ctx::Tap => switches::<Tap>(&node, ctx, &text, rep)?,
                };
                if ok && rep.classes.iter().any(|c| c.starts_with("defect-present")) {
                    rep.nontrivial_by(&(ctx as u8, &text));
                }
                rep.evals = 40;
                Ok(())
            }
            "lattice" => {
                let (p, q, r) = (rand_params(src), rand_params(src), rand_params(src));
                rep.desc = format!("{:?} / {:?}", p, q);
                let pq = p.intersect(&q);
                if p.intersect(&p) != p {
                    return fail("intersect-idempotent", format!("{:?}", p));
                }
                if pq != q.intersect(&p) {
                    return fail("intersect-commutative", format!("{:?} / {:?}", p, q));
                }
                if pq.intersect(&r) != p.intersect(&q.intersect(&r)) {
                    return fail("intersect-associative", format!("{:?} / {:?} / {:?}", p, q, r));
                }
                if !pq.entails(&p) || !pq.entails(&q) {
                    return fail("intersect-lower-bound", format!("intersection does not entail its arguments: {:?} / {:?}", p, q));
                }
                if !p.entails(&p) {
                    return fail("entails-reflexive", format!("{:?}", p));
                }
                if p.entails(&q) && q.entails(&r) && !p.entails(&r) {
                    return fail("entails-transitive", format!("{:?} / {:?} / {:?}", p, q, r));
                }
                // tightening never admits more: (p ∩ q) accepts => p accepts and q accepts
                for _ in 0..6 {
                    let size = src.range(1, 8);
                    let mut cfg = Cfg::new(ctx, size);
                    cfg.legacy_restrict = false;
                    cfg.allow_raw_pkh = true;
                    cfg.allow_uncompressed = true;
                    let node = gen::gen_ms(src, &cfg);
                    let text = ast::print(&node, true);
                    macro_rules! go {
                        ($c:ty) => {{
                            if let Ok(ms) = Miniscript::<DK, $c>::from_str_with_validation_params(&text, &ValidationParams::MAX) {
                                let (a, b2, c) = (ms.validate(&pq).is_ok(), ms.validate(&p).is_ok(), ms.validate(&q).is_ok());
                                rep.evals += 3;
                                if a && !(b2 && c) {
                                    return fail("tightening-admits-more", format!("{} is accepted by the intersection of two parameter sets but rejected by one of them: {:?} / {:?}", text, p, q));
                                }
                                if p.entails(&q) && b2 && !c {
                                    return fail("entails-not-monotone", format!("{} is accepted by p but not by q although p.entails(q): {:?} / {:?}", text, p, q));
                                }
                                if a {
                                    rep.nontrivial_by(&(&text, format!("{:?}", pq)));
                                }
                            }
                        }};
                    }
                    match ctx {
                        Ctx::Bare => go!(BareCtx),
                        Ctx::Legacy => go!(Legacy),
                        Ctx::Segwitv0 => go!(Segwitv0),
                        Ctx::Tap => go!(Tap),
                    }
                }
                Ok(())
            }
            _ => {
                let size = src.range(1, 8);
                let mut cfg = Cfg::new(ctx, size);
                cfg.key_style = KeyStyle::Hex;
                cfg.allow_uncompressed = matches!(ctx, Ctx::Bare | Ctx::Legacy);
                cfg.distinct_keys = src.chance(2, 3);
                cfg.allow_const = src.chance(1, 3);
                let node0 = gen::gen_ms(src, &cfg);
                let (node, violation) = violate(src, ctx, node0);
                let text = ast::print(&node, src.bool());
                rep.desc = format!("{:?} [{}] {}", ctx, violation, text);
                rep.class(format!("violation={}", violation));
                match ctx {
                    Ctx::Bare => accept_ms::<BareCtx>(&node, ctx, &text, rep)?,
                    Ctx::Legacy => accept_ms::<Legacy>(&node, ctx, &text, rep)?,
                    Ctx::Segwitv0 => accept_ms::<Segwitv0>(&node, ctx, &text, rep)?,
                    Ctx::Tap => accept_ms::<Tap>(&node, ctx, &text, rep)?,
                }
                match ctx {
                    Ctx::Bare => decode_entry::<BareCtx>(&node, ctx, rep)?,
                    Ctx::Legacy => decode_entry::<Legacy>(&node, ctx, rep)?,
                    Ctx::Segwitv0 => decode_entry::<Segwitv0>(&node, ctx, rep)?,
                    Ctx::Tap => decode_entry::<Tap>(&node, ctx, rep)?,
                }
                // descriptor parsers and constructors
                let wk = match ctx {
                    Ctx::Segwitv0 => src.below(2),
                    Ctx::Legacy => 2,
                    Ctx::Tap => 3 + src.below(2),
                    Ctx::Bare => 9,
                };
                // bare descriptors additionally accept only the standard templates: offer
                // multisigs with 1-6 keys (standard up to 3) next to the random scripts
                let (node, text) = if wk == 9 && src.chance(1, 2) {
                    let n = src.range(1, 6);
                    let k = src.range(1, n);
                    let ks: Vec<String> = (0..n).map(|i| keys::key_compressed((i + src.below(3)) % 12)).collect();
                    let nd = if src.chance(1, 4) { Node::SortedMulti(k, ks) } else { Node::Multi(k, ks) };
                    let t = ast::print(&nd, true);
                    (nd, t)
                } else {
                    (node, text)
                };
                let (dtext, dctx) = if wk == 9 { (text.clone(), Ctx::Bare) } else { wrap(wk, &text) };
                let cv = analysis::context_violation(&node, dctx, true).or_else(|| if dctx == Ctx::Bare { analysis::bare_template_violation(&node) } else { None });
                if let Ok(d) = Descriptor::<DK>::from_str(&dtext) {
                    rep.class("accepted:Descriptor::from_str");
                    if let Some(v) = &cv {
                        return fail(&format!("descriptor-from_str-accepts/{}", v.split(' ').next().unwrap_or("?")), format!("Descriptor::from_str accepts `{}` whose script violates its context: {}", dtext, v));
                    }
                    // differential stated in the property
                    let ms_ok = match dctx {
                        Ctx::Bare => Miniscript::<DK, BareCtx>::from_str_with_validation_params(&text, &BareCtx::CONSENSUS).is_ok(),
                        Ctx::Legacy => Miniscript::<DK, Legacy>::from_str_with_validation_params(&text, &Legacy::CONSENSUS).is_ok(),
                        Ctx::Segwitv0 => Miniscript::<DK, Segwitv0>::from_str_with_validation_params(&text, &Segwitv0::CONSENSUS).is_ok(),
                        Ctx::Tap => Miniscript::<DK, Tap>::from_str_with_validation_params(&text, &Tap::CONSENSUS).is_ok(),
                    };
                    if !ms_ok {
                        return fail(&format!("descriptor-accepts-what-miniscript-rejects/{}", crate::glue::lib_ctx_name(dctx)), format!("Descriptor::from_str accepts `{}` but the miniscript parser with the context's consensus parameters rejects `{}`", dtext, text));
                    }
                    let _ = d;
                    if node.n_nodes() >= 2 {
                        rep.nontrivial_by(&dtext);
                    }
                } else if violation != "none" {
                    rep.nontrivial_by(&("rejected", &dtext));
                }
                // key translation as an entry point: the same descriptor as a String-keyed template,
                // translated to the real keys (for tr also with an uncompressed internal key)
                {
                    let mut names: Vec<String> = Vec::new();
                    let named = node.map_keys(&mut |k| {
                        let i = match names.iter().position(|x| x == k) {
                            Some(i) => i,
                            None => {
                                names.push(k.to_string());
                                names.len() - 1
                            }
                        };
                        format!("K{}", i)
                    });
                    let ntext = ast::print(&named, true);
                    let bad_internal = dctx == Ctx::Tap && src.chance(1, 4);
                    let ndtext = match wk {
                        0 => format!("wsh({})", ntext),
                        1 => format!("sh(wsh({}))", ntext),
                        2 => format!("sh({})", ntext),
                        3 => format!("tr(KI,{})", ntext),
                        9 => ntext.clone(),
                        _ => format!("tr(KI,{{{},pk(KJ)}})", ntext),
                    };
                    if let Ok(t) = Descriptor::<String>::from_str(&ndtext) {
                        let mut map = std::collections::HashMap::new();
                        for (i, k) in names.iter().enumerate() {
                            map.insert(format!("K{}", i), k.clone());
                        }
                        map.insert("KI".to_string(), if bad_internal { keys::key_uncompressed(10) } else { keys::key_xonly(10) });
                        map.insert("KJ".to_string(), keys::key_xonly(9));
                        if t.translate_pk(&mut crate::checks::c20::ToConcrete { map }).is_ok() {
                            rep.class("accepted:translate_pk");
                            let v = if bad_internal { Some("illegal-key-kind (uncompressed internal key)".to_string()) } else { cv.clone().filter(|v| v.starts_with("illegal-key")) };
                            if let Some(v) = v {
                                return fail(&format!("translate_pk-accepts/{}", v.split(' ').next().unwrap_or("?")), format!("translating the template `{}` to the keys of `{}` is accepted although the result violates: {}", ndtext, dtext, v));
                            }
                        } else if bad_internal {
                            rep.class("rejected:translate_pk-bad-internal-key");
                        }
                    }
                }
                // key-only descriptors through translation: a key kind the output type refuses
                // must make the translation fail
                {
                    let (tmpl, legal): (&str, fn(usize) -> bool) = match src.below(5) {
                        0 => ("wpkh(K0)", |l| l == 66),
                        1 => ("sh(wpkh(K0))", |l| l == 66),
                        2 => ("pkh(K0)", |l| l == 66 || l == 130),
                        3 => ("tr(K0)", |l| l == 66 || l == 64),
                        _ => ("tr(K0,pk(K0))", |l| l == 66 || l == 64),
                    };
                    let key = match src.below(3) {
                        0 => keys::key_uncompressed(src.below(8)),
                        1 => keys::key_xonly(src.below(8)),
                        _ => keys::key_compressed(src.below(8)),
                    };
                    if let Ok(t) = Descriptor::<String>::from_str(tmpl) {
                        let mut map = std::collections::HashMap::new();
                        map.insert("K0".to_string(), key.clone());
                        let ok = t.translate_pk(&mut crate::checks::c20::ToConcrete { map }).is_ok();
                        let parsed = Descriptor::<DK>::from_str(&tmpl.replace("K0", &key)).is_ok();
                        rep.class(format!("translate-key-only:{}", if ok { "accepted" } else { "rejected" }));
                        if ok && !legal(key.len()) {
                            return fail("translate_pk-accepts/illegal-key-kind", format!("translating `{}` to the {}-hex-digit key {} is accepted", tmpl, key.len(), key));
                        }
                        if ok != parsed {
                            return fail("translate_pk-vs-parser/key-only", format!("`{}` with K0 = {}: translation {} but the parser {} the same text", tmpl, key, if ok { "succeeds" } else { "fails" }, if parsed { "accepts" } else { "rejects" }));
                        }
                    }
                }
                // constructors on a MAX-parsed miniscript
                macro_rules! ctor {
                    ($c:ty, $f:expr, $name:expr) => {{
                        if let Ok(ms) = Miniscript::<DK, $c>::from_str_with_validation_params(&text, &ValidationParams::MAX) {
                            if $f(ms).is_ok() {
                                rep.class(format!("accepted:{}", $name));
                                if let Some(v) = &cv {
                                    if v.starts_with("top-level") || v.starts_with("illegal-key") {
                                        return fail(&format!("{}-accepts/{}", $name, v.split(' ').next().unwrap_or("?")), format!("{} accepts `{}` which violates: {}", $name, text, v));
                                    }
                                }
                            }
                        }
                    }};
                }
                // the sortedmulti / pk / pkh / wpkh convenience constructors with generated keys
                {
                    let n_keys = if src.chance(1, 6) { src.range(14, 20) } else { src.range(1, 4) };
                    let k = src.range(1, n_keys);
                    let mut ks: Vec<String> = Vec::new();
                    for i in 0..n_keys {
                        ks.push(match src.below(8) {
                            0 => keys::key_uncompressed(i % 12),
                            1 => keys::key_xonly(i % 12),
                            _ => keys::key_compressed(i % 12),
                        });
                    }
                    let dks: Result<Vec<DK>, _> = ks.iter().map(|x| DK::from_str(x)).collect();
                    if let Ok(dks) = dks {
                        let which = src.below(3);
                        let (name, mctx, r): (&str, Ctx, Result<Descriptor<DK>, miniscript::Error>) = match which {
                            0 => ("Descriptor::new_wsh_sortedmulti", Ctx::Segwitv0, miniscript::Threshold::new(k, dks).map_err(|e| miniscript::Error::Unexpected(e.to_string())).and_then(Descriptor::new_wsh_sortedmulti)),
                            1 => ("Descriptor::new_sh_wsh_sortedmulti", Ctx::Segwitv0, miniscript::Threshold::new(k, dks).map_err(|e| miniscript::Error::Unexpected(e.to_string())).and_then(Descriptor::new_sh_wsh_sortedmulti)),
                            _ => ("Descriptor::new_sh_sortedmulti", Ctx::Legacy, miniscript::Threshold::new(k, dks).map_err(|e| miniscript::Error::Unexpected(e.to_string())).and_then(Descriptor::new_sh_sortedmulti)),
                        };
                        if r.is_ok() {
                            rep.class(format!("accepted:{}", name));
                            let nd = Node::SortedMulti(k, ks.clone());
                            if let Some(v) = analysis::context_violation(&nd, mctx, true) {
                                return fail(&format!("{}-accepts/{}", name, v.split(' ').next().unwrap_or("?")), format!("{}({}, {:?}) is accepted although it violates: {}", name, k, ks, v));
                            }
                        }
                    }
                }
                match wk {
                    0 => ctor!(Segwitv0, |m| Descriptor::new_wsh(m), "Descriptor::new_wsh"),
                    1 => ctor!(Segwitv0, |m| Descriptor::new_sh_wsh(m), "Descriptor::new_sh_wsh"),
                    2 => ctor!(Legacy, |m| Descriptor::new_sh(m), "Descriptor::new_sh"),
                    9 => ctor!(BareCtx, |m| Descriptor::new_bare(m), "Descriptor::new_bare"),
                    _ => ctor!(Tap, |m: Miniscript<DK, Tap>| Descriptor::new_tr(DK::from_str(&keys::key_xonly(10)).unwrap(), Some(miniscript::descriptor::TapTree::leaf(m))), "Descriptor::new_tr"),
                }
                Ok(())
            }
        }
    }
}
