//! C20 — key translation and key iteration preserve structure.

use crate::gen::{self, Cfg, KeyStyle, PolCfg};
use crate::glue::{self, DK};
use crate::keys;
use crate::mdesc::MDesc;
use crate::mirror::ast::{self, Node};
use crate::mirror::encode::encode;
use crate::mirror::spec::Ctx;
use crate::poleval::MPol;
use crate::runner::{fail, Check, Failure, Report, Src, Tier};
use miniscript::policy::{Concrete, Semantic};
use miniscript::{BareCtx, Descriptor, ForEachKey, Legacy, Miniscript, MiniscriptKey, ScriptContext, Segwitv0, Tap, TranslateErr, Translator, ValidationParams};
use std::collections::HashMap;
use std::str::FromStr;

pub struct C20;

/// String -> String renaming, optionally failing on the n-th call.
struct Rename {
    map: HashMap<String, String>,
    fail_at: Option<usize>,
    calls: usize,
}
impl Translator<String> for Rename {
    type TargetPk = String;
    type Error = String;
    fn pk(&mut self, pk: &String) -> Result<String, String> {
        self.calls += 1;
        if Some(self.calls) == self.fail_at {
            return Err(format!("refused {}", pk));
        }
        Ok(self.map.get(pk).cloned().unwrap_or_else(|| pk.clone()))
    }
    fn sha256(&mut self, h: &String) -> Result<String, String> { Ok(h.clone()) }
    fn hash256(&mut self, h: &String) -> Result<String, String> { Ok(h.clone()) }
    fn ripemd160(&mut self, h: &String) -> Result<String, String> { Ok(h.clone()) }
    fn hash160(&mut self, h: &String) -> Result<String, String> { Ok(h.clone()) }
}

/// String -> concrete keys.
pub struct ToConcrete {
    pub map: HashMap<String, String>,
}
impl Translator<String> for ToConcrete {
    type TargetPk = DK;
    type Error = String;
    fn pk(&mut self, pk: &String) -> Result<DK, String> {
        let t = self.map.get(pk).ok_or_else(|| format!("unknown {}", pk))?;
        DK::from_str(t).map_err(|e| e.to_string())
    }
    fn sha256(&mut self, h: &String) -> Result<bitcoin::hashes::sha256::Hash, String> { bitcoin::hashes::sha256::Hash::from_str(h).map_err(|e| e.to_string()) }
    fn hash256(&mut self, h: &String) -> Result<miniscript::hash256::Hash, String> { miniscript::hash256::Hash::from_str(h).map_err(|e| e.to_string()) }
    fn ripemd160(&mut self, h: &String) -> Result<bitcoin::hashes::ripemd160::Hash, String> { bitcoin::hashes::ripemd160::Hash::from_str(h).map_err(|e| e.to_string()) }
    fn hash160(&mut self, h: &String) -> Result<bitcoin::hashes::hash160::Hash, String> { bitcoin::hashes::hash160::Hash::from_str(h).map_err(|e| e.to_string()) }
}

fn names_of(n: &[String]) -> (Vec<String>, HashMap<String, String>) {
    // distinct key texts -> short names
    let mut uniq: Vec<String> = Vec::new();
    for k in n {
        if !uniq.contains(k) {
            uniq.push(k.clone());
        }
    }
    let mut to_name = HashMap::new();
    for (i, k) in uniq.iter().enumerate() {
        to_name.insert(k.clone(), format!("K{}", i));
    }
    (uniq, to_name)
}

fn multiset(mut v: Vec<String>) -> Vec<String> {
    v.sort();
    v
}

/// Keys tokenised from a string form: maximal runs of key characters that are not fragment
/// names or numbers.
fn keys_in_text(s: &str) -> Vec<String> {
    let mut out = Vec::new();
    let mut cur = String::new();
    let flush = |cur: &mut String, out: &mut Vec<String>| {
        if cur.len() >= 2 && cur.starts_with('K') && cur[1..].chars().all(|c| c.is_ascii_digit()) {
            out.push(cur.clone());
        }
        cur.clear();
    };
    for c in s.chars() {
        if c.is_ascii_alphanumeric() || c == '_' {
            cur.push(c);
        } else {
            flush(&mut cur, &mut out);
        }
    }
    flush(&mut cur, &mut out);
    out
}

fn ms_lane<C: ScriptContext>(node: &Node, ctx: Ctx, src: &mut Src, rep: &mut Report) -> Result<bool, Failure> {
    let all = node.keys();
    let (uniq, to_name) = names_of(&all);
    let named = node.map_keys(&mut |k| to_name[k].clone());
    let text = ast::print(&named, src.bool());
    let p = ValidationParams::MAX;
    let ms = match Miniscript::<String, C>::from_str_with_validation_params(&text, &p) {
        Ok(m) => m,
        Err(_) => {
            rep.class("rejected");
            return Ok(false);
        }
    };
    // --- iteration
    let want = multiset(named.keys());
    let it: Vec<String> = ms.iter_pk().collect();
    if multiset(it.clone()) != want {
        return fail("iter-pk/miniscript", format!("iter_pk yields {:?} but the AST has keys {:?} ({})", it, want, text));
    }
    let mut seen = Vec::new();
    let all_true = ms.for_each_key(|k| {
        seen.push(k.clone());
        true
    });
    if !all_true || multiset(seen.clone()) != want {
        return fail("for-each-key/miniscript", format!("for_each_key visited {:?}, AST keys {:?} ({})", seen, want, text));
    }
    if multiset(keys_in_text(&ms.to_string())) != want {
        return fail("keys-in-text/miniscript", format!("keys in the string form {:?} differ from AST keys {:?}", keys_in_text(&ms.to_string()), want));
    }
    // the structural iterators: iter() is the pre-order walk of the expression tree; branches(),
    // get_nth_child and get_nth_pk describe every node as the mirror does
    {
        let mut pre: Vec<&Node> = Vec::new();
        fn walk<'a>(n: &'a Node, out: &mut Vec<&'a Node>) {
            out.push(n);
            for c in n.children() {
                walk(c, out);
            }
        }
        walk(&named, &mut pre);
        let got: Vec<&Miniscript<String, C>> = ms.iter().collect();
        if got.len() != pre.len() {
            return fail("iter/count", format!("iter() yields {} nodes, the expression `{}` has {}", got.len(), text, pre.len()));
        }
        for (g, w) in got.iter().zip(pre.iter()) {
            let gn = ast::from_lib(*g);
            if &gn != *w {
                return fail("iter/order", format!("iter() yields `{}` where the pre-order walk of `{}` has `{}`", g, text, ast::print(w, true)));
            }
            let wc = w.children();
            let br = g.branches();
            if br.len() != wc.len() || br.iter().zip(wc.iter()).any(|(b2, c)| &ast::from_lib(*b2) != *c) {
                return fail("iter/branches", format!("branches() of `{}` gives {} nodes, expected the {} children", g, br.len(), wc.len()));
            }
            for i in 0..wc.len() + 2 {
                let c = g.get_nth_child(i).map(|x| ast::from_lib(x));
                let want_c = wc.get(i).map(|x| (*x).clone());
                if c != want_c {
                    return fail("iter/get-nth-child", format!("get_nth_child({}) of `{}` is {:?}", i, g, c.map(|x| ast::print(&x, true))));
                }
            }
            let own: Vec<String> = match w {
                Node::PkK(k) | Node::PkH(k) => vec![k.clone()],
                Node::Multi(_, ks) | Node::SortedMulti(_, ks) | Node::MultiA(_, ks) | Node::SortedMultiA(_, ks) => ks.clone(),
                _ => vec![],
            };
            for i in 0..own.len() + 2 {
                if g.get_nth_pk(i) != own.get(i).cloned() {
                    return fail("iter/get-nth-pk", format!("get_nth_pk({}) of `{}` is {:?}, expected {:?}", i, g, g.get_nth_pk(i), own.get(i)));
                }
            }
        }
    }
    if !want.is_empty() {
        let bad = src.pick(&want).clone();
        let r = ms.for_each_key(|k| *k != bad);
        if r {
            return fail("for-each-key-pred/miniscript", format!("for_each_key returned true although key {} fails the predicate ({})", bad, text));
        }
        if !ms.for_any_key(|k| *k == bad) {
            return fail("for-any-key/miniscript", format!("for_any_key missed key {} ({})", bad, text));
        }
        if ms.for_any_key(|k| k == "NOPE") {
            return fail("for-any-key/miniscript", "for_any_key found a key that is not there".to_string());
        }
    }
    // --- identity
    let id = ms.translate_pk(&mut Rename { map: HashMap::new(), fail_at: None, calls: 0 });
    match id {
        Ok(m2) => {
            if ast::from_lib(&m2) != named || m2.to_string() != ms.to_string() || m2.ty != ms.ty || m2.ext != ms.ext {
                return fail("identity/miniscript", format!("identity translation of {} gives {}", ms, m2));
            }
        }
        Err(_) => return fail("identity-fails/miniscript", format!("identity translation of {} failed", ms)),
    }
    // --- renaming and composition
    let mut m1 = HashMap::new();
    let mut m2 = HashMap::new();
    let mut m12 = HashMap::new();
    for (i, _) in uniq.iter().enumerate() {
        let a = format!("K{}", i);
        let b2 = format!("K{}", 100 + (i * 7 + 3) % 50 + 50 * (i / 50));
        let c = format!("K{}", 300 + i);
        m1.insert(a.clone(), b2.clone());
        m2.insert(b2.clone(), c.clone());
        m12.insert(a, c);
    }
    let t1 = ms.translate_pk(&mut Rename { map: m1.clone(), fail_at: None, calls: 0 }).map_err(|_| Failure { sig: "rename-fails/miniscript".into(), msg: format!("renaming failed on {}", ms) })?;
    let want1 = named.map_keys(&mut |k| m1.get(k).cloned().unwrap_or(k.to_string()));
    if ast::from_lib(&t1) != want1 {
        return fail("rename-structure/miniscript", format!("translate_pk({}) = {} but mapping the keys of the AST gives {}", ms, t1, ast::print(&want1, true)));
    }
    if t1.ty != ms.ty {
        return fail("rename-type/miniscript", format!("type changed by renaming: {:?} -> {:?}", ms.ty, t1.ty));
    }
    let t2 = t1.translate_pk(&mut Rename { map: m2, fail_at: None, calls: 0 }).map_err(|_| Failure { sig: "rename-fails/miniscript".into(), msg: "second renaming failed".into() })?;
    let t12 = ms.translate_pk(&mut Rename { map: m12, fail_at: None, calls: 0 }).map_err(|_| Failure { sig: "rename-fails/miniscript".into(), msg: "composite renaming failed".into() })?;
    if ast::from_lib(&t2) != ast::from_lib(&t12) || t2.to_string() != t12.to_string() {
        return fail("compose/miniscript", format!("t2(t1(x)) = {} but (t2.t1)(x) = {}", t2, t12));
    }
    // --- failing translator
    if !all.is_empty() {
        let at = src.range(1, all.len());
        match ms.translate_pk(&mut Rename { map: m1.clone(), fail_at: Some(at), calls: 0 }) {
            Err(TranslateErr::TranslatorErr(_)) => {}
            Err(TranslateErr::OuterError(e)) => return fail("fail-wrong-kind/miniscript", format!("translator failure reported as OuterError: {}", e)),
            Ok(m) => return fail("fail-ignored/miniscript", format!("translator failed on call {} but translation returned {}", at, m)),
        }
    }
    // --- to concrete keys: script equals the original with mapped keys substituted
    let mut cmap = HashMap::new();
    for (i, k) in uniq.iter().enumerate() {
        cmap.insert(format!("K{}", i), k.clone());
    }
    match ms.translate_pk(&mut ToConcrete { map: cmap.clone() }) {
        Ok(mc) => {
            if ast::from_lib(&mc) != *node {
                return fail("concrete-structure/miniscript", format!("String->concrete translation of {} gives {} instead of {}", ms, mc, ast::print(node, true)));
            }
            let own = encode(node, ctx).map_err(|e| Failure { sig: "mirror-encode".into(), msg: e })?;
            if mc.encode().as_bytes() != &own[..] {
                return fail("concrete-script/miniscript", format!("script of the translated miniscript {} differs from the template with substituted keys", mc));
            }
            if mc.ty != ms.ty {
                return fail("concrete-type/miniscript", "type changed by translation".to_string());
            }
            // the translated value is the value the parser builds from the substituted text,
            // cached type and size data included
            if let Ok(direct) = Miniscript::<DK, C>::from_str_with_validation_params(&ast::print(node, true), &p) {
                if direct != mc || direct.ty != mc.ty || direct.ext != mc.ext {
                    return fail(
                        "concrete-vs-parsed/miniscript",
                        format!("String->concrete translation of {} and the parse of the substituted text differ in {}", ms, if direct != mc { "value" } else if direct.ty != mc.ty { "type" } else { "extra data (sizes)" }),
                    );
                }
                // ... and so is an identity translation of the parsed value
                if let Ok(again) = direct.translate_pk(&mut IdentDk) {
                    let again: Miniscript<DK, C> = again;
                    if again != direct || again.ty != direct.ty || again.ext != direct.ext {
                        return fail("identity-ext/miniscript", format!("identity translation of {} changes its cached type / size data", direct));
                    }
                }
            }
        }
        Err(TranslateErr::OuterError(e)) => {
            // legal only if some mapped key is illegal in the context or a context limit is hit
            let illegal = uniq.iter().any(|k| match ctx {
                Ctx::Segwitv0 => k.len() == 130 || k.len() == 64,
                Ctx::Tap => k.len() == 130,
                _ => k.len() == 64,
            });
            if !illegal && !e.to_string().contains("larger than") && !e.to_string().contains("limit") {
                return fail("concrete-outer-error/miniscript", format!("translation of {} to legal keys failed: {}", ms, e));
            }
            rep.class("outer-error");
        }
        Err(TranslateErr::TranslatorErr(e)) => return fail("concrete-translator-error/miniscript", e),
    }
    // --- context-illegal key
    if !uniq.is_empty() && matches!(ctx, Ctx::Segwitv0 | Ctx::Tap) {
        let mut bad = cmap.clone();
        let victim = format!("K{}", src.below(uniq.len()));
        bad.insert(victim.clone(), keys::key_uncompressed(7));
        match ms.translate_pk(&mut ToConcrete { map: bad }) {
            Err(TranslateErr::OuterError(_)) => rep.class("illegal-key-rejected"),
            Err(TranslateErr::TranslatorErr(e)) => return fail("illegal-key-wrong-kind/miniscript", e),
            // the property only bounds when translation may *fail*; whether an accepted value
            // obeys its context is C12's subject
            Ok(_) => rep.class("illegal-key-accepted"),
        }
    }
    Ok(all.len() >= 3)
}

impl Check for C20 {
    fn id(&self) -> &'static str { "C20" }
    fn rule(&self) -> String {
        "case = miniscript (4 contexts), descriptor (all output types, taproot trees) or concrete/semantic policy with String keys K0..Kn in asymmetric positions; translators: identity, injective renaming, composition of two renamings vs. the one-step composite, String->concrete keys, translator failing on the i-th call, mapping one key to an uncompressed key in Segwitv0/Tap. Oracle: mirror AST with keys mapped by the same function; types equal; script of the translated value == own encoding of the key-substituted AST; failure kinds (TranslatorErr vs OuterError); iter_pk / for_each_key / for_any_key / Concrete::keys visit exactly the key multiset of the mirror AST == keys tokenised from the string form; for_each_key is false iff a key fails the predicate. Non-trivial = >= 3 keys; distinct by text. Miniscript::iter() must be the pre-order walk of the mirror tree, and branches() / get_nth_child(i) / get_nth_pk(i) must describe every node as the mirror does (also for out-of-range i).".into()
    }
    fn lanes(&self, tier: Tier) -> Vec<(&'static str, usize, usize)> {
        match tier {
            Tier::Quick => vec![("miniscript", 1_600_000, 300), ("descriptor", 800_000, 300), ("policy", 1_600_000, 200)],
            Tier::Thorough => vec![("miniscript", 32_000_000, 400), ("descriptor", 16_000_000, 400), ("policy", 32_000_000, 300)],
        }
    }
    fn run_case(&self, lane: &str, src: &mut Src, rep: &mut Report) -> Result<(), Failure> {
        if lane == "policy" {
            let cfg = PolCfg { max_leaves: 8, allow_const: true, distinct_keys: false, key_hex_ctx: Ctx::Segwitv0, named_keys: true, consistent_locks: false, max_weight: 5, allow_thresh: true, binary: false };
            let p = gen::gen_policy(src, &cfg);
            // rename A.. to K0..
            fn ren(p: &MPol, f: &dyn Fn(&str) -> String) -> MPol {
                match p {
                    MPol::Key(k) => MPol::Key(f(k)),
                    MPol::And(v) => MPol::And(v.iter().map(|x| ren(x, f)).collect()),
                    MPol::Or(v) => MPol::Or(v.iter().map(|(w, x)| (*w, ren(x, f))).collect()),
                    MPol::Thresh(k, v) => MPol::Thresh(*k, v.iter().map(|x| ren(x, f)).collect()),
                    o => o.clone(),
                }
            }
            let p = ren(&p, &|k| format!("K{}", k.as_bytes()[0] - b'A'));
            let text = p.print();
            rep.desc = text.clone();
            let mut want = Vec::new();
            p.walk(&mut |x| {
                if let MPol::Key(k) = x {
                    want.push(k.clone());
                }
            });
            let want = multiset(want);
            let m1 = |k: &str| format!("K{}", 100 + k[1..].parse::<usize>().unwrap_or(0));
            if let Ok(c) = Concrete::<String>::from_str(&text) {
                let ks: Vec<String> = c.keys().into_iter().cloned().collect();
                if multiset(ks.clone()) != want {
                    return fail("keys/concrete", format!("Concrete::keys() = {:?} but the policy has {:?}", ks, want));
                }
                let mut seen = Vec::new();
                c.for_each_key(|k| {
                    seen.push(k.clone());
                    true
                });
                if multiset(seen.clone()) != want {
                    return fail("for-each-key/concrete", format!("for_each_key visited {:?}, policy keys {:?}", seen, want));
                }
                if multiset(keys_in_text(&c.to_string())) != want {
                    return fail("keys-in-text/concrete", "string form has different keys".to_string());
                }
                if !want.is_empty() {
                    let bad = src.pick(&want).clone();
                    if c.for_each_key(|k| *k != bad) {
                        return fail("for-each-key-pred/concrete", format!("for_each_key true although {} fails", bad));
                    }
                }
                let mut map = HashMap::new();
                for k in &want {
                    map.insert(k.clone(), m1(k));
                }
                let t = c.translate_pk(&mut Rename { map: map.clone(), fail_at: None, calls: 0 }).map_err(|e| Failure { sig: "rename-fails/concrete".into(), msg: e })?;
                if MPol::from_concrete(&t) != ren(&p, &|k| m1(k)) {
                    return fail("rename-structure/concrete", format!("translate_pk({}) = {}", c, t));
                }
                let id = c.translate_pk(&mut Rename { map: HashMap::new(), fail_at: None, calls: 0 }).map_err(|e| Failure { sig: "identity-fails/concrete".into(), msg: e })?;
                if MPol::from_concrete(&id) != p || id.to_string() != c.to_string() {
                    return fail("identity/concrete", format!("identity translation of {} gives {}", c, id));
                }
                if !want.is_empty() {
                    let at = src.range(1, want.len());
                    if c.translate_pk(&mut Rename { map, fail_at: Some(at), calls: 0 }).is_ok() {
                        return fail("fail-ignored/concrete", format!("translator failed on call {} but translation succeeded", at));
                    }
                }
                if want.len() >= 3 {
                    rep.nontrivial_by(&("concrete", &text));
                }
            }
            if let Some(s) = crate::checks::c18::to_semantic(&p) {
                let mut seen = Vec::new();
                s.for_each_key(|k| {
                    seen.push(k.clone());
                    true
                });
                if multiset(seen.clone()) != want {
                    return fail("for-each-key/semantic", format!("for_each_key visited {:?}, policy keys {:?}", seen, want));
                }
                let mut map = HashMap::new();
                for k in &want {
                    map.insert(k.clone(), m1(k));
                }
                let t: Semantic<String> = s.translate_pk(&mut Rename { map, fail_at: None, calls: 0 }).map_err(|e| Failure { sig: "rename-fails/semantic".into(), msg: e })?;
                let want_t = ren(&MPol::from_semantic(&s), &|k| m1(k));
                if MPol::from_semantic(&t) != want_t {
                    return fail("rename-structure/semantic", format!("translate_pk({}) = {}", s, t));
                }
            }
            return Ok(());
        }
        if lane == "miniscript" {
            let ctx = *src.pick(&[Ctx::Segwitv0, Ctx::Tap, Ctx::Legacy, Ctx::Bare]);
            let size = src.range(1, 12);
            let mut cfg = Cfg::new(ctx, size);
            cfg.key_style = KeyStyle::Hex;
            cfg.allow_uncompressed = true;
            cfg.max_multi_n = 4;
            let node = gen::gen_ms(src, &cfg);
            rep.desc = format!("{:?} {}", ctx, ast::print(&node, true));
            let nt = match ctx {
                Ctx::Bare => ms_lane::<BareCtx>(&node, ctx, src, rep)?,
                Ctx::Legacy => ms_lane::<Legacy>(&node, ctx, src, rep)?,
                Ctx::Segwitv0 => ms_lane::<Segwitv0>(&node, ctx, src, rep)?,
                Ctx::Tap => ms_lane::<Tap>(&node, ctx, src, rep)?,
            };
            if nt {
                rep.nontrivial_by(&rep.desc.clone());
            }
            return Ok(());
        }
        // descriptor lane
        let kind = crate::checks::c01::pick_kind(src);
        let size = src.range(1, 8);
        if src.chance(1, 3) {
            // descriptors that only the constructors accept (consensus-valid scripts: leaves
            // without keys, repeated keys, constants), concrete keys
            let d = gen::gen_desc(src, kind, &|ctx| {
                let mut c = Cfg::new(ctx, size);
                c.key_style = KeyStyle::Hex;
                c.leaf_w = [4, 3, 3];
                c
            });
            let sugar = src.bool();
            rep.desc = format!("[ctor] {}", d.print(sugar));
            let lib = match glue::desc_via_ctor(&d, glue::Level::Insane, sugar) {
                Ok(l) => l,
                Err(_) => {
                    rep.class("rejected");
                    return Ok(());
                }
            };
            rep.class("ctor-insane");
            let want = multiset(d.all_keys());
            let it: Vec<String> = lib.iter_pk().map(|k| k.to_string()).collect();
            if multiset(it.clone()) != want {
                return fail(&format!("iter-pk/descriptor/{}", d.kind()), format!("iter_pk yields {:?} but the descriptor has keys {:?} ({})", it, want, rep.desc));
            }
            let mut seen = Vec::new();
            lib.for_each_key(|k| {
                seen.push(k.to_string());
                true
            });
            if multiset(seen.clone()) != want {
                return fail(&format!("for-each-key/descriptor/{}", d.kind()), format!("for_each_key visited {:?}, descriptor keys {:?}", seen, want));
            }
            {
                let text = lib.to_string();
                let body = text.split('#').next().unwrap_or("");
                let mut uniq = want.clone();
                uniq.dedup();
                for k in &uniq {
                    let n_text = body.matches(k.as_str()).count();
                    let n_want = want.iter().filter(|x| *x == k).count();
                    if n_text != n_want {
                        return fail("keys-in-text/descriptor", format!("string form {} shows key {} {} times, iteration {} times", lib, k, n_text, n_want));
                    }
                }
            }
            if let Some(bad) = want.first().cloned() {
                if lib.for_each_key(|k| k.to_string() != bad) {
                    return fail("for-each-key-pred/descriptor", format!("for_each_key true although {} fails", bad));
                }
            }
            let id = lib.translate_pk(&mut IdentDk).map_err(|_| Failure { sig: "identity-fails/descriptor".into(), msg: "identity failed".into() })?;
            if id != lib || id.to_string() != lib.to_string() || glue::mdesc_from_lib(&id).ok().as_ref() != Some(&d) {
                return fail("identity/descriptor", format!("identity translation of {} gives {}", lib, id));
            }
            if want.len() >= 2 || d.nodes().len() >= 2 {
                rep.nontrivial_by(&rep.desc.clone());
            }
            return Ok(());
        }
        let d = gen::gen_desc(src, kind, &|ctx| {
            let mut c = Cfg::sane(ctx, size);
            // tapscript: full (02/03) keys next to x-only ones
            c.key_style = if ctx == Ctx::Tap && size % 3 == 0 { KeyStyle::Rich } else { KeyStyle::Hex };
            c.xpub_chance = 0;
            c.distinct_keys = src_free_bool(size);
            c
        });
        let all = d.all_keys();
        let (uniq, to_name) = names_of(&all);
        let named = d.map_keys(&mut |k| to_name[k].clone());
        let text = named.print(src.bool());
        rep.desc = text.clone();
        let lib = match Descriptor::<String>::from_str(&text) {
            Ok(l) => l,
            Err(_) => {
                rep.class("rejected");
                return Ok(());
            }
        };
        let want = multiset(named.all_keys());
        let it: Vec<String> = lib.iter_pk().collect();
        if multiset(it.clone()) != want {
            return fail(&format!("iter-pk/descriptor/{}", d.kind()), format!("iter_pk yields {:?} but the descriptor has keys {:?} ({})", it, want, text));
        }
        let mut seen = Vec::new();
        lib.for_each_key(|k| {
            seen.push(k.clone());
            true
        });
        if multiset(seen.clone()) != want {
            return fail(&format!("for-each-key/descriptor/{}", d.kind()), format!("for_each_key visited {:?}, descriptor keys {:?}", seen, want));
        }
        if multiset(keys_in_text(&lib.to_string().split('#').next().unwrap_or(""))) != want {
            return fail("keys-in-text/descriptor", format!("string form {} has different keys than {:?}", lib, want));
        }
        if want.is_empty() {
            rep.class("no-keys");
            return Ok(());
        }
        let bad = src.pick(&want).clone();
        if lib.for_each_key(|k| *k != bad) {
            return fail("for-each-key-pred/descriptor", format!("for_each_key true although {} fails", bad));
        }
        // identity
        let id = lib.translate_pk(&mut Rename { map: HashMap::new(), fail_at: None, calls: 0 }).map_err(|_| Failure { sig: "identity-fails/descriptor".into(), msg: "identity failed".into() })?;
        if glue::mdesc_from_lib(&id).ok().as_ref() != Some(&named) || id.to_string() != lib.to_string() {
            return fail("identity/descriptor", format!("identity translation of {} gives {}", lib, id));
        }
        // to concrete
        let mut cmap = HashMap::new();
        for (i, k) in uniq.iter().enumerate() {
            cmap.insert(format!("K{}", i), k.clone());
        }
        match lib.translate_pk(&mut ToConcrete { map: cmap.clone() }) {
            Ok(dc) => {
                if glue::mdesc_from_lib(&dc).ok().as_ref() != Some(&d) {
                    return fail("concrete-structure/descriptor", format!("String->concrete translation of {} gives {}", lib, dc));
                }
                let sc = d.scripts().map_err(|e| Failure { sig: "mirror-encode".into(), msg: e })?;
                if dc.script_pubkey().as_bytes() != &sc.spk[..] {
                    return fail(&format!("concrete-script/descriptor/{}", d.kind()), format!("scriptPubKey of the translated descriptor {} differs from the template with substituted keys", dc));
                }
            }
            Err(TranslateErr::OuterError(e)) => return fail(&format!("concrete-outer-error/descriptor/{}", d.kind()), format!("translation of {} to legal keys failed: {}", lib, e)),
            Err(TranslateErr::TranslatorErr(e)) => return fail("concrete-translator-error/descriptor", e),
        }
        // failing
        let at = src.range(1, all.len().max(1));
        match lib.translate_pk(&mut Rename { map: HashMap::new(), fail_at: Some(at), calls: 0 }) {
            Err(TranslateErr::TranslatorErr(_)) => {}
            Err(TranslateErr::OuterError(e)) => return fail("fail-wrong-kind/descriptor", e.to_string()),
            Ok(m) => return fail("fail-ignored/descriptor", format!("translator failed on call {} but translation returned {}", at, m)),
        }
        // illegal kind
        if matches!(d, MDesc::Wsh(_) | MDesc::ShWsh(_) | MDesc::Wpkh(_) | MDesc::ShWpkh(_) | MDesc::Tr(..)) {
            let mut bad = cmap.clone();
            bad.insert(format!("K{}", src.below(uniq.len())), keys::key_uncompressed(7));
            match lib.translate_pk(&mut ToConcrete { map: bad }) {
                Err(TranslateErr::OuterError(_)) => rep.class("illegal-key-rejected"),
                Err(TranslateErr::TranslatorErr(e)) => return fail("illegal-key-wrong-kind/descriptor", e),
                Ok(_) => rep.class("illegal-key-accepted"),
            }
        }
        if want.len() >= 3 {
            rep.nontrivial_by(&text);
        }
        Ok(())
    }
}

fn src_free_bool(x: usize) -> bool { x % 2 == 0 }

struct IdentDk;
impl Translator<DK> for IdentDk {
    type TargetPk = DK;
    type Error = ();
    fn pk(&mut self, pk: &DK) -> Result<DK, ()> { Ok(pk.clone()) }
    fn sha256(&mut self, h: &<DK as MiniscriptKey>::Sha256) -> Result<<DK as MiniscriptKey>::Sha256, ()> { Ok(*h) }
    fn hash256(&mut self, h: &<DK as MiniscriptKey>::Hash256) -> Result<<DK as MiniscriptKey>::Hash256, ()> { Ok(*h) }
    fn ripemd160(&mut self, h: &<DK as MiniscriptKey>::Ripemd160) -> Result<<DK as MiniscriptKey>::Ripemd160, ()> { Ok(*h) }
    fn hash160(&mut self, h: &<DK as MiniscriptKey>::Hash160) -> Result<<DK as MiniscriptKey>::Hash160, ()> { Ok(*h) }
}
