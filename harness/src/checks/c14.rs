//! C14 — PSBT finalization yields a valid spend, atomically and idempotently.

use crate::bip341;
use crate::checks::c01::pick_kind;
use crate::gen::{self, Cfg, KeyStyle};
use crate::glue::{self, Desc};
use crate::keys;
use crate::mdesc::MDesc;
use crate::mirror::encode::key_bytes;
use crate::mirror::spec::Ctx;
use crate::refscript::{verify_input, Flags};
use crate::runner::{fail, guard, Check, Failure, Report, Src, Tier};
use crate::world::{sign_real, TxCtx, World, WorldSat};
use bitcoin::hashes::Hash;
use bitcoin::psbt::Psbt;
use bitcoin::taproot::TapLeafHash;
use bitcoin::{absolute, transaction, Amount, OutPoint, ScriptBuf, Sequence, Transaction, TxIn, TxOut, Witness};
use miniscript::psbt::PsbtExt;
use secp256k1::Secp256k1;

pub struct C14;

#[derive(Clone, Debug, PartialEq, Eq)]
pub enum Op {
    Update(usize),
    /// n-th key of input i
    AddSig(usize, usize),
    AddPreimages(usize),
    AddNoise(usize),
    Finalize,
    FinalizeMall,
    FinalizeInp(usize),
    FinalizeInpMall(usize),
    Extract,
}

impl Op {
    pub fn is_add(&self) -> bool { matches!(self, Op::Update(_) | Op::AddSig(..) | Op::AddPreimages(_) | Op::AddNoise(_)) }
}

pub struct Setup {
    pub descs: Vec<MDesc>,
    pub libs: Vec<Desc>,
    pub sats: Vec<WorldSat>,
    /// per input: list of (kind, key bytes / (xonly, leaf)) signature slots
    pub slots: Vec<Vec<Slot>>,
    pub psbt: Psbt,
    pub prevouts: Vec<TxOut>,
}

#[derive(Clone, Debug)]
pub enum Slot {
    Ecdsa(Vec<u8>),
    TapKey,
    TapLeaf([u8; 32], [u8; 32]),
}

pub fn build(src: &mut Src) -> Result<Option<Setup>, Failure> {
    let n_in = src.range(1, 3);
    let mut descs = Vec::new();
    let mut libs = Vec::new();
    for _ in 0..n_in {
        let kind = pick_kind(src);
        let size = src.range(1, 6);
        // a third of the inputs spend scripts that are only consensus-valid (malleable,
        // signature-less branches, repeated keys): there the malleable and non-malleable
        // finalizers can differ
        let insane = src.chance(1, 3);
        let d = gen::gen_desc(src, kind, &|ctx| {
            let mut c = if insane { Cfg::new(ctx, size) } else { Cfg::sane(ctx, size) };
            c.key_style = KeyStyle::Rich;
            c.xpub_chance = 2;
            c.allow_uncompressed = false;
            c
        });
        let lib = match if insane { glue::desc_via_ctor(&d, glue::Level::Insane, true) } else { glue::desc_via_str(&d, true) } {
            Ok(l) => l,
            Err(_) => return Ok(None),
        };
        if !insane && !glue::is_sane(&d) {
            return Ok(None);
        }
        descs.push(d);
        libs.push(lib);
    }
    // previous transactions
    let mut inputs = Vec::new();
    let mut prevouts = Vec::new();
    let mut prev_txs = Vec::new();
    let lock_time = *src.pick(&[0u32, 100, 5000, 500_000_000, 1_600_000_000]);
    for (i, d) in descs.iter().enumerate() {
        let sc = d.scripts().map_err(|e| Failure { sig: "mirror-encode".into(), msg: e })?;
        let vout = src.below(3);
        let mut outs = Vec::new();
        for v in 0..=vout {
            outs.push(TxOut {
                value: Amount::from_sat(50_000 + 1000 * i as u64 + v as u64),
                script_pubkey: if v == vout { ScriptBuf::from_bytes(sc.spk.clone()) } else { ScriptBuf::from_bytes(crate::mdesc::p2wpkh_spk(&[v as u8 + 9; 20])) },
            });
        }
        let prev = Transaction {
            version: transaction::Version(2),
            lock_time: absolute::LockTime::ZERO,
            input: vec![TxIn { previous_output: OutPoint { txid: bitcoin::Txid::from_byte_array([i as u8 + 1; 32]), vout: 0 }, script_sig: ScriptBuf::new(), sequence: Sequence::MAX, witness: Witness::new() }],
            output: outs,
        };
        let (_, olders) = gen::locks_of(&d.nodes());
        let seq = if olders.is_empty() || src.chance(1, 3) { *src.pick(&[0xffff_fffeu32, 0xffff_fffd, 0, 0xffff_ffff, 0xffff_fffe]) } else { olders.iter().copied().max().unwrap() };
        inputs.push(TxIn { previous_output: OutPoint { txid: prev.compute_txid(), vout: vout as u32 }, script_sig: ScriptBuf::new(), sequence: Sequence(seq), witness: Witness::new() });
        prevouts.push(prev.output[vout].clone());
        prev_txs.push(prev);
    }
    // nVersion 1 disables BIP68: no relative lock can be claimed there
    let tx_version = match src.below(8) {
        0 => 1,
        1 => 3,
        _ => 2,
    };
    let tx = Transaction {
        version: transaction::Version(tx_version),
        lock_time: absolute::LockTime::from_consensus(lock_time),
        input: inputs,
        output: vec![TxOut { value: Amount::from_sat(40_000), script_pubkey: ScriptBuf::from_bytes(crate::mdesc::p2wpkh_spk(&[0xaa; 20])) }],
    };
    let mut psbt = Psbt::from_unsigned_tx(tx.clone()).map_err(|e| Failure { sig: "psbt".into(), msg: e.to_string() })?;
    let mut sats = Vec::new();
    let mut slots = Vec::new();
    for (i, d) in descs.iter().enumerate() {
        let segwit = !matches!(d, MDesc::Bare(_) | MDesc::Pkh(_) | MDesc::Sh(_));
        if segwit {
            psbt.inputs[i].witness_utxo = Some(prevouts[i].clone());
            if src.chance(1, 3) {
                psbt.inputs[i].non_witness_utxo = Some(prev_txs[i].clone());
            }
        } else {
            psbt.inputs[i].non_witness_utxo = Some(prev_txs[i].clone());
        }
        // everything the signers could contribute
        let mut w = World { keys: Default::default(), preimages: keys::u().preimages.iter().copied().collect(), lock_time, sequence: tx.input[i].sequence.0, tx_version };
        for k in d.all_keys() {
            if let Ok(kb) = key_bytes(&k, d.ctx()) {
                if let Some(x) = keys::xonly_of(&kb) {
                    w.keys.insert(x);
                }
            }
        }
        let t = TxCtx { tx: tx.clone(), idx: i, prevouts: prevouts.clone() };
        let sat = sign_real(d, &w, &t).map_err(|e| Failure { sig: "sign".into(), msg: e })?;
        let mut sl = Vec::new();
        let mut ek: Vec<&Vec<u8>> = sat.ecdsa.keys().collect();
        ek.sort();
        for k in ek {
            sl.push(Slot::Ecdsa(k.clone()));
        }
        if sat.tap_key.is_some() {
            sl.push(Slot::TapKey);
        }
        let mut tk: Vec<&([u8; 32], [u8; 32])> = sat.tap_leaf.keys().collect();
        tk.sort();
        for k in tk {
            sl.push(Slot::TapLeaf(k.0, k.1));
        }
        sats.push(sat);
        slots.push(sl);
    }
    Ok(Some(Setup { descs, libs, sats, slots, psbt, prevouts }))
}

fn is_final(p: &Psbt, i: usize) -> bool { p.inputs[i].final_script_sig.is_some() || p.inputs[i].final_script_witness.is_some() }

pub fn gen_ops(src: &mut Src, s: &Setup) -> Vec<Op> {
    let n = s.descs.len();
    let len = src.range(3, 14);
    let mut ops = Vec::new();
    // make useful histories likely: most start with updates
    for i in 0..n {
        if src.chance(5, 6) {
            ops.push(Op::Update(i));
        }
    }
    for _ in 0..len {
        let i = src.below(n);
        let op = match src.weighted(&[2, 10, 3, 1, 3, 2, 2, 1, 1]) {
            0 => Op::Update(i),
            1 => {
                if s.slots[i].is_empty() {
                    Op::AddPreimages(i)
                } else {
                    Op::AddSig(i, src.below(s.slots[i].len()))
                }
            }
            2 => Op::AddPreimages(i),
            3 => Op::AddNoise(i),
            4 => Op::Finalize,
            5 => Op::FinalizeMall,
            6 => Op::FinalizeInp(i),
            7 => Op::FinalizeInpMall(i),
            _ => Op::Extract,
        };
        ops.push(op);
    }
    ops.push(Op::Finalize);
    ops.push(Op::Extract);
    ops
}

pub fn apply_add(p: &mut Psbt, s: &Setup, op: &Op) -> Result<(), Failure> {
    match op {
        Op::Update(i) => {
            if is_final(p, *i) {
                return Ok(());
            }
            let before = p.inputs[*i].clone();
            check_plan_update(p, s, *i)?;
            match guard("update_input_with_descriptor", || p.update_input_with_descriptor(*i, &s.libs[*i]))? {
                Ok(()) => {
                    check_update(p, s, *i)?;
                    check_sighash(p, s, *i)?;
                }
                Err(e) => {
                    if p.inputs[*i] != before {
                        return fail("update-failed-but-mutated", format!("update_input_with_descriptor failed ({}) but changed the input", e));
                    }
                    return fail(&format!("update-fails/{}", s.descs[*i].kind()), format!("update_input_with_descriptor failed on a matching descriptor: {}", e));
                }
            }
        }
        Op::AddSig(i, k) => {
            if is_final(p, *i) {
                return Ok(());
            }
            match &s.slots[*i][*k] {
                Slot::Ecdsa(kb) => {
                    let pk = bitcoin::PublicKey::from_slice(kb).map_err(|e| Failure { sig: "key".into(), msg: e.to_string() })?;
                    p.inputs[*i].partial_sigs.insert(pk, s.sats[*i].ecdsa[kb]);
                }
                Slot::TapKey => p.inputs[*i].tap_key_sig = s.sats[*i].tap_key,
                Slot::TapLeaf(x, lh) => {
                    let xo = bitcoin::key::XOnlyPublicKey::from_slice(x).map_err(|e| Failure { sig: "key".into(), msg: e.to_string() })?;
                    p.inputs[*i].tap_script_sigs.insert((xo, TapLeafHash::from_byte_array(*lh)), s.sats[*i].tap_leaf[&(*x, *lh)]);
                }
            }
        }
        Op::AddPreimages(i) => {
            if is_final(p, *i) {
                return Ok(());
            }
            for pre in keys::u().preimages.iter() {
                use bitcoin::hashes::{hash160, ripemd160, sha256, sha256d};
                p.inputs[*i].sha256_preimages.insert(sha256::Hash::hash(pre), pre.to_vec());
                p.inputs[*i].hash256_preimages.insert(sha256d::Hash::hash(pre), pre.to_vec());
                p.inputs[*i].ripemd160_preimages.insert(ripemd160::Hash::hash(pre), pre.to_vec());
                p.inputs[*i].hash160_preimages.insert(hash160::Hash::hash(pre), pre.to_vec());
            }
        }
        Op::AddNoise(i) => {
            if is_final(p, *i) {
                return Ok(());
            }
            p.inputs[*i].unknown.insert(bitcoin::psbt::raw::Key { type_value: 0xf0, key: vec![1, 2, 3] }, vec![4, 5, 6]);
        }
        _ => {}
    }
    Ok(())
}

/// (m) the other updater: descriptor -> into_plan -> Plan::update_psbt_input.  Worked on a copy
/// of the PSBT: the scripts it records are the descriptor's, and with every signature and
/// preimage added the plan completes from the PSBT into a valid spend.
fn check_plan_update(p: &Psbt, s: &Setup, i: usize) -> Result<(), Failure> {
    check_plan_update_with(p, s, i, false)?;
    if let MDesc::Tr(_, Some(_)) = &s.descs[i] {
        // without the key-path signature the plan has to go through a leaf
        check_plan_update_with(p, s, i, true)?;
    }
    Ok(())
}

fn check_plan_update_with(p: &Psbt, s: &Setup, i: usize, no_key_path: bool) -> Result<(), Failure> {
    let d = &s.descs[i];
    let kind = d.kind();
    let mut assets = s.sats[i].clone();
    if no_key_path {
        assets.tap_key = None;
    }
    let plan = match guard("into_plan", || s.libs[i].clone().into_plan(&assets))? {
        Ok(pl) => pl,
        Err(_) => return Ok(()),
    };
    let mut q = p.clone();
    guard("update_psbt_input", || plan.update_psbt_input(&mut q.inputs[i]))?;
    let sc = d.scripts().map_err(|e| Failure { sig: "mirror-encode".into(), msg: e })?;
    {
        let inp = &q.inputs[i];
        let want_redeem = match d {
            MDesc::Sh(_) | MDesc::ShWpkh(_) | MDesc::ShWsh(_) => sc.redeem.clone(),
            _ => None,
        };
        if inp.redeem_script.as_ref().map(|x| x.as_bytes().to_vec()) != want_redeem {
            return fail(&format!("plan-update-redeem-script/{}", kind), format!("Plan::update_psbt_input records redeem script {:?}, the descriptor's is {:?}", inp.redeem_script.as_ref().map(|x| x.to_hex_string()), want_redeem.as_ref().map(|x| keys::hex(x))));
        }
        let want_ws = match d {
            MDesc::Wsh(_) | MDesc::ShWsh(_) => sc.witness_script.clone(),
            _ => None,
        };
        if inp.witness_script.as_ref().map(|x| x.as_bytes().to_vec()) != want_ws {
            return fail(&format!("plan-update-witness-script/{}", kind), "Plan::update_psbt_input records a witness script that is not the descriptor's".to_string());
        }
        if let MDesc::Tr(..) = d {
            let spk = &s.prevouts[i].script_pubkey;
            let mut qk = [0u8; 32];
            if spk.len() == 34 {
                qk.copy_from_slice(&spk.as_bytes()[2..]);
            }
            for (cb, (script, ver)) in inp.tap_scripts.iter() {
                let lh = crate::bip341::tapleaf_hash(ver.to_consensus(), script.as_bytes());
                if !crate::bip341::verify_commitment(&cb.serialize(), &qk, &lh) {
                    return fail("plan-update-control-block", "Plan::update_psbt_input records a control block that does not prove its script against the spent output".to_string());
                }
            }
        }
    }
    // everything the signers can add, then finalize this input
    for k in 0..s.slots[i].len() {
        if no_key_path && matches!(s.slots[i][k], Slot::TapKey) {
            continue;
        }
        apply_add(&mut q, s, &Op::AddSig(i, k))?;
    }
    apply_add(&mut q, s, &Op::AddPreimages(i))?;
    // the plan completed from the PSBT's own contents spends the output ...
    let done = guard("Plan::satisfy", || plan.satisfy(&miniscript::psbt::PsbtInputSatisfier::new(&q, i)))?;
    match done {
        Ok((wit, ssig)) => {
            let mut f = q.clone();
            f.inputs[i].final_script_sig = if ssig.is_empty() { None } else { Some(ssig) };
            f.inputs[i].final_script_witness = if wit.is_empty() { None } else { Some(bitcoin::Witness::from_slice(&wit)) };
            if let Err(e) = check_final_valid(&f, s, i) {
                return fail(&format!("plan-updated-input-invalid/{}", kind), e.msg);
            }
        }
        Err(e) => {
            return fail(&format!("plan-not-completable-from-psbt/{}", kind), format!("input {} ({}): the plan made with these signatures / preimages cannot be completed from the PSBT that holds all of them: {:?}", i, d.print(true), e));
        }
    }
    // ... and if the PSBT finalizer accepts the plan-updated input (it need not: the plan records
    // only what signers need), the result is valid too
    // When every key the plan pushes is one that also signs, the signers' data (signatures,
    // origins recorded for signing keys) names every key the finalizer needs: it must succeed too.
    let all_pushed_keys_sign = {
        use miniscript::miniscript::satisfy::Placeholder;
        use miniscript::ToPublicKey;
        let t = plan.witness_template();
        let signing: Vec<Vec<u8>> = t
            .iter()
            .filter_map(|p| match p {
                Placeholder::EcdsaSigPk(pk) => Some(pk.to_public_key().to_bytes()),
                Placeholder::SchnorrSigPk(pk, _, _) => Some(pk.to_x_only_pubkey().serialize().to_vec()),
                _ => None,
            })
            .collect();
        t.iter().all(|p| match p {
            Placeholder::Pubkey(pk, _) => signing.contains(&pk.to_public_key().to_bytes()) || signing.contains(&pk.to_x_only_pubkey().serialize().to_vec()),
            Placeholder::PubkeyHash(..) | Placeholder::EcdsaSigPkHash(..) | Placeholder::SchnorrSigPkHash(..) => false,
            _ => true,
        })
    };
    let secp = Secp256k1::verification_only();
    match guard("finalize_inp", || q.finalize_inp_mut(&secp, i))? {
        Ok(()) => check_final_valid(&q, s, i),
        Err(e) if all_pushed_keys_sign => fail(
            &format!("plan-updated-input-does-not-finalize/{}", kind),
            format!("input {} ({}): updated through into_plan + Plan::update_psbt_input, every signature and preimage added, every key the plan pushes also signs -- the plan completes from the PSBT but finalize_inp_mut fails: {:?}", i, d.print(true), e),
        ),
        Err(_) => Ok(()),
    }
}

/// (h) what an update must have recorded
fn check_update(p: &Psbt, s: &Setup, i: usize) -> Result<(), Failure> {
    let d = &s.descs[i];
    let sc = d.scripts().map_err(|e| Failure { sig: "mirror-encode".into(), msg: e })?;
    let inp = &p.inputs[i];
    let kind = d.kind();
    match d {
        MDesc::Sh(_) | MDesc::ShWpkh(_) | MDesc::ShWsh(_) => {
            if inp.redeem_script.as_ref().map(|x| x.as_bytes().to_vec()) != sc.redeem {
                return fail(&format!("update-redeem-script/{}", kind), format!("recorded redeem script {:?} is not the descriptor's", inp.redeem_script));
            }
        }
        _ => {
            if inp.redeem_script.is_some() {
                return fail(&format!("update-redeem-script/{}", kind), "redeem script recorded for a non-p2sh output".to_string());
            }
        }
    }
    match d {
        MDesc::Wsh(_) | MDesc::ShWsh(_) => {
            if inp.witness_script.as_ref().map(|x| x.as_bytes().to_vec()) != sc.witness_script {
                return fail(&format!("update-witness-script/{}", kind), "recorded witness script is not the descriptor's".to_string());
            }
        }
        _ => {
            if inp.witness_script.is_some() {
                return fail(&format!("update-witness-script/{}", kind), "witness script recorded for a non-p2wsh output".to_string());
            }
        }
    }
    // key origins: every entry must re-derive with own BIP32
    let check_origin = |pk33: Vec<u8>, fp: [u8; 4], path: Vec<u32>| -> Result<(), Failure> {
        // find the key text with that derived key
        for k in d.all_keys() {
            if let Ok(kb) = keys::resolve(&k) {
                if keys::xonly_of(&kb) == keys::xonly_of(&pk33) {
                    // expected full path = origin path ++ derivation steps
                    let mut want: Vec<u32> = Vec::new();
                    let mut want_fp: Option<[u8; 4]> = None;
                    let mut rest = k.as_str();
                    if rest.starts_with('[') {
                        let e = rest.find(']').unwrap();
                        let o = &rest[1..e];
                        let mut it = o.split('/');
                        let f = keys::unhex(it.next().unwrap_or("")).unwrap_or_default();
                        if f.len() == 4 {
                            want_fp = Some([f[0], f[1], f[2], f[3]]);
                        }
                        for st in it {
                            let hard = st.ends_with('\'') || st.ends_with('h');
                            let n: u32 = st.trim_end_matches(|c| c == '\'' || c == 'h').parse().unwrap_or(0);
                            want.push(if hard { n | 0x8000_0000 } else { n });
                        }
                        rest = &rest[e + 1..];
                    }
                    let mut parts = rest.split('/');
                    let xp = parts.next().unwrap_or("");
                    for st in parts {
                        want.push(st.parse().unwrap_or(0));
                    }
                    if want_fp.is_none() {
                        if let Some(x) = crate::bip32::XPub::decode(xp) {
                            want_fp = Some(x.fingerprint());
                        } else if keys::unhex(xp).is_ok() {
                            // a single key without origin is its own master; which bytes are
                            // fingerprinted is a library convention, only the empty path is checked
                            if path.is_empty() && want.is_empty() {
                                return Ok(());
                            }
                        }
                    }
                    if Some(fp) == want_fp && path == want {
                        return Ok(());
                    }
                }
            }
        }
        fail(&format!("update-key-origin/{}", kind), format!("recorded key origin ({}, {:?}) for key {} does not correspond to any descriptor key", keys::hex(&fp), path, keys::hex(&pk33)))
    };
    for (pk, (fp, path)) in &inp.bip32_derivation {
        let p: Vec<u32> = path.into_iter().map(|c| u32::from(*c)).collect();
        check_origin(pk.serialize().to_vec(), fp.to_bytes(), p)?;
    }
    for (xo, (leaves, (fp, path))) in &inp.tap_key_origins {
        let p: Vec<u32> = path.into_iter().map(|c| u32::from(*c)).collect();
        let mut k33 = vec![2u8];
        k33.extend_from_slice(&xo.serialize());
        check_origin(k33, fp.to_bytes(), p)?;
        // leaf hashes: exactly the leaves that contain the key
        if let MDesc::Tr(_, tree) = d {
            let mut want: Vec<[u8; 32]> = Vec::new();
            if let Some(t) = tree {
                for (_, n) in t.leaves() {
                    let script = crate::mirror::encode::encode(n, Ctx::Tap).map_err(|e| Failure { sig: "mirror-encode".into(), msg: e })?;
                    let lh = bip341::tapleaf_hash(0xc0, &script);
                    for k in n.keys() {
                        if let Ok(kb) = key_bytes(&k, Ctx::Tap) {
                            if kb[..] == xo.serialize()[..] && !want.contains(&lh) {
                                want.push(lh);
                            }
                        }
                    }
                }
            }
            want.sort();
            let mut got: Vec<[u8; 32]> = leaves.iter().map(|l| l.to_byte_array()).collect();
            got.sort();
            if got != want {
                return fail("update-tap-key-origin-leaves", format!("leaf hashes recorded for key {} are {:?}, expected {:?}", xo, got.len(), want.len()));
            }
        }
    }
    if let MDesc::Tr(ik, tree) = d {
        let ikb = key_bytes(ik, Ctx::Tap).map_err(|e| Failure { sig: "key".into(), msg: e })?;
        if inp.tap_internal_key.map(|k| k.serialize().to_vec()) != Some(ikb.clone()) {
            return fail("update-tap-internal-key", "tap_internal_key is not the descriptor's internal key".to_string());
        }
        let mut ik32 = [0u8; 32];
        ik32.copy_from_slice(&ikb);
        match tree {
            Some(t) => {
                let model = t.to_model().map_err(|e| Failure { sig: "mirror-encode".into(), msg: e })?;
                let root = model.root();
                if inp.tap_merkle_root.map(|r| r.to_byte_array()) != Some(root) {
                    return fail("update-tap-merkle-root", "tap_merkle_root differs from own BIP341 root".to_string());
                }
                let (q, parity) = bip341::output_key(&ik32, Some(&root)).ok_or(Failure { sig: "tweak".into(), msg: "tweak".into() })?;
                let mut want: Vec<(Vec<u8>, Vec<u8>)> = Vec::new();
                for (_, script, path) in model.leaves() {
                    let mut cb = vec![0xc0 | parity];
                    cb.extend_from_slice(&ik32);
                    for pth in &path {
                        cb.extend_from_slice(pth);
                    }
                    if !want.contains(&(cb.clone(), script.clone())) {
                        want.push((cb, script));
                    }
                }
                want.sort();
                let mut got: Vec<(Vec<u8>, Vec<u8>)> = inp.tap_scripts.iter().map(|(cb, (s2, _))| (cb.serialize(), s2.as_bytes().to_vec())).collect();
                got.sort();
                if got != want {
                    return fail("update-tap-scripts", format!("tap_scripts has {} entries, expected {} (control block, script) pairs of the tree", got.len(), want.len()));
                }
                let _ = q;
            }
            None => {
                if inp.tap_merkle_root.is_some() || !inp.tap_scripts.is_empty() {
                    return fail("update-tap-scripts", "script tree data recorded for a key-only taproot output".to_string());
                }
            }
        }
    }
    Ok(())
}

fn check_final_valid(p: &Psbt, s: &Setup, i: usize) -> Result<(), Failure> {
    let mut tx = p.unsigned_tx.clone();
    if let Some(ss) = &p.inputs[i].final_script_sig {
        tx.input[i].script_sig = ss.clone();
    }
    if let Some(w) = &p.inputs[i].final_script_witness {
        tx.input[i].witness = w.clone();
    }
    let secp = Secp256k1::verification_only();
    match verify_input(&tx, i, &s.prevouts, &Flags::STANDARD, &secp) {
        Ok(_) => Ok(()),
        Err(e) => fail(
            &format!("finalized-input-invalid/{}/{}", s.descs[i].kind(), crate::checks::c01::err_kind(&e)),
            format!("input {} ({}) was finalized with scriptSig {:?} / witness {:?} which does not validate: {:?}", i, s.descs[i].print(true), p.inputs[i].final_script_sig, p.inputs[i].final_script_witness, e),
        ),
    }
}

/// (j) sighash_msg gives the digest the input's signatures were made for (the signatures of the
/// setup were made with rust-bitcoin's SighashCache over own script codes / leaf hashes).
fn check_sighash(p: &Psbt, s: &Setup, i: usize) -> Result<(), Failure> {
    let secp = Secp256k1::verification_only();
    let mut cache = bitcoin::sighash::SighashCache::new(&p.unsigned_tx);
    let kind = s.descs[i].kind();
    for (kb, sig) in &s.sats[i].ecdsa {
        let msg = match guard("sighash_msg", || p.sighash_msg(i, &mut cache, None))? {
            Ok(m) => m.to_secp_msg(),
            Err(e) => return fail(&format!("sighash-msg-fails/{}", kind), format!("sighash_msg({}) fails on an updated input: {}", i, e)),
        };
        let pk = secp256k1::PublicKey::from_slice(kb).map_err(|e| Failure { sig: "key".into(), msg: e.to_string() })?;
        if secp.verify_ecdsa(&msg, &sig.signature, &pk).is_err() {
            return fail(&format!("sighash-msg-differs/{}", kind), format!("the ECDSA signature made for input {} ({}) does not verify against sighash_msg()", i, s.descs[i].print(true)));
        }
    }
    if let Some(sig) = &s.sats[i].tap_key {
        let msg = match guard("sighash_msg", || p.sighash_msg(i, &mut cache, None))? {
            Ok(m) => m.to_secp_msg(),
            Err(e) => return fail(&format!("sighash-msg-fails/{}", kind), format!("sighash_msg({}, key path) fails: {}", i, e)),
        };
        let spk = &s.prevouts[i].script_pubkey;
        if spk.len() == 34 {
            if let Ok(ok) = secp256k1::XOnlyPublicKey::from_slice(&spk.as_bytes()[2..34]) {
                if secp.verify_schnorr(&sig.signature, &msg, &ok).is_err() {
                    return fail(&format!("sighash-msg-differs/{}/key-path", kind), format!("the key-path signature of input {} does not verify against sighash_msg(None)", i));
                }
            }
        }
    }
    for ((x, lh), sig) in &s.sats[i].tap_leaf {
        let msg = match guard("sighash_msg", || p.sighash_msg(i, &mut cache, Some(TapLeafHash::from_byte_array(*lh))))? {
            Ok(m) => m.to_secp_msg(),
            Err(e) => return fail(&format!("sighash-msg-fails/{}", kind), format!("sighash_msg({}, leaf) fails: {}", i, e)),
        };
        if let Ok(xo) = secp256k1::XOnlyPublicKey::from_slice(x) {
            if secp.verify_schnorr(&sig.signature, &msg, &xo).is_err() {
                return fail(&format!("sighash-msg-differs/{}/leaf", kind), format!("a leaf signature of input {} does not verify against sighash_msg(Some(leaf))", i));
            }
        }
    }
    Ok(())
}

/// (k) an input whose witness_utxo and non_witness_utxo disagree on the amount is refused by the updater untouched; update_output_with_descriptor records the descriptor's scripts and taproot data, and
/// refuses (leaving the output untouched) when the output does not pay to the descriptor.
fn check_output_update(s: &Setup, j: usize) -> Result<(), Failure> {
    let d = &s.descs[j];
    let lib = &s.libs[j];
    let kind = d.kind();
    let sc = d.scripts().map_err(|e| Failure { sig: "mirror-encode".into(), msg: e })?;
    let mut p = s.psbt.clone();
    let before = p.outputs[0].clone();
    if guard("update_output_with_descriptor", || p.update_output_with_descriptor(0, lib))?.is_ok() {
        return fail(&format!("output-update-wrong-spk/{}", kind), "update_output_with_descriptor succeeded although the output pays elsewhere".to_string());
    }
    if p.outputs[0] != before {
        return fail("output-update-failed-but-mutated", "a refused output update changed the output".to_string());
    }
    p.unsigned_tx.output[0].script_pubkey = ScriptBuf::from_bytes(sc.spk.clone());
    if let Err(e) = guard("update_output_with_descriptor", || p.update_output_with_descriptor(0, lib))? {
        return fail(&format!("output-update-fails/{}", kind), format!("update_output_with_descriptor fails on the descriptor's own scriptPubKey: {}", e));
    }
    let o = &p.outputs[0];
    let want_redeem = if matches!(d, MDesc::Sh(_) | MDesc::ShWpkh(_) | MDesc::ShWsh(_)) { sc.redeem.clone() } else { None };
    if o.redeem_script.as_ref().map(|x| x.as_bytes().to_vec()) != want_redeem {
        return fail(&format!("output-update-redeem-script/{}", kind), format!("output redeem script {:?}", o.redeem_script));
    }
    let want_ws = if matches!(d, MDesc::Wsh(_) | MDesc::ShWsh(_)) { sc.witness_script.clone() } else { None };
    if o.witness_script.as_ref().map(|x| x.as_bytes().to_vec()) != want_ws {
        return fail(&format!("output-update-witness-script/{}", kind), format!("output witness script {:?}", o.witness_script));
    }
    if let MDesc::Tr(ik, tree) = d {
        let ikb = key_bytes(ik, Ctx::Tap).map_err(|e| Failure { sig: "key".into(), msg: e })?;
        if o.tap_internal_key.map(|k| k.serialize().to_vec()) != Some(ikb) {
            return fail("output-update-internal-key", "output tap_internal_key is not the descriptor's".to_string());
        }
        match (tree, &o.tap_tree) {
            (None, None) => {}
            (Some(t), Some(tt)) => {
                let model = t.to_model().map_err(|e| Failure { sig: "mirror-encode".into(), msg: e })?;
                let mut want: Vec<(usize, Vec<u8>)> = model.leaves().into_iter().map(|(dp, sc2, _)| (dp, sc2)).collect();
                let mut got: Vec<(usize, Vec<u8>)> = tt.script_leaves().map(|l| (l.merkle_branch().len(), l.script().as_bytes().to_vec())).collect();
                want.sort();
                got.sort();
                if want != got {
                    return fail("output-update-tap-tree", format!("output tap_tree has leaves {:?}, the descriptor {:?}", got.iter().map(|x| x.0).collect::<Vec<_>>(), want.iter().map(|x| x.0).collect::<Vec<_>>()));
                }
            }
            (Some(_), None) => return fail("output-update-tap-tree", "the descriptor has a script tree, the updated output has no tap_tree".to_string()),
            (None, Some(_)) => return fail("output-update-tap-tree", "tap_tree recorded for a key-only descriptor".to_string()),
        }
    } else if o.tap_internal_key.is_some() || o.tap_tree.is_some() {
        return fail("output-update-taproot-fields", "taproot fields recorded for a non-taproot output".to_string());
    }
    Ok(())
}

/// (l) an input that carries both utxo forms must have them agree (script AND amount: the
/// segwit digest commits to the amount) before the updater records anything.
fn check_inconsistent_utxos(s: &Setup, i: usize) -> Result<(), Failure> {
    let segwit = !matches!(s.descs[i], MDesc::Bare(_) | MDesc::Pkh(_) | MDesc::Sh(_));
    if !segwit {
        return Ok(());
    }
    let mut p = s.psbt.clone();
    let vout = p.unsigned_tx.input[i].previous_output.vout as usize;
    // find the previous transaction: setups with only witness_utxo get it attached here
    let prev = match &p.inputs[i].non_witness_utxo {
        Some(t) => t.clone(),
        None => return Ok(()),
    };
    if prev.output.len() <= vout {
        return Ok(());
    }
    let mut wrong = prev.output[vout].clone();
    wrong.value = Amount::from_sat(wrong.value.to_sat() / 2 + 1);
    p.inputs[i].witness_utxo = Some(wrong);
    let before = p.inputs[i].clone();
    if guard("update_input_with_descriptor", || p.update_input_with_descriptor(i, &s.libs[i]))?.is_ok() {
        return fail(&format!("update-accepts-inconsistent-utxos/{}", s.descs[i].kind()), format!("input {}: witness_utxo states another amount than the previous transaction's output, update_input_with_descriptor accepts", i));
    }
    if p.inputs[i] != before {
        return fail("update-failed-but-mutated", "a refused update (inconsistent utxos) changed the input".to_string());
    }
    Ok(())
}

/// The satisfier that holds exactly what input `i` of the PSBT carries (signatures, preimages),
/// in the PSBT's transaction (locks, version).
fn direct_sat(s: &Setup, before: &Psbt, i: usize) -> WorldSat {
    let mut ds = s.sats[i].clone();
    let inp = &before.inputs[i];
    ds.ecdsa.retain(|kb, _| bitcoin::PublicKey::from_slice(kb).map(|pk| inp.partial_sigs.contains_key(&pk)).unwrap_or(false));
    if inp.tap_key_sig.is_none() {
        ds.tap_key = None;
    }
    ds.tap_leaf.retain(|(x, lh), _| match bitcoin::key::XOnlyPublicKey::from_slice(x) {
        Ok(xo) => inp.tap_script_sigs.contains_key(&(xo, TapLeafHash::from_byte_array(*lh))),
        Err(_) => false,
    });
    if inp.sha256_preimages.is_empty() {
        ds.preimages.clear();
    }
    ds
}

/// (i) the finalizer and the descriptor's own satisfier, given the same material, agree: on
/// whether the input can be spent (when the input carries the descriptor's scripts and key
/// origins) and on the witness (per mode; for taproot: the stack of the leaf that was used).
fn check_agreement(s: &Setup, before: &Psbt, p: &Psbt, i: usize, mall: bool, updated: bool) -> Result<(), Failure> {
    let ds = direct_sat(s, before, i);
    let direct = guard("get_satisfaction", || if mall { s.libs[i].get_satisfaction_mall(&ds) } else { s.libs[i].get_satisfaction(&ds) })?;
    let now = is_final(p, i);
    let kind = s.descs[i].kind();
    let mode = if mall { "mall" } else { "nonmall" };
    match (now, &direct) {
        (true, Err(e)) => fail(&format!("finalize-succeeds-where-satisfier-fails/{}/{}", kind, mode), format!("input {} ({}) was finalized although the descriptor's satisfier with the same signatures / preimages / locks fails: {}", i, s.descs[i].print(true), e)),
        (false, Ok(_)) if updated => fail(&format!("finalize-fails-where-satisfier-succeeds/{}/{}", kind, mode), format!("input {} ({}) carries its scripts and key origins, the descriptor's satisfier succeeds with the same signatures / preimages / locks (nVersion {}), the finalizer does not", i, s.descs[i].print(true), p.unsigned_tx.version.0)),
        (true, Ok((wit, ss))) => {
            let fw: Vec<Vec<u8>> = p.inputs[i].final_script_witness.as_ref().map(|w| w.iter().map(|e| e.to_vec()).collect()).unwrap_or_default();
            let fs = p.inputs[i].final_script_sig.clone().unwrap_or_default();
            if &fw == wit && &fs == ss {
                return Ok(());
            }
            if let (MDesc::Tr(..), miniscript::Descriptor::Tr(tr)) = (&s.descs[i], &s.libs[i]) {
                // the finalizer may prefer another leaf of equal weight: compare the stack of the
                // leaf it used with that leaf's own satisfaction in the same mode
                if fw.len() >= 2 && fs.is_empty() {
                    let script = &fw[fw.len() - 2];
                    for leaf in tr.leaves() {
                        let ms = leaf.miniscript();
                        if ms.encode().as_bytes() == &script[..] {
                            let st = guard("leaf satisfy", || if mall { ms.satisfy_malleable(&ds) } else { ms.satisfy(&ds) })?;
                            match st {
                                Ok(st) if st[..] == fw[..fw.len() - 2] => return Ok(()),
                                _ => {}
                            }
                        }
                    }
                }
                if fw.len() == 1 && wit.len() == 1 && fw == *wit {
                    return Ok(());
                }
            }
            fail(
                &format!("finalize-differs-from-satisfier/{}/{}", kind, mode),
                format!("input {} ({}): finalize{} gives witness {:?} / scriptSig {} but the descriptor's satisfier gives {:?} / {}", i, s.descs[i].print(true), if mall { "_mall" } else { "" }, fw.iter().map(|x| keys::hex(x)).collect::<Vec<_>>(), fs.to_hex_string(), wit.iter().map(|x| keys::hex(x)).collect::<Vec<_>>(), ss.to_hex_string()),
            )
        }
        _ => Ok(()),
    }
}

/// Run a history, checking the invariants after every step.
fn run(s: &Setup, ops: &[Op], rep: &mut Report, classes: bool) -> Result<Psbt, Failure> {
    let secp = Secp256k1::verification_only();
    let mut p = s.psbt.clone();
    let n = s.descs.len();
    let mut failed_then_succeeded = vec![false; n];
    let mut had_failure = vec![false; n];
    let mut updated = vec![false; n];
    for op in ops {
        let before = p.clone();
        if op.is_add() {
            if let Op::Update(i) = op {
                if !is_final(&p, *i) {
                    updated[*i] = true;
                }
            }
            apply_add(&mut p, s, op)?;
            continue;
        }
        match op {
            Op::Finalize | Op::FinalizeMall => {
                let mall = *op == Op::FinalizeMall;
                let r = guard("finalize", || if mall { p.finalize_mall_mut(&secp) } else { p.finalize_mut(&secp) })?;
                // (h) the result tells whether every input is final now (inputs that were final
                // before are skipped, not errors)
                let all_final = (0..n).all(|j| is_final(&p, j));
                if r.is_ok() != all_final {
                    return fail(
                        &format!("finalize-result-inconsistent/{}", if r.is_ok() { "ok-but-not-final" } else { "err-but-all-final" }),
                        format!("finalize{}_mut returned {:?} while the inputs' final state is {:?}", if mall { "_mall" } else { "" }, r.as_ref().map_err(|e| e.iter().map(|x| x.to_string()).collect::<Vec<_>>()), (0..n).map(|j| is_final(&p, j)).collect::<Vec<_>>()),
                    );
                }
                // (d) idempotent
                let mut again = p.clone();
                let _ = guard("finalize", || if mall { again.finalize_mall_mut(&secp) } else { again.finalize_mut(&secp) })?;
                if again != p {
                    return fail("finalize-not-idempotent", "a second finalize call changed the PSBT".to_string());
                }
            }
            Op::FinalizeInp(i) | Op::FinalizeInpMall(i) => {
                let mall = matches!(op, Op::FinalizeInpMall(_));
                // (g) agreement with the all-inputs variant
                let mut all = before.clone();
                let _ = guard("finalize", || if mall { all.finalize_mall_mut(&secp) } else { all.finalize_mut(&secp) })?;
                let r = guard("finalize_inp", || if mall { p.finalize_inp_mall_mut(&secp, *i) } else { p.finalize_inp_mut(&secp, *i) })?;
                if p.inputs[*i] != all.inputs[*i] {
                    return fail(
                        &format!("finalize-inp-disagrees/{}", if mall { "mall" } else { "nonmall" }),
                        format!("finalize_inp{}_mut({}) -> {:?} leaves input {} different from what finalize{}_mut produces (final: {} vs {})", if mall { "_mall" } else { "" }, i, r.is_ok(), i, if mall { "_mall" } else { "" }, is_final(&p, *i), is_final(&all, *i)),
                    );
                }
                if r.is_ok() != is_final(&p, *i) {
                    return fail(
                        &format!("finalize-result-inconsistent/inp/{}", if r.is_ok() { "ok-but-not-final" } else { "err-but-final" }),
                        format!("finalize_inp{}_mut({}) returned {:?} while the input's final state is {}", if mall { "_mall" } else { "" }, i, r.as_ref().map_err(|e| e.to_string()), is_final(&p, *i)),
                    );
                }
                for j in 0..n {
                    if j != *i && p.inputs[j] != before.inputs[j] {
                        return fail("finalize-inp-touches-others", format!("finalize_inp_mut({}) changed input {}", i, j));
                    }
                }
            }
            Op::Extract => {
                let r = guard("extract", || p.extract(&secp))?;
                if p != before {
                    return fail("extract-mutates", "extract changed the PSBT".to_string());
                }
                match r {
                    Ok(tx) => {
                        for i in 0..n {
                            if !is_final(&p, i) {
                                return fail("extract-nonfinal", format!("extract succeeded although input {} is not final", i));
                            }
                            check_final_valid(&p, s, i)?;
                            let want_ss = p.inputs[i].final_script_sig.clone().unwrap_or_default();
                            let want_w = p.inputs[i].final_script_witness.clone().unwrap_or_default();
                            if tx.input[i].script_sig != want_ss || tx.input[i].witness != want_w {
                                return fail("extract-differs", format!("extracted input {} differs from the final fields", i));
                            }
                        }
                        let mut stripped = tx.clone();
                        for inp in stripped.input.iter_mut() {
                            inp.script_sig = ScriptBuf::new();
                            inp.witness = Witness::new();
                        }
                        if stripped != p.unsigned_tx {
                            return fail("extract-differs", "extracted transaction differs from the unsigned transaction".to_string());
                        }
                        if classes {
                            rep.class("extracted");
                        }
                    }
                    Err(_) => {}
                }
            }
            _ => {}
        }
        // (i) agreement with the descriptor's own satisfier
        for i in 0..n {
            let (targets, mall) = match op {
                Op::Finalize => (true, false),
                Op::FinalizeMall => (true, true),
                Op::FinalizeInp(j) => (*j == i, false),
                Op::FinalizeInpMall(j) => (*j == i, true),
                _ => (false, false),
            };
            if targets && !is_final(&before, i) {
                check_agreement(s, &before, &p, i, mall, updated[i])?;
            }
        }
        // invariants after a finalize-type op
        for i in 0..n {
            let was = is_final(&before, i);
            let now = is_final(&p, i);
            if was {
                // (b) final inputs never change
                if p.inputs[i] != before.inputs[i] {
                    return fail("final-input-altered", format!("{:?} changed the already-final input {}", op, i));
                }
            } else if now {
                // (a) newly final: valid, and the non-final fields are cleared
                check_final_valid(&p, s, i)?;
                let inp = &p.inputs[i];
                if !inp.partial_sigs.is_empty() || inp.redeem_script.is_some() || inp.witness_script.is_some() || !inp.bip32_derivation.is_empty() || inp.tap_key_sig.is_some() || !inp.tap_script_sigs.is_empty() || !inp.tap_scripts.is_empty() || !inp.tap_key_origins.is_empty() || inp.tap_internal_key.is_some() || inp.tap_merkle_root.is_some() || !inp.sha256_preimages.is_empty() {
                    return fail("final-input-not-cleared", format!("input {} is final but still carries signing data", i));
                }
                if inp.witness_utxo != before.inputs[i].witness_utxo || inp.non_witness_utxo != before.inputs[i].non_witness_utxo {
                    return fail("final-input-lost-utxo", format!("finalizing input {} changed its utxo fields", i));
                }
                if had_failure[i] {
                    failed_then_succeeded[i] = true;
                }
                if classes {
                    rep.class(format!("finalized-kind={}", s.descs[i].kind()));
                }
            } else {
                // (c) a failing finalize leaves the input untouched
                if p.inputs[i] != before.inputs[i] {
                    return fail("failed-finalize-mutates", format!("{:?} did not finalize input {} but changed it", op, i));
                }
                if matches!(op, Op::Finalize | Op::FinalizeMall) || matches!(op, Op::FinalizeInp(j) | Op::FinalizeInpMall(j) if *j == i) {
                    had_failure[i] = true;
                }
            }
        }
        if p.unsigned_tx != before.unsigned_tx || p.outputs != before.outputs {
            return fail("finalize-touches-tx", format!("{:?} changed the unsigned transaction or outputs", op));
        }
    }
    if classes && failed_then_succeeded.iter().any(|x| *x) {
        rep.class("failed-then-succeeded");
    }
    Ok(p)
}

impl Check for C14 {
    fn id(&self) -> &'static str { "C14" }
    fn rule(&self) -> String {
        "case = PSBT with 1-3 inputs, each spending an output of a random sane definite descriptor (hex and xpub keys with origins; witness_utxo / non_witness_utxo as the type requires), all signatures made for the actual unsigned transaction; history = up to 14 operations from {update_input_with_descriptor(i), add signature k of input i, add preimages(i), add unknown field(i), finalize_mut, finalize_mall_mut, finalize_inp_mut(i), finalize_inp_mall_mut(i), extract}; a twin history with the add-operations of every run shuffled. Invariants after every step: newly final inputs validate in the reference interpreter (standardness flags) inside the actual transaction and carry no signing data; final inputs never change; a finalize that does not finalize an input leaves it deep-equal; finalize twice == once; finalize(_mall)_mut returns Ok exactly when every input is final afterwards and finalize_inp(_mall)_mut(i) exactly when input i is (already-final inputs are skipped, never errors); finalize_inp(_mall)_mut(i) leaves input i exactly as finalize(_mall)_mut would; the finalizer agrees with the descriptor's own satisfier holding exactly the input's signatures / preimages in the same transaction: same verdict (for inputs that carry their scripts and key origins) and same witness per mode (for taproot: the stack of the leaf used equals that leaf's satisfaction in that mode); after update: sighash_msg(i, leaf?) is the digest the input's ECDSA / key-path / leaf signatures verify against; an input whose witness_utxo and non_witness_utxo disagree on the amount is refused by the updater untouched; update_output_with_descriptor records redeem / witness script, internal key and tap tree (leaf depths and scripts) of the descriptor and refuses an output that pays elsewhere without touching it; extract Ok => all inputs final and valid, transaction == unsigned tx + final fields, PSBT unchanged; the second updater (into_plan + Plan::update_psbt_input, on a copy) records the descriptor's redeem / witness script and control blocks that prove their leaf, and with all signatures and preimages added the plan completes from the PSBT into a valid spend (and so does the PSBT finalizer whenever it accepts that input); after update: redeem/witness scripts, key origins (own BIP32), tap internal key / merkle root / control blocks / per-key leaf hashes equal the independent model; twin histories end in byte-identical PSBTs. Non-trivial = histories with a failing finalize followed by a successful one for the same input, or >= 2 finalize calls, or a reordered twin; distinct by (descriptors, history).".into()
    }
    fn lanes(&self, tier: Tier) -> Vec<(&'static str, usize, usize)> {
        match tier {
            Tier::Quick => vec![("history", 30_000, 500)],
            Tier::Thorough => vec![("history", 600_000, 600)],
        }
    }
    fn run_case(&self, _lane: &str, src: &mut Src, rep: &mut Report) -> Result<(), Failure> {
        let s = match build(src)? {
            Some(s) => s,
            None => {
                rep.class("setup-rejected");
                return Ok(());
            }
        };
        check_output_update(&s, src.below(s.descs.len()))?;
        check_inconsistent_utxos(&s, src.below(s.descs.len()))?;
        let ops = gen_ops(src, &s);
        rep.desc = format!("{} | {:?}", s.descs.iter().map(|d| d.print(true)).collect::<Vec<_>>().join(" ; "), ops);
        let end = run(&s, &ops, rep, true)?;
        // twin: shuffle every maximal run of add-operations
        let mut twin: Vec<Op> = Vec::new();
        let mut run_buf: Vec<Op> = Vec::new();
        let mut changed = false;
        let flush = |buf: &mut Vec<Op>, out: &mut Vec<Op>, src: &mut Src, changed: &mut bool| {
            let orig = buf.clone();
            for i in (1..buf.len()).rev() {
                let j = src.below(i + 1);
                buf.swap(i, j);
            }
            if *buf != orig {
                *changed = true;
            }
            out.append(buf);
        };
        for op in &ops {
            if op.is_add() {
                run_buf.push(op.clone());
            } else {
                flush(&mut run_buf, &mut twin, src, &mut changed);
                twin.push(op.clone());
            }
        }
        flush(&mut run_buf, &mut twin, src, &mut changed);
        let mut dummy = Report::default();
        let end2 = run(&s, &twin, &mut dummy, false)?;
        if end.serialize() != end2.serialize() {
            return fail("order-dependent", format!("the same operations in another order end in a different PSBT; twin history: {:?}", twin));
        }
        let n_fin = ops.iter().filter(|o| !o.is_add() && **o != Op::Extract).count();
        if n_fin >= 2 || changed {
            rep.nontrivial_by(&rep.desc.clone());
        }
        Ok(())
    }
}
