//! C01 — every satisfaction the library returns actually spends the output.

use crate::gen::{self, Cfg, DescKind, KeyStyle};
use crate::glue::{self, Level};
use crate::mdesc::MDesc;
use crate::refscript::{verify_input, Flags, ScriptError};
use crate::runner::{fail, Check, Failure, Report, Src, Tier};
use crate::world::{make_tx_w, sign_real};
use bitcoin::{ScriptBuf, Witness};
use secp256k1::Secp256k1;

pub struct C01;

pub fn err_kind(e: &ScriptError) -> String {
    let s = format!("{:?}", e);
    s.split('(').next().unwrap_or("?").to_string()
}

pub const KIND_W: [u32; 9] = [8, 8, 5, 3, 2, 1, 1, 1, 1];

pub fn pick_kind(src: &mut Src) -> DescKind { gen::ALL_KINDS[src.weighted(&KIND_W)] }

pub fn has_structure(d: &MDesc) -> bool {
    d.nodes().iter().any(|n| n.n_leaves() >= 2)
        || d.nodes().iter().any(|n| {
            let mut f = false;
            n.walk(&mut |x| {
                use crate::mirror::ast::Node::*;
                if matches!(x, After(_) | Older(_) | Sha256(_) | Hash256(_) | Ripemd160(_) | Hash160(_) | Thresh(..) | Multi(..) | MultiA(..) | SortedMulti(..) | SortedMultiA(..)) {
                    f = true;
                }
            });
            f
        })
}

impl Check for C01 {
    fn id(&self) -> &'static str { "C01" }
    fn rule(&self) -> String {
        "case = (descriptor of a random output type built from a typed random miniscript, world = subset of its keys / preimages + nLockTime/nSequence around its locks, entry point in {get_satisfaction, get_satisfaction_mall, satisfy(txin), into_plan+Plan::satisfy, into_plan_mall+Plan::satisfy, get_satisfaction(_mall) with a PsbtInputSatisfier over a PSBT input that holds the same signatures and preimages}); real signatures over the real transaction; oracle = independent reference script interpreter with standardness flags. Non-trivial = the library returned a satisfaction AND the script has >= 2 leaves or a lock/hash/threshold/multisig; distinct by (descriptor text, world, entry).".into()
    }
    fn assumptions(&self) -> Vec<String> {
        vec![
            "rust-bitcoin SighashCache and libsecp256k1 are correct".into(),
            "refscript (own interpreter, self-tested on hand-built spends) implements consensus + standardness".into(),
            "tx version 2; honest satisfier answers check_older/check_after per BIP68/112/65 for the actual transaction".into(),
        ]
    }
    fn lanes(&self, tier: Tier) -> Vec<(&'static str, usize, usize)> {
        match tier {
            Tier::Quick => vec![("direct", 450_000, 400)],
            Tier::Thorough => vec![("direct", 9_000_000, 600)],
        }
    }
    fn extra(&self, _tier: Tier, _st: &mut crate::runner::Stats, _known: &dyn Fn(&str) -> bool, _threads: usize) -> Result<serde_json::Value, Failure> {
        match crate::selftest::check_oracle() {
            Ok(n) => Ok(serde_json::json!({"oracle_selftest_evaluations": n})),
            Err(e) => fail("oracle-selftest", e),
        }
    }
    fn run_case(&self, _lane: &str, src: &mut Src, rep: &mut Report) -> Result<(), Failure> {
        let kind = pick_kind(src);
        let insane = src.chance(1, 3);
        let size = src.range(1, 9);
        let d = gen::gen_desc(src, kind, &|ctx| {
            let mut c = if insane { Cfg::new(ctx, size) } else { Cfg::sane(ctx, size) };
            c.key_style = KeyStyle::Rich;
            c.allow_uncompressed = true;
            c
        });
        let sugar = src.bool();
        let text = d.print(sugar);
        let lib = if insane { glue::desc_via_ctor(&d, Level::Insane, sugar) } else { glue::desc_via_str(&d, sugar) };
        let lib = match lib {
            Ok(l) => l,
            Err(_) => {
                rep.class("rejected-by-library");
                rep.desc = format!("{} (rejected)", text);
                return Ok(());
            }
        };
        let world = gen::gen_world(src, &d);
        let n_inputs = src.range(1, 3);
        let idx = src.below(n_inputs);
        let entry = src.below(7);
        let entry_name = ["get_satisfaction", "get_satisfaction_mall", "satisfy_txin", "plan", "plan_mall", "psbt_satisfier", "psbt_satisfier_mall"][entry];
        rep.desc = format!("{} | {} | entry={} input {}/{}", text, world.describe(), entry_name, idx, n_inputs);
        let scripts = match d.scripts() {
            Ok(s) => s,
            Err(e) => return fail("mirror-encode", e),
        };
        let spk = lib.script_pubkey();
        if spk.as_bytes() != &scripts.spk[..] {
            return fail(
                &format!("spk-mismatch/{}", d.kind()),
                format!("library scriptPubKey {} differs from own encoding {}", spk.to_hex_string(), crate::keys::hex(&scripts.spk)),
            );
        }
        let mut t = make_tx_w(&scripts.spk, &world, n_inputs, idx);
        let sat = match sign_real(&d, &world, &t) {
            Ok(s) => s,
            Err(e) => return fail("sign", e),
        };
        let res: Result<(Vec<Vec<u8>>, ScriptBuf), String> = match entry {
            0 => lib.get_satisfaction(&sat).map_err(|e| e.to_string()),
            1 => lib.get_satisfaction_mall(&sat).map_err(|e| e.to_string()),
            2 => {
                let mut txin = t.tx.input[idx].clone();
                match lib.satisfy(&mut txin, &sat) {
                    Ok(()) => Ok((txin.witness.iter().map(|e| e.to_vec()).collect(), txin.script_sig.clone())),
                    Err(e) => Err(e.to_string()),
                }
            }
            5 | 6 => {
                // the same signatures and preimages held by a PSBT input, the PSBT as satisfier
                use bitcoin::hashes::{hash160, ripemd160, sha256, sha256d, Hash};
                let mut psbt = match bitcoin::Psbt::from_unsigned_tx(t.tx.clone()) {
                    Ok(p) => p,
                    Err(e) => return fail("psbt-from-tx", e.to_string()),
                };
                psbt.inputs[idx].witness_utxo = Some(t.prevouts[idx].clone());
                for (kb, sig) in sat.ecdsa.iter() {
                    if let Ok(pk) = bitcoin::PublicKey::from_slice(kb) {
                        psbt.inputs[idx].partial_sigs.insert(pk, *sig);
                    }
                }
                psbt.inputs[idx].tap_key_sig = sat.tap_key;
                for ((x, lh), sig) in sat.tap_leaf.iter() {
                    if let Ok(xo) = bitcoin::key::XOnlyPublicKey::from_slice(x) {
                        psbt.inputs[idx].tap_script_sigs.insert((xo, bitcoin::taproot::TapLeafHash::from_byte_array(*lh)), *sig);
                    }
                }
                for pre in sat.preimages.values() {
                    psbt.inputs[idx].sha256_preimages.insert(sha256::Hash::hash(pre), pre.to_vec());
                    psbt.inputs[idx].hash256_preimages.insert(sha256d::Hash::hash(pre), pre.to_vec());
                    psbt.inputs[idx].ripemd160_preimages.insert(ripemd160::Hash::hash(pre), pre.to_vec());
                    psbt.inputs[idx].hash160_preimages.insert(hash160::Hash::hash(pre), pre.to_vec());
                }
                let ps = miniscript::psbt::PsbtInputSatisfier::new(&psbt, idx);
                if entry == 5 {
                    lib.get_satisfaction(&ps).map_err(|e| e.to_string())
                } else {
                    lib.get_satisfaction_mall(&ps).map_err(|e| e.to_string())
                }
            }
            3 | _ => {
                let p = if entry == 3 { lib.clone().into_plan(&sat) } else { lib.clone().into_plan_mall(&sat) };
                match p {
                    Ok(plan) => plan.satisfy(&sat).map_err(|e| format!("plan.satisfy: {}", e)),
                    Err(_) => Err("no plan".into()),
                }
            }
        };
        rep.class(format!("kind={}", d.kind()));
        rep.class(format!("entry={}", entry_name));
        match res {
            Err(_) => {
                rep.class("library-no-satisfaction");
                Ok(())
            }
            Ok((wit, ss)) => {
                rep.class("library-satisfied");
                if wit.iter().any(|e| e.is_empty()) {
                    rep.class("witness-has-empty-element");
                }
                t.tx.input[idx].witness = Witness::from_slice(&wit);
                t.tx.input[idx].script_sig = ss;
                let secp = Secp256k1::verification_only();
                let flags = Flags::STANDARD;
                match verify_input(&t.tx, idx, &t.prevouts, &flags, &secp) {
                    Ok(tr) => {
                        if !tr.cltv_args.is_empty() || !tr.csv_args.is_empty() {
                            rep.class("time-lock-executed");
                        }
                        if has_structure(&d) {
                            rep.nontrivial_by(&(&text, world.describe(), entry));
                        }
                        Ok(())
                    }
                    Err(e) => fail(
                        &format!("{}/{}:{}", entry_name, d.kind(), err_kind(&e)),
                        format!(
                            "library returned a satisfaction that does not validate: {:?}; witness={:?} scriptSig={}",
                            e,
                            wit.iter().map(|w| crate::keys::hex(w)).collect::<Vec<_>>(),
                            t.tx.input[idx].script_sig.to_hex_string()
                        ),
                    ),
                }
            }
        }
    }
}
