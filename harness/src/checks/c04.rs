//! C04 — script encoding and decoding are inverse and canonical.

use crate::gen::{self, Cfg, KeyStyle};
use crate::keys;
use crate::mirror::ast::{self, b, Node};
use crate::mirror::encode::{encode, key_bytes, key_hash};
use crate::mirror::spec::Ctx;
use crate::refscript::{parse_script, Instr};
use crate::runner::{fail, Check, Failure, Report, Src, Tier};
use bitcoin::Script;
use miniscript::{BareCtx, Legacy, Miniscript, ScriptContext, Segwitv0, Tap};

pub struct C04;

/// Normal form modulo what the decoder cannot know: `pk_h` key, sortedness, `and_v`
/// association.
pub fn normalise(n: &Node, ctx: Ctx) -> Node {
    let mut cur = norm_pass(n, ctx);
    for _ in 0..64 {
        let nx = norm_pass(&cur, ctx);
        if nx == cur {
            break;
        }
        cur = nx;
    }
    cur
}

fn norm_pass(n: &Node, ctx: Ctx) -> Node {
    use Node::*;
    let nn = |x: &Node| b(norm_pass(x, ctx));
    match n {
        PkH(k) => match key_hash(k, ctx) {
            Ok(h) => RawPkH(keys::hex(&h)),
            Err(_) => n.clone(),
        },
        SortedMulti(k, ks) => {
            let mut v: Vec<(Vec<u8>, String)> = ks
                .iter()
                .map(|x| {
                    let kb = key_bytes(x, ctx).unwrap_or_default();
                    let sortkey = if kb.len() == 65 {
                        let mut c = vec![if kb[64] & 1 == 1 { 3u8 } else { 2u8 }];
                        c.extend_from_slice(&kb[1..33]);
                        c
                    } else {
                        kb
                    };
                    (sortkey, x.clone())
                })
                .collect();
            v.sort_by(|a, b| a.0.cmp(&b.0));
            Multi(*k, v.into_iter().map(|(_, x)| x).collect())
        }
        SortedMultiA(k, ks) => {
            let mut v: Vec<(Vec<u8>, String)> = ks.iter().map(|x| (key_bytes(x, ctx).unwrap_or_default(), x.clone())).collect();
            v.sort_by(|a, b| a.0.cmp(&b.0));
            MultiA(*k, v.into_iter().map(|(_, x)| x).collect())
        }
        AndV(..) => {
            // flatten the chain, rebuild right-associated
            let mut items: Vec<Node> = Vec::new();
            fn flat(n: &Node, ctx: Ctx, out: &mut Vec<Node>) {
                if let Node::AndV(x, y) = n {
                    flat(x, ctx, out);
                    flat(y, ctx, out);
                } else {
                    out.push(norm_pass(n, ctx));
                }
            }
            flat(n, ctx, &mut items);
            let mut acc = items.pop().unwrap();
            while let Some(x) = items.pop() {
                acc = AndV(b(x), b(acc));
            }
            acc
        }
        Alt(x) => Alt(nn(x)),
        Swap(x) => Swap(nn(x)),
        Check(x) => push_postfix(norm_pass(x, ctx), 'c'),
        DupIf(x) => DupIf(nn(x)),
        Verify(x) => push_postfix(norm_pass(x, ctx), 'v'),
        NonZero(x) => NonZero(nn(x)),
        ZeroNotEqual(x) => push_postfix(norm_pass(x, ctx), 'n'),
        // `and_v` is invisible in script: an `and_v(P,Q)` in first-child position of a fragment
        // whose encoding starts with that child is the same bytes as `and_v(P, F(Q, ..))`.
        AndB(x, y) => match norm_pass(x, ctx) {
            AndV(p, q) => AndV(p, b(AndB(q, nn(y)))),
            o => AndB(b(o), nn(y)),
        },
        OrB(x, y) => match norm_pass(x, ctx) {
            AndV(p, q) => AndV(p, b(OrB(q, nn(y)))),
            o => OrB(b(o), nn(y)),
        },
        OrC(x, y) => match norm_pass(x, ctx) {
            AndV(p, q) => AndV(p, b(OrC(q, nn(y)))),
            o => OrC(b(o), nn(y)),
        },
        OrD(x, y) => match norm_pass(x, ctx) {
            AndV(p, q) => AndV(p, b(OrD(q, nn(y)))),
            o => OrD(b(o), nn(y)),
        },
        OrI(x, y) => OrI(nn(x), nn(y)),
        AndOr(x, y, z) => match norm_pass(x, ctx) {
            AndV(p, q) => AndV(p, b(AndOr(q, nn(y), nn(z)))),
            o => AndOr(b(o), nn(y), nn(z)),
        },
        Thresh(k, v) => {
            let mut subs: Vec<Node> = v.iter().map(|x| norm_pass(x, ctx)).collect();
            if let Some(AndV(p, q)) = subs.first().cloned() {
                subs[0] = *q;
                AndV(p, b(Thresh(*k, subs)))
            } else {
                Thresh(*k, subs)
            }
        }
        other => other.clone(),
    }
}

/// Postfix wrappers (`c:` = .. CHECKSIG, `v:` = .. VERIFY, `n:` = .. 0NOTEQUAL) commute with
/// `and_v`: `n:and_v(X,Y)` and `and_v(X,n:Y)` are the same bytes.  Normal form: innermost.
fn push_postfix(inner: Node, w: char) -> Node {
    match inner {
        Node::AndV(x, y) => Node::AndV(x, b(push_postfix(*y, w))),
        other => match w {
            'c' => Node::Check(b(other)),
            'v' => Node::Verify(b(other)),
            _ => Node::ZeroNotEqual(b(other)),
        },
    }
}

/// Keys in text are hex; in a decoded miniscript they print as hex too (same form).
fn check_roundtrip<C: ScriptContext>(node: &Node, ctx: Ctx, text: &str, rep: &mut Report) -> Result<bool, Failure>
where
    C::Key: std::str::FromStr + miniscript::FromStrKey + miniscript::ToPublicKey,
{
    let ms = match Miniscript::<C::Key, C>::from_str_with_validation_params(text, &C::CONSENSUS) {
        Ok(m) => m,
        Err(_) => {
            rep.class("rejected-by-parser");
            return Ok(false);
        }
    };
    let s = ms.encode();
    let own = encode(node, ctx).map_err(|e| Failure { sig: "mirror-encode".into(), msg: e })?;
    if s.as_bytes() != &own[..] {
        return fail(
            &format!("encode-differs/{}", first_diff_frag(node)),
            format!("library encoding {} differs from the specification's template {}", s.to_hex_string(), keys::hex(&own)),
        );
    }
    if ms.script_size() != s.len() {
        return fail(&format!("script-size/{}", first_diff_frag(node)), format!("script_size() = {} but the encoding has {} bytes", ms.script_size(), s.len()));
    }
    if ms.ext.pk_cost != s.len() {
        return fail(&format!("pk-cost/{}", first_diff_frag(node)), format!("ext.pk_cost = {} but the encoding has {} bytes", ms.ext.pk_cost, s.len()));
    }
    let back = match Miniscript::<C::Key, C>::decode_consensus(&s) {
        Ok(m) => m,
        Err(e) => return fail(&format!("decode-fails/{}", first_diff_frag(node)), format!("own encoding {} does not decode: {}", s.to_hex_string(), e)),
    };
    if back.encode() != s {
        return fail("reencode-differs", format!("decode(encode(M)).encode() = {} != {}", back.encode().to_hex_string(), s.to_hex_string()));
    }
    if back.ty != ms.ty {
        return fail("type-differs", format!("type after round trip {:?} != {:?}", back.ty, ms.ty));
    }
    let (mut e1, mut e2) = (back.ext, ms.ext);
    e1.tree_height = 0;
    e2.tree_height = 0;
    // a decoded `pk_h` no longer knows its key: with an uncompressed key the size figures
    // legitimately differ (the decoder cannot know the key length)
    let mut unc_pkh = false;
    node.walk(&mut |x| {
        if let Node::PkH(k) = x {
            if k.len() == 130 {
                unc_pkh = true;
            }
        }
    });
    if e1 != e2 && !unc_pkh {
        return fail("ext-differs", format!("extra data after round trip {:?} != {:?}", e1, e2));
    }
    // the decoded value with its key hashes substituted back is still the same script
    {
        use miniscript::ToPublicKey;
        let mut map = std::collections::BTreeMap::new();
        for k in ms.iter_pk() {
            map.insert(k.to_pubkeyhash(C::sig_type()), k);
        }
        for (how, m) in [("keys", &map), ("empty", &std::collections::BTreeMap::new())] {
            let sub = back.substitute_raw_pkh(m);
            if sub.encode() != s {
                return fail(
                    &format!("substitute-changes-script/{}", first_diff_frag(node)),
                    format!("decode(S).substitute_raw_pkh({}).encode() = {} != S = {}", how, sub.encode().to_hex_string(), s.to_hex_string()),
                );
            }
            if sub.ty != back.ty {
                return fail("substitute-changes-type", format!("type after substitute_raw_pkh({}) {:?} != {:?}", how, sub.ty, back.ty));
            }
        }
    }
    // the interpreter is a decoder too: the script it reads from a spending input is this script
    interpreter_decodes(&s, ctx, rep)?;
    let m1 = normalise(&ast::from_lib(&back), ctx);
    let m0 = normalise(node, ctx);
    if m1 != m0 {
        return fail(
            &format!("ast-differs/{}", first_diff_frag(node)),
            format!("decoded AST {} is not the original {} (modulo pk_h / sortedness / and_v association)", ast::print(&m1, false), ast::print(&m0, false)),
        );
    }
    Ok(true)
}

/// `Interpreter::from_txdata` on an input that reveals `script` (p2wsh, p2sh-p2wsh, p2sh, or a
/// taproot leaf under a fixed internal key): the explicit script of the inferred descriptor must
/// be `script` again.  Only the decoding is exercised (nothing is executed).
fn interpreter_decodes(script: &bitcoin::ScriptBuf, ctx: Ctx, rep: &mut Report) -> Result<(), Failure> {
    use bitcoin::hashes::Hash;
    use crate::mdesc::{p2sh_spk, p2wsh_spk, single_push};
    let sb = script.as_bytes().to_vec();
    let mut variants: Vec<(&str, Vec<u8>, Vec<u8>, Vec<Vec<u8>>)> = Vec::new(); // (name, spk, scriptSig, witness)
    match ctx {
        Ctx::Segwitv0 => {
            let prog = p2wsh_spk(&sb);
            variants.push(("wsh", prog.clone(), vec![], vec![sb.clone()]));
            variants.push(("sh-wsh", p2sh_spk(&prog), single_push(&prog), vec![sb.clone()]));
        }
        Ctx::Legacy => {
            if sb.len() <= 520 {
                variants.push(("sh", p2sh_spk(&sb), single_push(&sb), vec![]));
            }
        }
        Ctx::Tap => {
            let ik = crate::mirror::encode::key_bytes(&keys::key_xonly(1), Ctx::Tap).map_err(|e| Failure { sig: "key".into(), msg: e })?;
            let mut ik32 = [0u8; 32];
            ik32.copy_from_slice(&ik);
            let lh = crate::bip341::tapleaf_hash(0xc0, &sb);
            if let Some((q, parity)) = crate::bip341::output_key(&ik32, Some(&lh)) {
                let mut spk = vec![0x51, 32];
                spk.extend_from_slice(&q);
                let mut cb = vec![0xc0 | parity];
                cb.extend_from_slice(&ik32);
                variants.push(("tr-leaf", spk, vec![], vec![sb.clone(), cb]));
            }
        }
        Ctx::Bare => {}
    }
    for (name, spk, ssig, wit) in variants {
        let spk = bitcoin::ScriptBuf::from_bytes(spk);
        let ssig = bitcoin::ScriptBuf::from_bytes(ssig);
        let w = bitcoin::Witness::from_slice(&wit);
        match miniscript::interpreter::Interpreter::from_txdata(&spk, &ssig, &w, bitcoin::Sequence::MAX, bitcoin::absolute::LockTime::ZERO) {
            Ok(i) => match i.inferred_descriptor() {
                Ok(d) => {
                    let got = match &d {
                        miniscript::Descriptor::Tr(t) => t.leaves().next().map(|l| l.compute_script()),
                        _ => d.explicit_script().ok(),
                    };
                    if got.as_ref() != Some(script) {
                        return fail(&format!("interpreter-decodes-other-script/{}", name), format!("the interpreter read {:?} from an input revealing {}", got.map(|g| g.to_hex_string()), script.to_hex_string()));
                    }
                    rep.class(format!("interpreter:{}:ok", name));
                }
                Err(_) => rep.class(format!("interpreter:{}:no-descriptor", name)),
            },
            Err(e) => {
                return fail(&format!("interpreter-rejects-script/{}", name), format!("Interpreter::from_txdata cannot read the consensus-valid script {} ({}): {}", script.to_hex_string(), name, e));
            }
        }
        let _ = bitcoin::hashes::sha256::Hash::all_zeros();
    }
    Ok(())
}

fn first_diff_frag(n: &Node) -> String { crate::checks::c02::frag_signature(&crate::mdesc::MDesc::Wsh(n.clone())) }

#[derive(Clone, Debug)]
pub struct Tok {
    pub raw: Vec<u8>,
    pub ins: Instr,
}

pub fn tokenize(s: &[u8]) -> Vec<Tok> {
    // re-serialise each instruction minimally to recover its raw bytes
    let ins = parse_script(s).unwrap_or_default();
    let mut out = Vec::new();
    let mut pos = 0usize;
    for i in ins {
        let len = match &i.data {
            Some(d) => {
                if i.opcode < 0x4c {
                    1 + d.len()
                } else if i.opcode == 0x4c {
                    2 + d.len()
                } else if i.opcode == 0x4d {
                    3 + d.len()
                } else {
                    5 + d.len()
                }
            }
            None => 1,
        };
        out.push(Tok { raw: s[pos..pos + len].to_vec(), ins: i });
        pos += len;
    }
    out
}

pub fn mutate(src: &mut Src, toks: &mut Vec<Tok>) -> &'static str {
    use crate::refscript::op::*;
    if toks.is_empty() {
        return "none";
    }
    let i = src.below(toks.len());
    match src.below(14) {
        0 => {
            // non-minimal push encoding of a data push
            if let Some(d) = toks[i].ins.data.clone() {
                if toks[i].ins.opcode < PUSHDATA1 && d.len() <= 255 {
                    let mut raw = vec![PUSHDATA1, d.len() as u8];
                    raw.extend_from_slice(&d);
                    toks[i].raw = raw;
                    return "pushdata1";
                }
            }
            "none"
        }
        1 => {
            // OP_n as explicit push
            let o = toks[i].ins.opcode;
            if (OP_1..=OP_16).contains(&o) {
                toks[i].raw = vec![1, o - OP_1 + 1];
                return "opn-as-push";
            }
            if o == OP_0 && toks[i].ins.data.as_ref().map(|d| d.is_empty()).unwrap_or(false) {
                toks[i].raw = vec![1, 0];
                return "zero-as-push";
            }
            "none"
        }
        2 => {
            // padded number
            if let Some(d) = toks[i].ins.data.clone() {
                if !d.is_empty() && d.len() <= 4 {
                    let mut d2 = d.clone();
                    let last = d2.pop().unwrap();
                    d2.push(last & 0x7f);
                    d2.push(last & 0x80);
                    let mut raw = vec![d2.len() as u8];
                    raw.extend_from_slice(&d2);
                    toks[i].raw = raw;
                    return "padded-number";
                }
            }
            "none"
        }
        3 => {
            // split *VERIFY
            let o = toks[i].ins.opcode;
            let base = match o {
                EQUALVERIFY => Some(EQUAL),
                NUMEQUALVERIFY => Some(NUMEQUAL),
                CHECKSIGVERIFY => Some(CHECKSIG),
                CHECKMULTISIGVERIFY => Some(CHECKMULTISIG),
                _ => None,
            };
            if let Some(bo) = base {
                toks[i].raw = vec![bo, VERIFY];
                return "split-verify";
            }
            "none"
        }
        4 => {
            let o = toks[i].ins.opcode;
            if o == IF {
                toks[i].raw = vec![NOTIF];
                return "if-notif";
            }
            if o == NOTIF {
                toks[i].raw = vec![IF];
                return "if-notif";
            }
            "none"
        }
        5 => {
            // key / hash length change
            if let Some(d) = toks[i].ins.data.clone() {
                if d.len() == 65 && d[0] == 4 {
                    // hybrid encoding of the same point (prefix 6 / 7 by the parity of y) or a
                    // wrong-parity / junk prefix: not a canonical key push
                    let mut raw = vec![65u8];
                    let mut d2 = d.clone();
                    d2[0] = match src.below(3) {
                        0 => 6 + (d[64] & 1),
                        1 => 7 - (d[64] & 1),
                        _ => 5,
                    };
                    raw.extend_from_slice(&d2);
                    toks[i].raw = raw;
                    return "hybrid-key";
                }
                if d.len() == 33 && src.chance(1, 3) {
                    // compressed key with the prefix of the other parity is another (valid) key:
                    // fine; prefix 4/5/6 on 33 bytes is not a key
                    let mut raw = vec![33u8];
                    let mut d2 = d.clone();
                    d2[0] = *src.pick(&[4u8, 5, 6, 0]);
                    raw.extend_from_slice(&d2);
                    toks[i].raw = raw;
                    return "bad-key-prefix";
                }
                if d.len() == 33 {
                    let mut raw = vec![32u8];
                    raw.extend_from_slice(&d[1..]);
                    toks[i].raw = raw;
                    return "key33-to-32";
                }
                if d.len() == 32 {
                    let mut raw = vec![33u8, 2];
                    raw.extend_from_slice(&d);
                    toks[i].raw = raw;
                    return "32-to-33";
                }
                if d.len() == 20 {
                    let mut raw = vec![32u8];
                    raw.extend_from_slice(&d);
                    raw.extend_from_slice(&[0u8; 12]);
                    toks[i].raw = raw;
                    return "20-to-32";
                }
            }
            "none"
        }
        6 => {
            let o = *src.pick(&[DROP, NOP, VERIFY, DUP, SWAP, ZERONOTEQUAL, OP_0, OP_1]);
            toks.insert(i, Tok { raw: vec![o], ins: Instr { opcode: o, data: None } });
            "insert-op"
        }
        7 => {
            toks.remove(i);
            "delete-token"
        }
        8 => {
            let t = toks[i].clone();
            toks.insert(i, t);
            "duplicate-token"
        }
        9 => {
            if i + 1 < toks.len() {
                toks.swap(i, i + 1);
                return "swap-tokens";
            }
            "none"
        }
        10 => {
            toks.truncate(i);
            "truncate-suffix"
        }
        11 => {
            toks.drain(0..i);
            "truncate-prefix"
        }
        12 => {
            // change a number operand (k of thresh/multi, lock value)
            let o = toks[i].ins.opcode;
            if (OP_1..OP_16).contains(&o) {
                toks[i].raw = vec![o + 1];
                return "number+1";
            }
            "none"
        }
        _ => {
            // swap an opcode for a sibling
            let o = toks[i].ins.opcode;
            let r = match o {
                BOOLAND => Some(BOOLOR),
                BOOLOR => Some(BOOLAND),
                CLTV => Some(CSV),
                CSV => Some(CLTV),
                SHA256 => Some(HASH256),
                HASH160 => Some(RIPEMD160),
                CHECKSIG => Some(CHECKSIGADD),
                EQUAL => Some(NUMEQUAL),
                NUMEQUAL => Some(EQUAL),
                _ => None,
            };
            if let Some(r) = r {
                toks[i].raw = vec![r];
                return "sibling-opcode";
            }
            "none"
        }
    }
}

fn decoders<C: ScriptContext>(bytes: &[u8], rep: &mut Report, verbatim: bool) -> Result<bool, Failure>
where
    C::Key: miniscript::ToPublicKey,
{
    let script = Script::from_bytes(bytes);
    let sane = Miniscript::<C::Key, C>::decode(script);
    let cons = Miniscript::<C::Key, C>::decode_consensus(script);
    let max = Miniscript::<C::Key, C>::decode_with_validation_params(script, &miniscript::ValidationParams::MAX);
    let mut any = false;
    for (name, r) in [("decode", &sane), ("decode_consensus", &cons), ("decode_max", &max)] {
        if let Ok(m) = r {
            any = true;
            let e = m.encode();
            if e.as_bytes() != bytes {
                return fail(
                    &format!("noncanonical-accepted/{}", name),
                    format!("{} accepted {} but the result re-encodes to {} ({})", name, keys::hex(bytes), e.to_hex_string(), m),
                );
            }
            // (with MAX parameters a context accepts key kinds whose size it does not model,
            // e.g. uncompressed keys in Segwitv0: outside the property's domain)
            if name != "decode_max" && m.script_size() != bytes.len() {
                return fail(&format!("script-size-after-decode/{}", name), format!("script_size {} vs {} bytes", m.script_size(), bytes.len()));
            }
        }
    }
    if sane.is_ok() && cons.is_err() {
        return fail("sane-not-subset-of-consensus", format!("decode accepts {} but decode_consensus rejects it", keys::hex(bytes)));
    }
    if cons.is_ok() && max.is_err() {
        return fail("consensus-not-subset-of-max", format!("decode_consensus accepts {} but MAX parameters reject it", keys::hex(bytes)));
    }
    if any {
        rep.class("decoder-accepted");
        if !verbatim {
            rep.class("decoder-accepted-mutant");
        }
    }
    Ok(any)
}

impl Check for C04 {
    fn id(&self) -> &'static str { "C04" }
    fn rule(&self) -> String {
        "lane `values`: typed random miniscripts accepted under each context's consensus parameters (Bare, Legacy, Segwitv0, Tap; compressed / uncompressed / x-only keys): library encoding == own encoder (specification's templates), script_size == pk_cost == length, decode_consensus succeeds, re-encodes to the same bytes, same type and extra data (except tree height), mirror AST equal modulo pk_h key / sortedness / and_v association. Lane `bytes`: own encodings mutated at token level (non-minimal pushes and numbers, split *VERIFY, IF<->NOTIF, key/hash length changes, inserted/deleted/duplicated/swapped tokens, truncation, sibling opcodes, changed numbers) and random byte strings offered to decode / decode_consensus / decode_with_validation_params(MAX): Ok(M) => M.encode() == input and script_size == length; acceptance sets nested. Non-trivial: values with >= 3 nodes; byte inputs accepted by a decoder that are not the verbatim encoding of the generating AST.".into()
    }
    fn lanes(&self, tier: Tier) -> Vec<(&'static str, usize, usize)> {
        match tier {
            Tier::Quick => vec![("values", 1_200_000, 300), ("bytes", 2_400_000, 300)],
            Tier::Thorough => vec![("values", 24_000_000, 500), ("bytes", 48_000_000, 500)],
        }
    }
    fn replay_raw(&self, kind: &str, data: &[u8]) -> Option<Result<(), Failure>> {
        if kind == "rawscript" {
            let mut rep = Report::default();
            Some(decode_all_contexts(data, &mut rep))
        } else {
            None
        }
    }
    fn run_case(&self, lane: &str, src: &mut Src, rep: &mut Report) -> Result<(), Failure> {
        let ctx = *src.pick(&[Ctx::Segwitv0, Ctx::Tap, Ctx::Legacy, Ctx::Bare]);
        let size = src.range(1, if lane == "values" { 24 } else { 10 });
        let mut cfg = Cfg::new(ctx, size);
        cfg.key_style = KeyStyle::Hex;
        cfg.allow_uncompressed = true;
        cfg.max_multi_n = 5;
        cfg.max_thresh_n = 5;
        let node = gen::gen_ms(src, &cfg);
        let text = ast::print(&node, src.bool());
        rep.class(format!("ctx={:?}", ctx));
        if lane == "values" {
            rep.desc = format!("{:?} {}", ctx, text);
            let ok = match ctx {
                Ctx::Bare => check_roundtrip::<BareCtx>(&node, ctx, &text, rep)?,
                Ctx::Legacy => check_roundtrip::<Legacy>(&node, ctx, &text, rep)?,
                Ctx::Segwitv0 => check_roundtrip::<Segwitv0>(&node, ctx, &text, rep)?,
                Ctx::Tap => check_roundtrip::<Tap>(&node, ctx, &text, rep)?,
            };
            if ok && node.n_nodes() >= 3 {
                rep.nontrivial_by(&(ctx as u8, &text));
            }
            return Ok(());
        }
        // bytes lane
        let (bytes, what, verbatim): (Vec<u8>, String, bool) = if src.chance(1, 10) {
            let n = src.range(0, 40);
            let mut v = Vec::new();
            for _ in 0..n {
                v.push(src.raw() as u8);
            }
            (v, "random-bytes".into(), false)
        } else {
            let own = encode(&node, ctx).map_err(|e| Failure { sig: "mirror-encode".into(), msg: e })?;
            let mut toks = tokenize(&own);
            let nm = src.range(0, 2);
            let mut names = Vec::new();
            for _ in 0..nm {
                names.push(mutate(src, &mut toks));
            }
            let bytes: Vec<u8> = toks.iter().flat_map(|t| t.raw.clone()).collect();
            let verbatim = bytes == own;
            (bytes, format!("mutations={:?} of {}", names, text), verbatim)
        };
        rep.desc = format!("{:?} {} -> {}", ctx, what, keys::hex(&bytes));
        let any = match ctx {
            Ctx::Bare => decoders::<BareCtx>(&bytes, rep, verbatim)?,
            Ctx::Legacy => decoders::<Legacy>(&bytes, rep, verbatim)?,
            Ctx::Segwitv0 => decoders::<Segwitv0>(&bytes, rep, verbatim)?,
            Ctx::Tap => decoders::<Tap>(&bytes, rep, verbatim)?,
        };
        if any && !verbatim {
            rep.nontrivial_by(&(ctx as u8, &bytes));
        }
        let _ = b(Node::True);
        Ok(())
    }
}

/// All four contexts on raw bytes (used by the libFuzzer target).
pub fn decode_all_contexts(bytes: &[u8], rep: &mut Report) -> Result<(), Failure> {
    decoders::<BareCtx>(bytes, rep, false)?;
    decoders::<Legacy>(bytes, rep, false)?;
    decoders::<Segwitv0>(bytes, rep, false)?;
    decoders::<Tap>(bytes, rep, false)?;
    Ok(())
}
