pub mod c01;

use crate::runner::Check;

pub fn all() -> Vec<Box<dyn Check>> { vec![Box::new(c01::C01)] }
