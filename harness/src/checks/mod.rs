pub mod c01;
pub mod c02;
pub mod c03;
pub mod c04;
pub mod c05;
pub mod c06;
pub mod c07;
pub mod c08;
pub mod c09;
pub mod c10;
pub mod c11;
pub mod c12;
pub mod c13;
pub mod c14;
pub mod c15;
pub mod c16;
pub mod c17;
pub mod c18;
pub mod c19;
pub mod c20;

use crate::runner::Check;

pub fn all() -> Vec<Box<dyn Check>> {
    vec![Box::new(c01::C01), Box::new(c02::C02), Box::new(c03::C03), Box::new(c04::C04), Box::new(c05::C05), Box::new(c06::C06), Box::new(c07::C07), Box::new(c08::C08), Box::new(c09::C09), Box::new(c10::C10), Box::new(c11::C11), Box::new(c12::C12), Box::new(c13::C13), Box::new(c14::C14), Box::new(c15::C15), Box::new(c16::C16), Box::new(c17::C17), Box::new(c18::C18), Box::new(c19::C19), Box::new(c20::C20)]
}
