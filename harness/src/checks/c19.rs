//! C19 — equality, ordering and hashing are structural and mutually consistent.

use crate::gen::{self, Cfg, KeyStyle, PolCfg};
use crate::mirror::ast::{self, b, Node};
use crate::mirror::spec::Ctx;
use crate::poleval::MPol;
use crate::runner::{fail, guard, Check, Failure, Report, Src, Tier};
use miniscript::policy::{Concrete, Semantic};
use miniscript::{BareCtx, Descriptor, Legacy, Miniscript, Segwitv0, Tap, ValidationParams};
use std::cmp::Ordering;
use std::collections::{BTreeSet, HashSet};
use std::fmt::Display;
use std::hash::{Hash, Hasher};
use std::str::FromStr;

pub struct C19;

fn h<T: Hash>(t: &T) -> u64 {
    let mut s = std::collections::hash_map::DefaultHasher::new();
    t.hash(&mut s);
    s.finish()
}

/// The relations on a pair; `same` = mirror equality (ground truth).
fn pair<T: Eq + Ord + Hash + Clone + Display>(what: &str, a: &T, b2: &T, same: bool, edit: &str) -> Result<(), Failure> {
    pair_ord(what, a, b2, same, edit)?;
    let sa = a.to_string();
    if same && h(a) != h(b2) {
        return fail(&format!("hash/{}", what), format!("equal values `{}` hash differently", sa));
    }
    if h(&a.clone()) != h(a) {
        return fail(&format!("clone-hash/{}", what), format!("clone of `{}` hashes differently", sa));
    }
    let mut hs = HashSet::new();
    hs.insert(a.clone());
    hs.insert(b2.clone());
    let want = if same { 1 } else { 2 };
    if hs.len() != want {
        return fail(&format!("set-cardinality/{}/{}", what, edit), format!("HashSet has {} elements for `{}`, `{}` (structurally {})", hs.len(), sa, b2, if same { "identical" } else { "different" }));
    }
    Ok(())
}

fn pair_ord<T: Eq + Ord + Clone + Display>(what: &str, a: &T, b2: &T, same: bool, edit: &str) -> Result<(), Failure> {
    let (sa, sb) = (a.to_string(), b2.to_string());
    let eq = guard("eq", || a == b2)?;
    if eq != same {
        return fail(
            &format!("eq/{}/{}", what, edit),
            format!("`{}` == `{}` is {} but the values are structurally {}", sa, sb, eq, if same { "identical" } else { "different" }),
        );
    }
    if (sa == sb) != same {
        return fail(&format!("display/{}/{}", what, edit), format!("string forms `{}` / `{}` equal={} but structurally {}", sa, sb, sa == sb, if same { "identical" } else { "different" }));
    }
    let c = guard("cmp", || a.cmp(b2)).map_err(|f| Failure { sig: format!("cmp-panic/{}/{}", what, edit), msg: format!("cmp(`{}`, `{}`) panicked: {}", sa, sb, f.msg) })?;
    let c2 = guard("cmp", || b2.cmp(a)).map_err(|f| Failure { sig: format!("cmp-panic/{}/{}", what, edit), msg: format!("cmp(`{}`, `{}`) panicked: {}", sb, sa, f.msg) })?;
    if (c == Ordering::Equal) != same {
        return fail(&format!("cmp-equal/{}/{}", what, edit), format!("cmp(`{}`, `{}`) = {:?} but structurally {}", sa, sb, c, if same { "identical" } else { "different" }));
    }
    if c != c2.reverse() {
        return fail(&format!("cmp-antisymmetry/{}/{}", what, edit), format!("cmp(`{}`, `{}`) = {:?} but reversed = {:?}", sa, sb, c, c2));
    }
    if a.partial_cmp(b2) != Some(c) {
        return fail(&format!("partial-cmp/{}", what), format!("partial_cmp != Some(cmp) on `{}`, `{}`", sa, sb));
    }
    // clone
    let ac = a.clone();
    if !(ac == *a) || ac.cmp(a) != Ordering::Equal || ac.to_string() != sa {
        return fail(&format!("clone/{}", what), format!("clone of `{}` is not equal to it", sa));
    }
    // sets
    let mut bt = BTreeSet::new();
    bt.insert(a.clone());
    bt.insert(b2.clone());
    let want = if same { 1 } else { 2 };
    if bt.len() != want {
        return fail(&format!("set-cardinality/{}/{}", what, edit), format!("BTreeSet has {} elements for `{}`, `{}` (structurally {})", bt.len(), sa, sb, if same { "identical" } else { "different" }));
    }
    Ok(())
}

fn triple<T: Ord + Display>(what: &str, a: &T, b2: &T, c: &T) -> Result<(), Failure> {
    let mut v = [a, b2, c];
    // check transitivity on all orderings
    for _ in 0..3 {
        v.rotate_left(1);
        let (x, y, z) = (v[0], v[1], v[2]);
        if x.cmp(y) != Ordering::Greater && y.cmp(z) != Ordering::Greater && x.cmp(z) == Ordering::Greater {
            return fail(&format!("cmp-transitivity/{}", what), format!("`{}` <= `{}` <= `{}` but first > third", x, y, z));
        }
        if x.cmp(y) == Ordering::Equal && x.cmp(z) != y.cmp(z) {
            return fail(&format!("cmp-congruence/{}", what), format!("`{}` equals `{}` but they compare differently to `{}`", x, y, z));
        }
    }
    Ok(())
}

/// One structural edit somewhere in the tree. Returns (edited, name of the edit).
pub fn edit_node(src: &mut Src, n: &Node) -> (Node, &'static str) {
    // collect positions
    fn count(n: &Node) -> usize { n.n_nodes() }
    let total = count(n);
    let target = src.below(total);
    let mut idx = 0usize;
    let mut name: &'static str = "none";
    fn go(n: &Node, target: usize, idx: &mut usize, src: &mut Src, name: &mut &'static str) -> Node {
        let me = *idx;
        *idx += 1;
        if me == target {
            return edit_here(n, src, name);
        }
        let mut o = n.clone();
        for c in o.children_mut() {
            let r = go(&c.clone(), target, idx, src, name);
            *c = r;
        }
        o
    }
    fn other_key(k: &str) -> String {
        if k.len() <= 2 {
            // named key
            let c = k.as_bytes()[0];
            (((c - b'A' + 1) % 20 + b'A') as char).to_string()
        } else {
            let mut s = k.to_string();
            let last = s.pop().unwrap();
            s.push(if last == '0' { '1' } else { '0' });
            s
        }
    }
    fn edit_here(n: &Node, src: &mut Src, name: &mut &'static str) -> Node {
        use Node::*;
        match n {
            Thresh(k, v) => match src.below(4) {
                0 if *k < v.len() => {
                    *name = "thresh-k+1";
                    Thresh(k + 1, v.clone())
                }
                1 if *k > 1 => {
                    *name = "thresh-k-1";
                    Thresh(k - 1, v.clone())
                }
                2 if v.len() > *k && v.len() > 1 => {
                    *name = "thresh-drop-last";
                    let mut v2 = v.clone();
                    v2.pop();
                    Thresh(*k, v2)
                }
                _ => {
                    *name = "thresh-add-child";
                    let mut v2 = v.clone();
                    let last = v2.last().cloned().unwrap();
                    v2.push(if v2.len() == 1 { Alt(b(last)) } else { last });
                    Thresh(*k, v2)
                }
            },
            Multi(k, ks) | SortedMulti(k, ks) | MultiA(k, ks) | SortedMultiA(k, ks) => {
                let mk = |k: usize, ks: Vec<String>| match n {
                    Multi(..) => Multi(k, ks),
                    SortedMulti(..) => SortedMulti(k, ks),
                    MultiA(..) => MultiA(k, ks),
                    _ => SortedMultiA(k, ks),
                };
                match src.below(5) {
                    0 if *k < ks.len() => {
                        *name = "multi-k+1";
                        mk(k + 1, ks.clone())
                    }
                    1 if *k > 1 => {
                        *name = "multi-k-1";
                        mk(k - 1, ks.clone())
                    }
                    2 if ks.len() > *k => {
                        *name = "multi-drop-key";
                        let mut v = ks.clone();
                        v.pop();
                        mk(*k, v)
                    }
                    3 => {
                        *name = "multi-add-key";
                        let mut v = ks.clone();
                        v.push(other_key(&ks[0]));
                        mk(*k, v)
                    }
                    _ => {
                        *name = "multi-change-key";
                        let mut v = ks.clone();
                        let i = src.below(v.len());
                        v[i] = other_key(&v[i]);
                        mk(*k, v)
                    }
                }
            }
            PkK(k) => {
                if src.bool() {
                    *name = "key-changed";
                    PkK(other_key(k))
                } else {
                    *name = "pk_k->pk_h";
                    PkH(k.clone())
                }
            }
            PkH(k) => {
                *name = "key-changed";
                PkH(other_key(k))
            }
            RawPkH(h) => {
                *name = "raw-pkh-hash-changed";
                let mut c: Vec<char> = h.chars().collect();
                let i = src.below(c.len().max(1));
                if !c.is_empty() {
                    c[i] = if c[i] == '0' { '1' } else { '0' };
                }
                RawPkH(c.into_iter().collect())
            }
            After(t) => {
                *name = "after+1";
                After(t + 1)
            }
            Older(t) => {
                *name = "older+1";
                Older(t + 1)
            }
            Sha256(x) => {
                *name = "hash-changed";
                Sha256(other_key(x))
            }
            Hash256(x) => {
                *name = "hash-changed";
                Hash256(other_key(x))
            }
            Ripemd160(x) => {
                *name = "hash-changed";
                Ripemd160(other_key(x))
            }
            Hash160(x) => {
                *name = "hash-changed";
                Hash160(other_key(x))
            }
            AndB(x, y) if src.bool() => {
                *name = "and_b->or_b";
                OrB(x.clone(), y.clone())
            }
            OrB(x, y) => {
                *name = "or_b->and_b";
                AndB(x.clone(), y.clone())
            }
            OrD(x, y) => {
                *name = "or_d->or_i";
                OrI(x.clone(), y.clone())
            }
            OrI(x, y) => {
                *name = "or_i-swap";
                OrI(y.clone(), x.clone())
            }
            AndOr(x, y, z) => {
                *name = "andor-swap-yz";
                AndOr(x.clone(), z.clone(), y.clone())
            }
            AndV(x, y) => {
                *name = "and_v-child";
                AndV(x.clone(), b(edit_here(y, src, name)))
            }
            ZeroNotEqual(x) => {
                *name = "drop-n-wrapper";
                (**x).clone()
            }
            Alt(x) if matches!(**x, Check(_)) => {
                *name = "a->s";
                Swap(x.clone())
            }
            Swap(x) => {
                *name = "s->a";
                Alt(x.clone())
            }
            True => {
                *name = "1->0";
                False
            }
            False => {
                *name = "0->1";
                True
            }
            other => {
                // wrap in n: if B-ish; otherwise descend
                let mut o = other.clone();
                let mut done = false;
                for c in o.children_mut() {
                    if !done {
                        let r = edit_here(&c.clone(), src, name);
                        *c = r;
                        done = true;
                    }
                }
                o
            }
        }
    }
    let out = go(n, target, &mut idx, src, &mut name);
    (out, name)
}

fn edit_pol(src: &mut Src, p: &MPol) -> (MPol, &'static str) {
    let total = p.n_nodes();
    let target = src.below(total);
    let mut idx = 0;
    let mut name = "none";
    fn go(p: &MPol, target: usize, idx: &mut usize, src: &mut Src, name: &mut &'static str) -> MPol {
        let me = *idx;
        *idx += 1;
        if me == target {
            return match p {
                MPol::Thresh(k, v) => match src.below(3) {
                    0 if *k < v.len() => {
                        *name = "thresh-k+1";
                        MPol::Thresh(k + 1, v.clone())
                    }
                    1 if *k > 1 => {
                        *name = "thresh-k-1";
                        MPol::Thresh(k - 1, v.clone())
                    }
                    _ => {
                        *name = "thresh-add-child";
                        let mut v2 = v.clone();
                        v2.push(v[0].clone());
                        MPol::Thresh(*k, v2)
                    }
                },
                MPol::And(v) => {
                    if v.len() == 2 && src.bool() {
                        *name = "and->or";
                        MPol::Or(v.iter().map(|x| (1, x.clone())).collect())
                    } else {
                        *name = "and-swap";
                        let mut v2 = v.clone();
                        v2.swap(0, 1);
                        MPol::And(v2)
                    }
                }
                MPol::Or(v) => {
                    if src.bool() {
                        *name = "or-weight";
                        let mut v2 = v.clone();
                        v2[0].0 += 1;
                        MPol::Or(v2)
                    } else {
                        *name = "or->and";
                        MPol::And(v.iter().map(|(_, x)| x.clone()).collect())
                    }
                }
                MPol::Key(k) => {
                    *name = "key-changed";
                    let c = k.as_bytes()[0];
                    MPol::Key((((c - b'A' + 1) % 20 + b'A') as char).to_string())
                }
                MPol::After(t) => {
                    *name = "after+1";
                    MPol::After(t + 1)
                }
                MPol::Older(t) => {
                    *name = "older+1";
                    MPol::Older(t + 1)
                }
                MPol::Trivial => {
                    *name = "trivial->unsat";
                    MPol::Unsat
                }
                MPol::Unsat => {
                    *name = "unsat->trivial";
                    MPol::Trivial
                }
                MPol::Sha256(h) => {
                    *name = "sha256->hash256";
                    MPol::Hash256(h.clone())
                }
                other => {
                    *name = "hash->key";
                    let _ = other;
                    MPol::Key("Z".into())
                }
            };
        }
        match p {
            MPol::And(v) => MPol::And(v.iter().map(|x| go(x, target, idx, src, name)).collect()),
            MPol::Or(v) => MPol::Or(v.iter().map(|(w, x)| (*w, go(x, target, idx, src, name))).collect()),
            MPol::Thresh(k, v) => MPol::Thresh(*k, v.iter().map(|x| go(x, target, idx, src, name)).collect()),
            o => o.clone(),
        }
    }
    let out = go(p, target, &mut idx, src, &mut name);
    (out, name)
}

fn named_keys(n: &Node) -> Node {
    // String-keyed objects: short names keep texts small
    let mut map: Vec<String> = Vec::new();
    n.map_keys(&mut |k| {
        let i = match map.iter().position(|x| x == k) {
            Some(i) => i,
            None => {
                map.push(k.to_string());
                map.len() - 1
            }
        };
        ((b'A' + (i % 20) as u8) as char).to_string()
    })
}

macro_rules! with_ctx {
    ($ctx:expr, $f:ident, $($arg:expr),*) => {
        match $ctx {
            Ctx::Bare => $f::<BareCtx>($($arg),*),
            Ctx::Legacy => $f::<Legacy>($($arg),*),
            Ctx::Segwitv0 => $f::<Segwitv0>($($arg),*),
            Ctx::Tap => $f::<Tap>($($arg),*),
        }
    };
}

fn ms_pairs<C: miniscript::ScriptContext>(a: &Node, b2: &Node, c: &Node, edit: &str, rep: &mut Report) -> Result<bool, Failure> {
    let p = ValidationParams::MAX;
    let pa = Miniscript::<String, C>::from_str_with_validation_params(&ast::print(a, true), &p);
    let pb = Miniscript::<String, C>::from_str_with_validation_params(&ast::print(b2, true), &p);
    let pc = Miniscript::<String, C>::from_str_with_validation_params(&ast::print(c, false), &p);
    let (ma, mb) = match (pa, pb) {
        (Ok(x), Ok(y)) => (x, y),
        _ => {
            rep.class("neighbour-ill-typed");
            return Ok(false);
        }
    };
    let same = a == b2;
    pair("miniscript", &ma, &mb, same, edit)?;
    pair("terminal", &ma.node, &mb.node, same, edit)?;
    // sugar variant of a (printed without sugar) must be equal to a
    let ma2 = Miniscript::<String, C>::from_str_with_validation_params(&ast::print(a, false), &p);
    if let Ok(ma2) = ma2 {
        pair("miniscript", &ma, &ma2, true, "sugar")?;
    }
    if let Ok(mc) = pc {
        triple("miniscript", &ma, &mb, &mc)?;
        triple("terminal", &ma.node, &mb.node, &mc.node)?;
        pair("miniscript", &ma, &mc, a == c, "independent")?;
    }
    Ok(true)
}

struct IdentAny;
impl<Pk: miniscript::MiniscriptKey> miniscript::Translator<Pk> for IdentAny {
    type TargetPk = Pk;
    type Error = ();
    fn pk(&mut self, pk: &Pk) -> Result<Pk, ()> { Ok(pk.clone()) }
    fn sha256(&mut self, h: &Pk::Sha256) -> Result<Pk::Sha256, ()> { Ok(h.clone()) }
    fn hash256(&mut self, h: &Pk::Hash256) -> Result<Pk::Hash256, ()> { Ok(h.clone()) }
    fn ripemd160(&mut self, h: &Pk::Ripemd160) -> Result<Pk::Ripemd160, ()> { Ok(h.clone()) }
    fn hash160(&mut self, h: &Pk::Hash160) -> Result<Pk::Hash160, ()> { Ok(h.clone()) }
}

/// The same miniscript reached through different construction paths must be one value.
fn ms_paths<C: miniscript::ScriptContext>(a: &Node, rep: &mut Report) -> Result<bool, Failure>
where
    C::Key: std::str::FromStr + miniscript::FromStrKey + miniscript::ToPublicKey,
{
    use miniscript::ToPublicKey;
    let text = ast::print(a, true);
    let ms = match Miniscript::<C::Key, C>::from_str_with_validation_params(&text, &C::CONSENSUS) {
        Ok(m) => m,
        Err(_) => {
            rep.class("rejected-by-parser");
            return Ok(false);
        }
    };
    let truth = ast::from_lib(&ms);
    if let Ok(m2) = Miniscript::<C::Key, C>::from_ast(ms.node.clone()) {
        pair("miniscript/from_ast", &ms, &m2, true, "from_ast")?;
    }
    if let Ok(m2) = Miniscript::<C::Key, C>::from_str_with_validation_params(&ms.to_string(), &C::CONSENSUS) {
        pair("miniscript/reparse", &ms, &m2, true, "reparse")?;
    }
    if let Ok(m2) = ms.translate_pk(&mut IdentAny) {
        let m2: Miniscript<C::Key, C> = m2;
        pair("miniscript/translate", &ms, &m2, ast::from_lib(&m2) == truth, "translate")?;
    }
    let script = ms.encode();
    if let Ok(dec) = Miniscript::<C::Key, C>::decode_consensus(&script) {
        let mut map = std::collections::BTreeMap::new();
        for k in ms.iter_pk() {
            map.insert(k.to_pubkeyhash(C::sig_type()), k);
        }
        let sub = dec.substitute_raw_pkh(&map);
        let same = ast::from_lib(&sub) == truth;
        rep.class(if same { "paths:decode-substitute-same" } else { "paths:decode-substitute-other-ast" });
        pair("miniscript/decode-substitute", &ms, &sub, same, "decode+substitute_raw_pkh")?;
        // substituting with an empty map is the identity
        let none = dec.substitute_raw_pkh(&std::collections::BTreeMap::new());
        pair("miniscript/substitute-nothing", &dec, &none, true, "substitute_raw_pkh(empty)")?;
    }
    Ok(true)
}

impl Check for C19 {
    fn id(&self) -> &'static str { "C19" }
    fn rule(&self) -> String {
        "case = (a, b, c): a random value, b = a one-edit neighbour of a (threshold k +-1, child/key added or removed, one key / hash / lock changed, children swapped, sibling fragment, wrapper changed) or an independent value or a re-parse of a, c = independent; for Miniscript and Terminal (String keys, 4 contexts, MAX parameters), lane `paths`: one miniscript with real keys (compressed / uncompressed / x-only) reached through from_str, from_ast, print->parse, identity translate_pk and decode(encode)+substitute_raw_pkh must be ==/Equal/same hash whenever the mirror ASTs agree (non-trivial there = contains pk_h), Descriptor (wsh/sh/sh-wsh/tr/bare wrappers, same leaves in different tree shapes), Concrete and Semantic policies. Oracle: structural equality of the mirror AST (derived Eq on a plain enum). Checked: == iff mirror-equal iff equal strings; cmp never panics, Equal iff ==, antisymmetric, transitive and congruent on the triple; partial_cmp == Some(cmp); equal => equal hash; clone equal; BTreeSet/HashSet cardinality. Non-trivial = one-edit neighbour pairs; distinct by (type, a, b).".into()
    }
    fn lanes(&self, tier: Tier) -> Vec<(&'static str, usize, usize)> {
        match tier {
            Tier::Quick => vec![("miniscript", 1_200_000, 300), ("paths", 300_000, 300), ("descriptor", 450_000, 300), ("policy", 900_000, 200)],
            Tier::Thorough => vec![("miniscript", 24_000_000, 400), ("paths", 6_000_000, 400), ("descriptor", 9_000_000, 400), ("policy", 18_000_000, 300)],
        }
    }
    fn run_case(&self, lane: &str, src: &mut Src, rep: &mut Report) -> Result<(), Failure> {
        if lane == "policy" {
            let cfg = PolCfg { max_leaves: 7, allow_const: true, distinct_keys: false, key_hex_ctx: Ctx::Segwitv0, named_keys: true, consistent_locks: false, max_weight: 4, allow_thresh: true, binary: false };
            let a = gen::gen_policy(src, &cfg);
            let (b2, edit) = if src.chance(3, 4) { edit_pol(src, &a) } else { (a.clone(), "identical") };
            let c = gen::gen_policy(src, &cfg);
            rep.desc = format!("{} | {} ({})", a.print(), b2.print(), edit);
            let (ca, cb, cc) = (Concrete::<String>::from_str(&a.print()), Concrete::<String>::from_str(&b2.print()), Concrete::<String>::from_str(&c.print()));
            if let (Ok(ca), Ok(cb)) = (&ca, &cb) {
                let same = MPol::from_concrete(ca) == MPol::from_concrete(cb);
                pair("concrete", ca, cb, same, edit)?;
                if let Ok(cc) = &cc {
                    triple("concrete", ca, cb, cc)?;
                }
                if edit != "identical" && edit != "none" {
                    rep.nontrivial_by(&("concrete", a.print(), b2.print()));
                }
            }
            if let (Some(sa), Some(sb)) = (crate::checks::c18::to_semantic(&a), crate::checks::c18::to_semantic(&b2)) {
                let same = MPol::from_semantic(&sa) == MPol::from_semantic(&sb);
                pair_ord("semantic", &sa, &sb, same, edit)?;
                if let Some(sc) = crate::checks::c18::to_semantic(&c) {
                    triple("semantic", &sa, &sb, &sc)?;
                }
            }
            return Ok(());
        }
        let ctx = *src.pick(&[Ctx::Segwitv0, Ctx::Tap, Ctx::Legacy, Ctx::Bare]);
        let size = src.range(1, 10);
        if lane == "paths" {
            let mut cfg = Cfg::new(ctx, size);
            cfg.key_style = KeyStyle::Hex;
            cfg.allow_uncompressed = ctx == Ctx::Legacy || ctx == Ctx::Bare;
            cfg.max_multi_n = 4;
            let a = gen::gen_ms(src, &cfg);
            rep.desc = format!("{:?} {}", ctx, ast::print(&a, true));
            let ok = with_ctx!(ctx, ms_paths, &a, rep)?;
            let mut has_pkh = false;
            a.walk(&mut |x| {
                if let Node::PkH(_) = x {
                    has_pkh = true;
                }
            });
            if ok && has_pkh {
                rep.nontrivial_by(&(ctx as u8, ast::print(&a, false)));
            }
            return Ok(());
        }
        let mut cfg = Cfg::new(ctx, size);
        cfg.key_style = KeyStyle::Hex;
        cfg.legacy_restrict = false;
        cfg.max_multi_n = 4;
        cfg.allow_raw_pkh = lane == "miniscript";
        let a = named_keys(&gen::gen_ms(src, &cfg));
        let (b2, edit) = match src.below(8) {
            0 => (a.clone(), "identical"),
            1 => (named_keys(&gen::gen_ms(src, &cfg)), "independent"),
            _ => edit_node(src, &a),
        };
        let c = named_keys(&gen::gen_ms(src, &cfg));
        rep.desc = format!("{:?} {} | {} ({})", ctx, ast::print(&a, true), ast::print(&b2, true), edit);
        rep.class(format!("edit={}", edit));
        if lane == "miniscript" {
            let ok = with_ctx!(ctx, ms_pairs, &a, &b2, &c, edit, rep)?;
            if ok && edit != "identical" && edit != "independent" && edit != "none" {
                rep.nontrivial_by(&(ctx as u8, ast::print(&a, false), ast::print(&b2, false)));
            }
            return Ok(());
        }
        // descriptor lane (String keys)
        let wrap = |n: &Node, w: usize| -> String {
            let s = ast::print(n, true);
            match w {
                0 => format!("wsh({})", s),
                1 => format!("sh({})", s),
                2 => format!("sh(wsh({}))", s),
                3 => format!("tr(K,{})", s),
                4 => format!("tr(K,{{{},pk(L)}})", s),
                5 => format!("tr(K,{{pk(L),{}}})", s),
                6 => format!("tr(K,{{{{{},pk(L)}},pk(M)}})", s),
                _ => format!("tr(K,{{{},{{pk(L),pk(M)}}}})", s),
            }
        };
        let wa = src.below(8);
        let wb = if src.chance(3, 4) { wa } else { src.below(8) };
        let (ta, tb) = (wrap(&a, wa), wrap(&b2, wb));
        let (da, db) = (Descriptor::<String>::from_str(&ta), Descriptor::<String>::from_str(&tb));
        if let (Ok(da), Ok(db)) = (da, db) {
            let same = a == b2 && wa == wb;
            let e2 = if wa != wb { "wrapper-changed" } else { edit };
            pair("descriptor", &da, &db, same, e2)?;
            if let (Descriptor::Tr(x), Descriptor::Tr(y)) = (&da, &db) {
                pair("tr", x, y, same, e2)?;
                if let (Some(tx), Some(ty)) = (x.tap_tree(), y.tap_tree()) {
                    let same_tree = a == b2 && (wa == wb);
                    pair("taptree", tx, ty, same_tree, e2)?;
                }
            }
            let tc = wrap(&c, src.below(8));
            if let Ok(dc) = Descriptor::<String>::from_str(&tc) {
                triple("descriptor", &da, &db, &dc)?;
            }
            if !same {
                rep.nontrivial_by(&(ta, tb));
            }
        } else {
            rep.class("descriptor-rejected");
        }
        Ok(())
    }
}
