//! C13 — the transaction interpreter agrees with real script execution.

use crate::checks::c01::pick_kind;
use crate::gen::{self, Cfg, KeyStyle};
use crate::glue;
use crate::keys;
use crate::mdesc::MDesc;
use crate::poleval::{eval_assign, Atom, MPol};
use crate::refscript::{self, verify_input, Flags};
use crate::runner::{fail, guard, Check, Failure, Report, Src, Tier};
use crate::world::{make_tx_w, sign_real, TxCtx, World, WorldSat};
use bitcoin::hashes::Hash;
use bitcoin::sighash::Prevouts;
use bitcoin::{absolute, ScriptBuf, Sequence, Witness};
use miniscript::interpreter::{HashLockType, KeySigPair, SatisfiedConstraint};
use miniscript::policy::Liftable;
use miniscript::Interpreter;
use secp256k1::Secp256k1;

pub struct C13;

#[derive(Debug, Clone, PartialEq, Eq, PartialOrd, Ord)]
enum Cond {
    Sig(Vec<u8>, Vec<u8>),
    Hash(u8, Vec<u8>, Vec<u8>),
    After(u32),
    Older(u32),
}

fn pushes(ss: &[u8]) -> Option<Vec<Vec<u8>>> {
    let ins = refscript::parse_script(ss).ok()?;
    let mut v = Vec::new();
    for i in ins {
        match (i.opcode, i.data) {
            (_, Some(d)) => v.push(d),
            (0x4f, None) => v.push(vec![0x81]),
            (o, None) if (0x51..=0x60).contains(&o) => v.push(vec![o - 0x50]),
            _ => return None,
        }
    }
    Some(v)
}

fn build_script_sig(items: &[Vec<u8>]) -> Vec<u8> {
    // minimal pushes (like the library's witness_to_scriptsig)
    let mut out = Vec::new();
    for it in items {
        if it.is_empty() {
            out.push(0);
        } else if it.len() == 1 && (1..=16).contains(&it[0]) {
            out.push(0x50 + it[0]);
        } else if it.len() == 1 && it[0] == 0x81 {
            out.push(0x4f);
        } else {
            crate::mirror::encode::push_bytes(&mut out, it);
        }
    }
    out
}

/// Run the interpreter; Ok(list of reported conditions) or Err(description).
fn run_interpreter(t: &TxCtx) -> Result<Result<Vec<Cond>, String>, Failure> {
    let spk = t.prevouts[t.idx].script_pubkey.clone();
    let txin = &t.tx.input[t.idx];
    let secp = Secp256k1::verification_only();
    guard("interpreter", || {
        let interp = match Interpreter::from_txdata(&spk, &txin.script_sig, &txin.witness, txin.sequence, t.tx.lock_time) {
            Ok(i) => i,
            Err(e) => return Err(format!("from_txdata: {}", e)),
        };
        // "a descriptor which reproduces the spent coins": whenever one is inferred, it pays to
        // the spent scriptPubKey
        if let Ok(d) = interp.inferred_descriptor() {
            if d.script_pubkey() != spk {
                return Err(format!("INFERRED-DESCRIPTOR-MISMATCH {} pays to {} but the spent output is {}", d, d.script_pubkey().to_hex_string(), spk.to_hex_string()));
            }
        }
        // pre-taproot inputs need only their own previous output: hand it over both ways
        let single = !spk.is_p2tr() && (t.tx.input.len() + t.idx + txin.witness.len()) % 2 == 1;
        let prevouts = if single { Prevouts::One(t.idx, t.prevouts[t.idx].clone()) } else { Prevouts::All(&t.prevouts) };
        let mut out = Vec::new();
        for c in interp.iter(&secp, &t.tx, t.idx, &prevouts) {
            match c {
                Ok(SatisfiedConstraint::PublicKey { key_sig }) | Ok(SatisfiedConstraint::PublicKeyHash { key_sig, .. }) => match key_sig {
                    KeySigPair::Ecdsa(k, s) => out.push(Cond::Sig(k.to_bytes(), s.to_vec())),
                    KeySigPair::Schnorr(k, s) => out.push(Cond::Sig(k.serialize().to_vec(), s.to_vec())),
                },
                Ok(SatisfiedConstraint::HashLock { hash, preimage }) => {
                    let (op, d) = match hash {
                        HashLockType::Sha256(h) => (refscript::op::SHA256, h.to_byte_array().to_vec()),
                        HashLockType::Hash256(h) => (refscript::op::HASH256, h.to_byte_array().to_vec()),
                        HashLockType::Hash160(h) => (refscript::op::HASH160, h.to_byte_array().to_vec()),
                        HashLockType::Ripemd160(h) => (refscript::op::RIPEMD160, h.to_byte_array().to_vec()),
                    };
                    out.push(Cond::Hash(op, d, preimage.to_vec()));
                }
                Ok(SatisfiedConstraint::RelativeTimelock { n }) => out.push(Cond::Older(n.to_consensus_u32())),
                Ok(SatisfiedConstraint::AbsoluteTimelock { n }) => out.push(Cond::After(n.to_consensus_u32())),
                Err(e) => return Err(format!("iter: {}", e)),
            }
        }
        Ok(out)
    })
}

fn conds_from_trace(tr: &refscript::Trace) -> Vec<Cond> {
    let mut v = Vec::new();
    for (k, s, ok) in &tr.sig_checks {
        if *ok {
            v.push(Cond::Sig(k.clone(), s.clone()));
        }
    }
    for (i, (op, pre, dig)) in tr.hashes.iter().enumerate() {
        if tr.hash_after_size32.get(i).copied().unwrap_or(false) {
            // the comparison with the script's constant must have succeeded
            if tr.equal_checks.iter().any(|(a, b2, eq)| *eq && (a == dig || b2 == dig)) {
                v.push(Cond::Hash(*op, dig.clone(), pre.clone()));
            }
        }
    }
    for a in &tr.cltv_args {
        v.push(Cond::After(*a as u32));
    }
    for o in &tr.csv_args {
        // the interpreter reports a relative::LockTime: the unit flag and the 16-bit value,
        // i.e. exactly the bits BIP68/112 compare
        v.push(Cond::Older(*o as u32 & 0x0040_ffff));
    }
    v.sort();
    v
}

fn swap_sigs(items: &mut [Vec<u8>], old: &WorldSat, new: &WorldSat) {
    for it in items.iter_mut() {
        for (k, s) in &old.ecdsa {
            if *it == s.to_vec() {
                if let Some(n) = new.ecdsa.get(k) {
                    *it = n.to_vec();
                }
            }
        }
        for (k, s) in &old.tap_leaf {
            if *it == s.to_vec() {
                if let Some(n) = new.tap_leaf.get(k) {
                    *it = n.to_vec();
                }
            }
        }
        if let (Some(o), Some(n)) = (old.tap_key, new.tap_key) {
            if *it == o.to_vec() {
                *it = n.to_vec();
            }
        }
    }
}

impl Check for C13 {
    fn id(&self) -> &'static str { "C13" }
    fn rule(&self) -> String {
        "case = sane descriptor of any output type, world, real signatures, the library's own satisfaction; then one of: (i) unchanged, (ii) 1-3 mutations of the witness / scriptSig elements (for segwit inputs also an extra push in the scriptSig, next to the redeem-script push of p2sh-wrapped outputs or in the empty scriptSig of native ones) (drop, duplicate, swap, replace by empty / 0x01 / junk / another key's valid signature / a signature with a flipped byte or hash type), (iii) the same witness in a transaction with other nLockTime / nSequence values around the script's locks (other unit, 0, 0xfffffffe, 0xffffffff) with all signatures re-made for that transaction. Oracles: (0) an inferred descriptor, whenever one is produced, pays to the spent scriptPubKey; (1) the interpreter accepts the library's own satisfaction; (2) whenever Interpreter::from_txdata + iter(secp, tx, i, prevouts) yields no error, the reference interpreter accepts under consensus flags; (3) on accepted spends the reported SatisfiedConstraints equal, as a multiset, the executed path's successful signature checks (key, signature), successful hash locks (hash, preimage) and executed CLTV/CSV arguments, and make the lifted policy true. Non-trivial = mutated or lock-varied cases that the interpreter still accepts; distinct by (descriptor, world, variation).".into()
    }
    fn assumptions(&self) -> Vec<String> { vec!["transaction version 2 (the interpreter is not given the version)".into()] }
    fn lanes(&self, tier: Tier) -> Vec<(&'static str, usize, usize)> {
        match tier {
            Tier::Quick => vec![("interp", 240_000, 400)],
            Tier::Thorough => vec![("interp", 6_000_000, 500)],
        }
    }
    fn run_case(&self, _lane: &str, src: &mut Src, rep: &mut Report) -> Result<(), Failure> {
        let kind = pick_kind(src);
        let size = src.range(1, 8);
        let d = gen::gen_desc(src, kind, &|ctx| {
            let mut c = Cfg::sane(ctx, size);
            c.key_style = KeyStyle::Rich;
            c.allow_uncompressed = true;
            c.leaf_w = [6, 2, 4];
            c
        });
        let sugar = src.bool();
        let text = d.print(sugar);
        let lib = match glue::desc_via_str(&d, sugar) {
            Ok(l) => l,
            Err(_) => {
                rep.class("rejected");
                return Ok(());
            }
        };
        if !glue::is_sane(&d) {
            rep.class("not-sane");
            return Ok(());
        }
        let mut world = gen::gen_world(src, &d);
        // the interpreter is given nSequence and nLockTime but not nVersion: BIP68-enabled
        // transactions (version >= 2) are its implicit precondition
        world.tx_version = 2;
        // favour satisfiable worlds: hold all keys and preimages most of the time
        if src.chance(3, 4) {
            for k in d.all_keys() {
                if let Ok(kb) = crate::mirror::encode::key_bytes(&k, d.ctx()) {
                    if let Some(x) = keys::xonly_of(&kb) {
                        world.keys.insert(x);
                    }
                }
            }
            world.preimages = keys::u().preimages.iter().copied().collect();
        }
        let scripts = d.scripts().map_err(|e| Failure { sig: "mirror-encode".into(), msg: e })?;
        let n_inputs = src.range(1, 2);
        let idx = src.below(n_inputs);
        let mut t = make_tx_w(&scripts.spk, &world, n_inputs, idx);
        let sat = sign_real(&d, &world, &t).map_err(|e| Failure { sig: "sign".into(), msg: e })?;
        let mall = src.chance(1, 5);
        let r = if mall { lib.get_satisfaction_mall(&sat) } else { lib.get_satisfaction(&sat) };
        let (wit, ss) = match r {
            Ok(x) => x,
            Err(_) => {
                rep.class("no-satisfaction");
                rep.desc = format!("{} | {}", text, world.describe());
                return Ok(());
            }
        };
        rep.class(format!("kind={}", d.kind()));
        let legacy = matches!(d, MDesc::Bare(_) | MDesc::Pkh(_) | MDesc::Sh(_));
        // stack items under mutation: witness for segwit, scriptSig pushes for legacy
        let mut items: Vec<Vec<u8>> = if legacy { pushes(ss.as_bytes()).ok_or(Failure { sig: "scriptsig-not-push-only".into(), msg: "library scriptSig is not push-only".into() })? } else { wit.clone() };
        let variation = src.below(3);
        let mut var_desc = String::from("unchanged");
        let mut sat_used = sat.clone();
        match variation {
            1 => {
                let n = src.range(1, 3);
                var_desc = String::from("mutations:");
                for _ in 0..n {
                    if items.is_empty() {
                        break;
                    }
                    let mut i = src.below(items.len());
                    let mut choice = src.below(12);
                    if choice >= 9 {
                        // targeted at the elements that select branches / mark absent signatures:
                        // flip an empty element or a 0x01 (over- or under-satisfy a threshold,
                        // take the other branch)
                        let cands: Vec<usize> = (0..items.len()).filter(|j| items[*j].is_empty() || items[*j] == vec![1u8]).collect();
                        if cands.is_empty() {
                            choice = src.below(9);
                        } else {
                            i = *src.pick(&cands);
                            choice = if items[i].is_empty() {
                                if choice == 9 {
                                    4
                                } else {
                                    6
                                }
                            } else {
                                3
                            };
                        }
                    }
                    match choice {
                        0 => {
                            items.remove(i);
                            var_desc.push_str(" drop");
                        }
                        1 => {
                            let x = items[i].clone();
                            items.insert(i, x);
                            var_desc.push_str(" dup");
                        }
                        2 => {
                            let j = src.below(items.len());
                            items.swap(i, j);
                            var_desc.push_str(" swap");
                        }
                        3 => {
                            items[i] = vec![];
                            var_desc.push_str(" empty");
                        }
                        4 => {
                            items[i] = vec![1];
                            var_desc.push_str(" one");
                        }
                        5 => {
                            items[i] = vec![0x42; 32];
                            var_desc.push_str(" junk32");
                        }
                        6 => {
                            // another key's valid signature
                            let mut sigs: Vec<Vec<u8>> = sat.ecdsa.values().map(|s| s.to_vec()).collect();
                            sigs.extend(sat.tap_leaf.values().map(|s| s.to_vec()));
                            sigs.sort();
                            if !sigs.is_empty() {
                                items[i] = src.pick(&sigs).clone();
                                var_desc.push_str(" other-sig");
                            }
                        }
                        7 => {
                            if !items[i].is_empty() {
                                let l = items[i].len();
                                let p = src.below(l);
                                items[i][p] ^= 1 << src.below(8);
                                var_desc.push_str(" bitflip");
                            }
                        }
                        _ => {
                            // change the sighash byte of a signature
                            if items[i].len() >= 64 {
                                let l = items[i].len();
                                if l == 64 {
                                    items[i].push(0x01);
                                } else {
                                    items[i][l - 1] = *src.pick(&[0x02u8, 0x03, 0x81, 0x00, 0x83]);
                                }
                                var_desc.push_str(" sighash-byte");
                            }
                        }
                    }
                }
            }
            2 => {
                // other lock values, signatures re-made
                let (afters, olders) = gen::locks_of(&d.nodes());
                let mut lts = vec![0u32, 1, 499_999_999, 500_000_000, world.lock_time];
                for a in &afters {
                    lts.extend([*a, a.wrapping_sub(1), a + 1, if *a < 500_000_000 { 500_000_000 + a } else { 5 }]);
                }
                let mut sqs = vec![0u32, 0xffff_fffe, 0xffff_ffff, world.sequence];
                for o in &olders {
                    sqs.extend([*o, o.wrapping_sub(1), o + 1, o ^ 0x40_0000, o | 0x8000_0000, o | 0x1_0000]);
                }
                let lt = *src.pick(&lts);
                let sq = *src.pick(&sqs);
                var_desc = format!("locks: nLockTime={} nSequence={:#x}", lt, sq);
                let w2 = World { lock_time: lt, sequence: sq, ..world.clone() };
                t = crate::world::make_tx_v(&scripts.spk, lt, sq, n_inputs, idx, world.tx_version);
                let sat2 = sign_real(&d, &w2, &t).map_err(|e| Failure { sig: "sign".into(), msg: e })?;
                swap_sigs(&mut items, &sat, &sat2);
                sat_used = sat2;
            }
            _ => {}
        }
        let _ = sat_used;
        if legacy {
            t.tx.input[idx].script_sig = ScriptBuf::from_bytes(build_script_sig(&items));
            t.tx.input[idx].witness = Witness::new();
        } else {
            t.tx.input[idx].script_sig = ss.clone();
            t.tx.input[idx].witness = Witness::from_slice(&items);
            // p2sh-wrapped segwit: the scriptSig must be exactly the push of the redeem script
            // (BIP141); now and then put something else next to it, or into a native input
            if variation == 1 && src.chance(1, 4) {
                let mut pushes_ss: Vec<Vec<u8>> = pushes(ss.as_bytes()).unwrap_or_default();
                let extra: Vec<u8> = match src.below(4) {
                    0 => vec![],
                    1 => vec![1],
                    2 => vec![0x42; 4],
                    _ => pushes_ss.first().cloned().unwrap_or_else(|| vec![7]),
                };
                if src.bool() || pushes_ss.is_empty() {
                    pushes_ss.insert(0, extra);
                } else {
                    pushes_ss.push(extra);
                }
                t.tx.input[idx].script_sig = ScriptBuf::from_bytes(build_script_sig(&pushes_ss));
                var_desc.push_str(" scriptsig-extra-push");
            }
        }
        rep.desc = format!("{} | {} | {}", text, world.describe(), var_desc);
        rep.class(format!("variation={}", ["unchanged", "mutated", "locks"][variation]));
        let secp = Secp256k1::verification_only();
        let consensus = verify_input(&t.tx, idx, &t.prevouts, &Flags::CONSENSUS, &secp);
        let interp = run_interpreter(&t)?;
        if let Err(e) = &interp {
            if e.starts_with("INFERRED-DESCRIPTOR-MISMATCH") {
                return fail(&format!("inferred-descriptor/{}", d.kind()), e.clone());
            }
        }
        match (&interp, &consensus) {
            (Err(e), _) if variation == 0 => {
                // (1) completeness on the library's own output
                if consensus.is_ok() {
                    return fail(&format!("rejects-own-satisfaction/{}", d.kind()), format!("the interpreter rejects the library's own satisfaction: {}", e));
                }
                // the satisfaction itself is invalid: C01's subject, not ours
                rep.class("own-satisfaction-invalid");
                Ok(())
            }
            (Ok(conds), Err(e)) => fail(
                &format!("accepts-invalid/{}/{}", d.kind(), crate::checks::c01::err_kind(e)),
                format!("the interpreter accepts (reporting {:?}) a spend that consensus execution rejects: {:?}", conds, e),
            ),
            (Ok(conds), Ok(tr)) => {
                rep.class("accepted");
                let mut got = conds.clone();
                got.sort();
                let want = conds_from_trace(tr);
                if got != want {
                    return fail(
                        &format!("conditions-differ/{}", d.kind()),
                        format!("reported constraints {:?} differ from what the executed path checked {:?}", got, want),
                    );
                }
                // the reported conditions must satisfy the lifted policy
                if let Ok(pol) = lib.lift() {
                    let mp = MPol::from_semantic(&pol);
                    let ctx = d.ctx();
                    // a taproot key-path signature is made by (and reported with) the tweaked
                    // output key; it stands for the internal key of the policy
                    let (internal, output): (Option<Vec<u8>>, Option<Vec<u8>>) = match &d {
                        MDesc::Tr(ik, _) => (crate::mirror::encode::key_bytes(ik, ctx).ok(), Some(scripts.spk[2..].to_vec())),
                        _ => (None, None),
                    };
                    let truth = |a: &Atom| match a {
                        Atom::Key(k) => match crate::mirror::encode::key_bytes(k, ctx) {
                            Ok(kb) => got.iter().any(|c| match c {
                                Cond::Sig(kk, _) => {
                                    keys::xonly_of(kk) == keys::xonly_of(&kb)
                                        || (Some(&kb) == internal.as_ref() && Some(kk) == output.as_ref())
                                }
                                _ => false,
                            }),
                            Err(_) => false,
                        },
                        Atom::Hash(h) => {
                            let hex = h.split(':').nth(1).unwrap_or("");
                            got.iter().any(|c| matches!(c, Cond::Hash(_, d2, _) if keys::hex(d2) == hex))
                        }
                        Atom::After(n) => got.iter().any(|c| matches!(c, Cond::After(m) if m == n)),
                        Atom::Older(n) => got.iter().any(|c| matches!(c, Cond::Older(m) if *m == *n & 0x0040_ffff)),
                    };
                    if !eval_assign(&mp, &truth) {
                        return fail(&format!("conditions-do-not-satisfy-policy/{}", d.kind()), format!("reported constraints {:?} do not satisfy the lifted policy {}", got, pol));
                    }
                }
                if variation != 0 {
                    rep.class("accepted-variation");
                    rep.nontrivial_by(&(&text, world.describe(), &var_desc, &items));
                } else if crate::checks::c01::has_structure(&d) {
                    rep.nontrivial_by(&(&text, world.describe()));
                }
                Ok(())
            }
            (Err(_), Ok(_)) => {
                // the interpreter may be stricter than consensus
                rep.class("stricter-than-consensus");
                Ok(())
            }
            (Err(_), Err(_)) => {
                rep.class("both-reject");
                Ok(())
            }
        }
    }
}

#[allow(dead_code)]
fn unused(_: Sequence, _: absolute::LockTime) {}
