//! C09 — static size and resource figures are true upper bounds.

use crate::checks::c01::pick_kind;
use crate::gen::{self, Cfg, DescKind, KeyStyle};
use crate::glue::{self, Desc, Level, DK};
use crate::keys;
use crate::mdesc::{MDesc, MTree};
use crate::mirror::ast::{b, Node};
use crate::mirror::encode::key_bytes;
use crate::oracle::{self, Path};
use crate::refscript::{varint_len, verify_input, Flags, ScriptError, Trace};
use crate::runner::{fail, Check, Failure, Report, Src, Tier};
use crate::world::{make_tx_w, sign_real, World};
use bitcoin::{ScriptBuf, TxIn, Witness};
use miniscript::descriptor::ShInner;
use miniscript::{Descriptor, Miniscript, ScriptContext};
use secp256k1::Secp256k1;
use std::collections::BTreeSet;

pub struct C09;

/// The same witness with every signature replaced by one of the largest size the library's
/// documented conventions allow for (72 bytes ECDSA incl. sighash byte -- "73 including the push opcode" --, 65 bytes Schnorr with an
/// explicit sighash byte).  The library chooses satisfactions by assumed, not actual, sizes, so
/// it would return the same structure for such signatures; sizes and weights are bounded on it.
fn pad_item(i: &[u8], ecdsa: &BTreeSet<Vec<u8>>, schnorr: &BTreeSet<Vec<u8>>) -> Vec<u8> {
    if ecdsa.contains(i) {
        let mut v = i.to_vec();
        v.resize(72.max(v.len()), 0x01);
        v
    } else if schnorr.contains(i) {
        let mut v = i.to_vec();
        v.resize(65.max(v.len()), 0x01);
        v
    } else {
        i.to_vec()
    }
}

struct Measured {
    /// highest measured/bound ratio over the dimensions (percent)
    tightness: usize,
}

/// Static size figures of every sub-expression against the exact worst case of the canonical
/// (dis)satisfactions listed in the specification's table (`mirror::satsize`).
fn check_static<C: ScriptContext>(ms: &Miniscript<DK, C>, ctx: crate::mirror::spec::Ctx) -> Result<usize, Failure> {
    use crate::mirror::satsize;
    let mut n = 0usize;
    for sub in ms.iter() {
        let node = crate::mirror::ast::from_lib(sub);
        let sd = match satsize::sizes(&node, ctx) {
            Some(x) => x,
            None => continue,
        };
        n += 1;
        // opcodes (pre-taproot): every opcode above OP_16 counts whether executed or not, an
        // executed CHECKMULTISIG adds its key count
        let pre_tap = ctx != crate::mirror::spec::Ctx::Tap;
        let static_mine = if pre_tap { crate::mirror::encode::encode(&node, ctx).ok().and_then(|sc| satsize::count_ops(&sc)) } else { None };
        if let Some(sm) = static_mine {
            for (which, mine, lib) in [("sat", sd.sat, sub.ext.sat_data), ("dissat", sd.dis, sub.ext.dissat_data)] {
                if let (Some(m), Some(l)) = (mine, lib) {
                    if sm + m.mops > sub.ext.static_ops + l.max_exec_op_count {
                        return fail(
                            &format!("static-{}/op-count/{}", which, node.frag_name()),
                            format!("a canonical {}isfaction of {} counts {} opcodes ({} in the script + {} multisig keys), the library's bound is {} static + {} exec", if which == "sat" { "sat" } else { "dissat" }, sub, sm + m.mops, sm, m.mops, sub.ext.static_ops, l.max_exec_op_count),
                        );
                    }
                }
            }
        }
        for (which, mine, lib) in [("sat", sd.sat, sub.ext.sat_data), ("dissat", sd.dis, sub.ext.dissat_data)] {
            let mine = match mine {
                Some(m) => m,
                None => continue,
            };
            let lib = match lib {
                Some(l) => l,
                None => {
                    // `d:`/`j:` children etc.: the library may know better that no witness exists;
                    // only a *typed-dissatisfiable* / satisfiable node must have figures
                    if which == "dissat" && !sub.ty.corr.dissatisfiable {
                        continue;
                    }
                    if which == "sat" {
                        continue;
                    }
                    return fail(&format!("static-{}-missing/{}", which, node.frag_name()), format!("{} is dissatisfiable but has no static dissatisfaction data", sub));
                }
            };
            for (dim, a, b2) in [
                ("witness-bytes", mine.wit, lib.max_witness_stack_size),
                ("witness-elements", mine.elems, lib.max_witness_stack_count),
                ("scriptsig-bytes", mine.ssig, lib.max_script_sig_size),
            ] {
                // scriptSig figures matter before segwit, witness byte figures from segwit on
                let pre_segwit = matches!(ctx, crate::mirror::spec::Ctx::Bare | crate::mirror::spec::Ctx::Legacy);
                if (dim == "scriptsig-bytes" && !pre_segwit) || (dim == "witness-bytes" && pre_segwit) {
                    continue;
                }
                if a > b2 {
                    return fail(
                        &format!("static-{}/{}/{}", which, dim, node.frag_name()),
                        format!("a canonical {}isfaction of {} has {} = {}, the library's bound is {}", if which == "sat" { "sat" } else { "dissat" }, sub, dim, a, b2),
                    );
                }
            }
        }
    }
    Ok(n)
}

/// Lane `canon`: every canonical satisfaction of a random miniscript (enumerated from the
/// specification's table, not chosen by the library's satisfier) is executed with symbolic
/// signatures; opcode count, stack depth and element count of each accepted run are bounded by
/// the static figures.
fn canon_case(src: &mut Src, rep: &mut Report) -> Result<(), Failure> {
    use crate::mirror::canon;
    use crate::mirror::spec::Ctx;
    use crate::refscript::{eval_script, ExecData};
    use bitcoin::hashes::Hash;
    let ctx = *src.pick(&[Ctx::Segwitv0, Ctx::Tap, Ctx::Legacy, Ctx::Bare]);
    let size = src.range(2, 11);
    let mut cfg = if src.bool() { Cfg::new(ctx, size) } else { Cfg::sane(ctx, size) };
    cfg.allow_uncompressed = true;
    cfg.or_boost = *src.pick(&[1, 2, 4]);
    cfg.thresh_boost = *src.pick(&[1, 1, 4]);
    cfg.consistent_locks = true;
    let node = gen::gen_ms(src, &cfg);
    rep.desc = format!("{:?} {}", ctx, crate::mirror::ast::print(&node, true));
    let unit = oracle::unit_of(&node, ctx).map_err(|e| Failure { sig: "mirror-encode".into(), msg: e })?;
    // symbolic signatures of every key; locks at the script's maxima
    let mut world = World { keys: BTreeSet::new(), preimages: keys::u().preimages.iter().copied().collect(), lock_time: 0, sequence: 0xffff_fffe, tx_version: 2 };
    let mut ecdsa = Vec::new();
    let mut leafk = Vec::new();
    for k in node.keys() {
        if let Ok(kb) = key_bytes(&k, ctx) {
            if let Some(x) = keys::xonly_of(&kb) {
                world.keys.insert(x);
            }
            match unit.leaf {
                Some(lh) => {
                    let mut x = [0u8; 32];
                    x.copy_from_slice(&kb);
                    leafk.push((x, lh));
                }
                None => ecdsa.push(kb),
            }
        }
    }
    let (afters, olders) = gen::locks_of(&[&node]);
    if let Some(a) = afters.iter().max() {
        world.lock_time = *a;
    }
    if let Some(o) = gen::sequence_meeting(&olders) {
        world.sequence = o;
    }
    let (sat, checker) = crate::world::sign_symbolic(&world, &ecdsa, &leafk, None);
    let leaf = unit.leaf;
    let sigf = |kb: &[u8]| -> Option<Vec<u8>> {
        match leaf {
            Some(lh) => {
                let mut x = [0u8; 32];
                if kb.len() != 32 {
                    return None;
                }
                x.copy_from_slice(kb);
                sat.tap_leaf.get(&(x, lh)).map(|s| s.to_vec())
            }
            None => sat.ecdsa.get(kb).map(|s| s.to_vec()),
        }
    };
    let env = canon::Env { ctx, sig: &sigf, cap: 24, pkh_dissat: true };
    let sd = match canon::canon(&node, &env) {
        Some(x) => x,
        None => {
            rep.class("canon:not-enumerable");
            return Ok(());
        }
    };
    macro_rules! figures {
        ($c:ty) => {{
            match glue::ms_from_node::<$c>(&node, Level::Insane, true) {
                Ok(ms) => Some((ms.ext.static_ops, ms.ext.sat_data)),
                Err(_) => None,
            }
        }};
    }
    let fig = match ctx {
        Ctx::Bare => figures!(miniscript::BareCtx),
        Ctx::Legacy => figures!(miniscript::Legacy),
        Ctx::Segwitv0 => figures!(miniscript::Segwitv0),
        Ctx::Tap => figures!(miniscript::Tap),
    };
    let (static_ops, sat_data) = match fig {
        Some(x) => x,
        None => {
            rep.class("rejected-by-library");
            return Ok(());
        }
    };
    let mut accepted = 0usize;
    let mut tight = false;
    for st in &sd.sat {
        let mut stack = st.clone();
        let mut trace = Trace::default();
        let mut exec = ExecData { leaf: leaf.map(bitcoin::taproot::TapLeafHash::from_byte_array), annex: None, validation_weight_left: 10_000_000 };
        let r = eval_script(&mut stack, &unit.script, &Flags::CONSENSUS, &checker, unit.sv, &mut exec, &mut trace);
        rep.evals += 1;
        match r {
            Ok(()) if stack.len() == 1 && crate::refscript::cast_to_bool(&stack[0]) => {}
            Ok(()) => {
                return Err(Failure { sig: "harness-panic".into(), msg: format!("canonical satisfaction {:?} of {} leaves {:?}", st.iter().map(|x| keys::hex(x)).collect::<Vec<_>>(), rep.desc, stack.iter().map(|x| keys::hex(x)).collect::<Vec<_>>()) });
            }
            Err(ScriptError::UnsatisfiedLocktime) | Err(ScriptError::NegativeLocktime) => {
                rep.class("canon:lock-unmet");
                continue;
            }
            Err(ScriptError::OpCount) | Err(ScriptError::StackSize) | Err(ScriptError::PushSize) | Err(ScriptError::ScriptSize) | Err(ScriptError::SigCount) | Err(ScriptError::PubkeyCount) => {
                rep.class("canon:over-consensus-limit");
                continue;
            }
            Err(e) => {
                return Err(Failure { sig: "harness-panic".into(), msg: format!("canonical satisfaction {:?} of {} is rejected by the reference interpreter: {:?}", st.iter().map(|x| keys::hex(x)).collect::<Vec<_>>(), rep.desc, e) });
            }
        }
        accepted += 1;
        let sdata = match sat_data {
            Some(x) => x,
            None => return fail(&format!("canon-satisfied-but-no-sat-data/{}", node.frag_name()), format!("{} has the satisfaction {:?} although its static data says none exists", rep.desc, st.iter().map(|x| keys::hex(x)).collect::<Vec<_>>())),
        };
        let (ops, depth) = trace.per_script.last().copied().unwrap_or((trace.op_count, trace.max_stack));
        if ctx != Ctx::Tap && ops > static_ops + sdata.max_exec_op_count {
            return fail(&format!("canon/op-count/{}", node.frag_name()), format!("a canonical satisfaction of {} counts {} opcodes, static bound {} + {} exec; stack {:?}", rep.desc, ops, static_ops, sdata.max_exec_op_count, st.iter().map(|x| x.len()).collect::<Vec<_>>()));
        }
        if depth > sdata.max_witness_stack_count + sdata.max_exec_stack_count {
            return fail(&format!("canon/stack-depth/{}", node.frag_name()), format!("a canonical satisfaction of {} reaches {} stack+altstack elements, static bound {} witness + {} exec; stack {:?}", rep.desc, depth, sdata.max_witness_stack_count, sdata.max_exec_stack_count, st.iter().map(|x| x.len()).collect::<Vec<_>>()));
        }
        if st.len() > sdata.max_witness_stack_count {
            return fail(&format!("canon/witness-elements/{}", node.frag_name()), format!("a canonical satisfaction of {} has {} elements, bound {}", rep.desc, st.len(), sdata.max_witness_stack_count));
        }
        if depth * 10 >= (sdata.max_witness_stack_count + sdata.max_exec_stack_count) * 8 {
            tight = true;
        }
    }
    rep.class(format!("canon:accepted>={}", if accepted >= 8 { 8 } else if accepted >= 2 { 2 } else { accepted }));
    if accepted >= 2 || tight {
        rep.nontrivial_by(&rep.desc.clone());
    }
    Ok(())
}

/// Compare the figures of one miniscript with a satisfaction of it.
fn check_ms<C: ScriptContext>(ms: &Miniscript<DK, C>, items: &[Vec<u8>], tr: &Trace, legacy: bool, tap: bool, what: &str) -> Result<Measured, Failure> {
    let mut tight = 0usize;
    let mut upd = |m: usize, bound: usize| {
        if bound > 0 {
            tight = tight.max(m * 100 / bound);
        }
    };
    // figures of the miniscript's own script (the last one evaluated for the input)
    let (ops, depth) = tr.per_script.last().copied().unwrap_or((tr.op_count, tr.max_stack));
    let enc_len = ms.encode().len();
    if ms.script_size() != enc_len {
        return fail(&format!("script-size/{}", what), format!("script_size() {} != encoded length {} for {}", ms.script_size(), enc_len, ms));
    }
    let sd = match ms.ext.sat_data {
        Some(s) => s,
        None => return fail(&format!("satisfied-but-no-sat-data/{}", what), format!("{} was satisfied although its static data says no satisfaction exists", ms)),
    };
    // number of witness elements (the figure includes the script itself)
    let max_elems = ms.max_satisfaction_witness_elements().map_err(|e| Failure { sig: format!("max-elems-err/{}", what), msg: e.to_string() })?;
    if items.len() + 1 > max_elems {
        return fail(&format!("witness-elements/{}", what), format!("satisfaction of {} has {} elements + script, max_satisfaction_witness_elements() = {}", ms, items.len(), max_elems));
    }
    upd(items.len() + 1, max_elems);
    // size
    let max_size = ms.max_satisfaction_size().map_err(|e| Failure { sig: format!("max-size-err/{}", what), msg: e.to_string() })?;
    let real_size: usize = if legacy {
        // scriptSig bytes of the pushes (without the redeem script)
        items.iter().map(|i| push_len(i)).sum()
    } else {
        items.iter().map(|i| varint_len(i.len()) + i.len()).sum()
    };
    if real_size > max_size {
        return fail(&format!("satisfaction-size/{}", what), format!("satisfaction of {} takes {} bytes, max_satisfaction_size() = {} (items {:?})", ms, real_size, max_size, items.iter().map(|i| i.len()).collect::<Vec<_>>()));
    }
    upd(real_size, max_size);
    // executed opcodes (not in tapscript)
    if !tap {
        let bound = ms.ext.static_ops + sd.max_exec_op_count;
        if ops > bound {
            return fail(&format!("op-count/{}", what), format!("executing a satisfaction of {} counts {} non-push opcodes, static bound {} (+{} exec)", ms, ops, ms.ext.static_ops, sd.max_exec_op_count));
        }
        upd(ops, bound);
    }
    // stack depth
    let sbound = sd.max_witness_stack_count + sd.max_exec_stack_count;
    if depth > sbound {
        return fail(&format!("stack-depth/{}", what), format!("executing a satisfaction of {} reaches {} stack+altstack elements, static bound {} witness + {} exec", ms, depth, sd.max_witness_stack_count, sd.max_exec_stack_count));
    }
    upd(depth, sbound);
    Ok(Measured { tightness: tight })
}

fn push_len(i: &[u8]) -> usize {
    if i.is_empty() || (i.len() == 1 && ((1..=16).contains(&i[0]) || i[0] == 0x81)) {
        1
    } else if i.len() <= 75 {
        1 + i.len()
    } else if i.len() <= 255 {
        2 + i.len()
    } else {
        3 + i.len()
    }
}

fn check_desc(d: &MDesc, lib: &Desc, items: &[Vec<u8>], path: &Path, tr: &Trace, what: &str) -> Result<Measured, Failure> {
    match lib {
        Descriptor::Bare(x) => check_ms(x.as_inner(), items, tr, true, false, what),
        Descriptor::Wsh(x) => check_ms(x.as_inner(), items, tr, false, false, what),
        Descriptor::Sh(s) => match s.as_inner() {
            ShInner::Wsh(w) => check_ms(w.as_inner(), items, tr, false, false, what),
            ShInner::Ms(ms) => check_ms(ms, items, tr, true, false, what),
            _ => Ok(Measured { tightness: 0 }),
        },
        Descriptor::Tr(t) => {
            if let Path::Script(i) = path {
                if let Some(leaf) = t.leaves().nth(*i) {
                    return check_ms(leaf.miniscript(), items, tr, false, true, what);
                }
            }
            let _ = d;
            Ok(Measured { tightness: 0 })
        }
        _ => Ok(Measured { tightness: 0 }),
    }
}

/// Scripts near the limits.
fn stress_desc(src: &mut Src) -> (MDesc, &'static str) {
    let pkx = |i: usize, tap: bool| if tap { keys::key_xonly(i % 12) } else { keys::key_compressed(i % 12) };
    let xk = |i: usize| {
        let per = (keys::N_CHAIN * keys::N_INDEX) as usize;
        keys::key_xpub((i / per) % keys::N_ACCOUNTS, ((i % per) as u32) / keys::N_INDEX, ((i % per) as u32) % keys::N_INDEX, false)
    };
    let key = |i: usize, tap: bool| if i < 12 { pkx(i, tap) } else { xk(i - 12) };
    if src.chance(1, 8) {
        // a small leaf at the bottom of a deep chain (control block of 253+ bytes from depth 7
        // on); the world of this shape holds only that leaf's key, so the spend goes through it
        let depth = src.range(5, 40);
        let mut t = MTree::Leaf(Node::Check(b(Node::PkK(keys::key_xonly(0)))));
        for i in 0..depth {
            let sib = MTree::Leaf(Node::Check(b(Node::PkK(keys::key_xonly(1 + i % 9)))));
            t = if src.bool() { MTree::Branch(Box::new(t), Box::new(sib)) } else { MTree::Branch(Box::new(sib), Box::new(t)) };
        }
        return (MDesc::Tr(keys::key_xonly(11), Some(t)), "deep-small-leaf");
    }
    let kind = *src.pick(&[DescKind::Wsh, DescKind::Wsh, DescKind::Sh, DescKind::ShWsh, DescKind::TrTree]);
    let tap = kind == DescKind::TrTree;
    let pk = |i: usize| Node::Check(b(Node::PkK(key(i, tap))));
    let (node, name): (Node, &'static str) = match src.below(7) {
        0 => {
            let n = src.range(10, 84);
            let k = src.range(1, n);
            let mut subs = vec![pk(0)];
            for i in 1..n {
                subs.push(if src.bool() { Node::Swap(b(pk(i))) } else { Node::Alt(b(pk(i))) });
            }
            (Node::Thresh(k, subs), "wide-thresh")
        }
        1 => {
            // combination of big multisigs
            let m = src.range(2, 9);
            let mut parts = Vec::new();
            for j in 0..m {
                let n = src.range(10, 20);
                let k = src.range(1, n);
                let ks: Vec<String> = (0..n).map(|i| key((j * 20 + i) % 84, tap)).collect();
                parts.push(if tap { Node::MultiA(k, ks) } else { Node::Multi(k, ks) });
            }
            let mut acc = parts.pop().unwrap();
            while let Some(p) = parts.pop() {
                acc = match src.below(3) {
                    0 => Node::AndV(b(Node::Verify(b(p))), b(acc)),
                    1 => Node::OrD(b(p), b(acc)),
                    _ => Node::AndB(b(p), b(Node::Alt(b(acc)))),
                };
            }
            (acc, "multi-combination")
        }
        2 => {
            let n = src.range(20, 70);
            let k = src.range(1, n);
            let ks: Vec<String> = (0..n).map(|i| key(i % 84, true)).collect();
            if tap {
                (Node::MultiA(k, ks), "wide-multi_a")
            } else {
                let n2 = n.min(20);
                (Node::Multi(k.min(n2), ks.into_iter().take(n2).map(|k| if k.len() == 64 { format!("02{}", k) } else { k }).collect()), "multi-20")
            }
        }
        3 => {
            let d = src.range(20, 70);
            let mut acc = pk(0);
            for i in 1..d {
                acc = if src.bool() { Node::OrI(b(pk(i)), b(acc)) } else { Node::OrI(b(acc), b(pk(i))) };
            }
            (acc, "or_i-chain")
        }
        4 => {
            let d = src.range(20, 60);
            let mut acc = Node::Check(b(Node::PkH(key(0, tap))));
            for i in 1..d {
                acc = Node::AndV(b(Node::Verify(b(Node::Check(b(Node::PkH(key(i, tap))))))), b(acc));
            }
            (acc, "pkh-chain")
        }
        5 => {
            let d = src.range(10, 60);
            let mut acc = pk(0);
            for i in 1..d {
                acc = match src.below(3) {
                    0 => Node::AndB(b(acc), b(Node::Alt(b(pk(i))))),
                    1 => Node::OrB(b(acc), b(Node::Alt(b(pk(i))))),
                    _ => Node::AndOr(b(pk(i)), b(acc), b(pk(i + 100))),
                };
            }
            (acc, "and_b-chain")
        }
        _ => {
            // nested thresholds of hashes and keys
            let n = src.range(5, 25);
            let mut subs = vec![pk(0)];
            for i in 1..n {
                let inner = if i % 3 == 0 { Node::Sha256(keys::sha256_of(i % 4)) } else { pk(i) };
                subs.push(Node::Alt(b(inner)));
            }
            let k = src.range(1, n);
            let t = Node::Thresh(k, subs);
            (Node::AndV(b(Node::Verify(b(pk(90)))), b(t)), "thresh-hash-mix")
        }
    };
    let d = match kind {
        DescKind::Sh => MDesc::Sh(node),
        DescKind::ShWsh => MDesc::ShWsh(node),
        DescKind::TrTree => {
            // put the leaf deep in a chain to exercise control-block sizes
            let depth = src.range(0, 30);
            let mut t = MTree::Leaf(node);
            for i in 0..depth {
                let sib = MTree::Leaf(Node::Check(b(Node::PkK(keys::key_xonly((i + 3) % 12)))));
                t = if src.bool() { MTree::Branch(Box::new(t), Box::new(sib)) } else { MTree::Branch(Box::new(sib), Box::new(t)) };
            }
            MDesc::Tr(keys::key_xonly(11), Some(t))
        }
        _ => MDesc::Wsh(node),
    };
    (d, name)
}

impl Check for C09 {
    fn id(&self) -> &'static str { "C09" }
    fn rule(&self) -> String {
        "lane `measure`: random descriptors of every output type (sane and consensus-only scripts, compressed/uncompressed/x-only/xpub keys) x random worlds x {non-malleable, malleable}; lane `static`: random miniscripts (4 contexts, sane and consensus-only): for EVERY sub-expression the library's static sat/dissat figures (witness bytes, witness elements, scriptSig bytes, and pre-taproot static_ops + max_exec_op_count vs opcodes counted in the independently encoded script + keys of executed CHECKMULTISIGs) must be >= the exact worst case over the canonical (dis)satisfactions of the specification's table, computed by an own recursion (thresh by exact DP over which k children are satisfied); lane `canon`: ALL canonical satisfactions of random miniscripts (enumerated from the specification's table by `mirror::canon`, capped at 24 per node keeping the largest) are executed on the reference interpreter with symbolic signatures; opcode count, stack depth and element count of every accepted run are bounded by the static figures (this reaches expensive paths that the satisfier never prefers); lane `stress`: scripts built near each limit (thresholds with 10-84 children, combinations of 10-20-key multisigs, multi_a with 20-70 keys, or_i / pk_h / and_b chains of 20-70 links, threshold/hash mixes, tap leaves up to 30 levels deep, a small leaf at depth 5-40 spent by a signer who holds only its key) x full and partial worlds. Every satisfaction the library produces is put into a real transaction with real signatures and executed by the reference interpreter with a trace; checked: script_size()==encoding length; witness elements+1 <= max_satisfaction_witness_elements(); witness/scriptSig bytes <= max_satisfaction_size() (its stated conventions); txin weight increase (rust-bitcoin segwit_weight/legacy_weight) <= max_weight_to_satisfy(); consensus-counted non-push opcodes <= static_ops+max_exec_op_count; max stack+altstack <= max_witness_stack_count+max_exec_stack_count; and whenever the library accepted the script (default rules resp. consensus rules) the execution passes with standardness resp. consensus limits enforced (201 ops, 1000 stack, 520/80-byte items, 100 items, 3600/10000/520-byte scripts, 1650-byte scriptSig). Non-trivial = a measured value >= 80% of its static bound, or a stress script; distinct by (descriptor, world, mode).".into()
    }
    fn assumptions(&self) -> Vec<String> { vec!["sizes and weights are measured on the executed witness with every signature stretched to the documented worst case (72-byte ECDSA element = 73 with its push, 65-byte Schnorr): the library ranks alternatives by assumed sizes, so the structure is the one it would return for such signatures".into()] }
    fn lanes(&self, tier: Tier) -> Vec<(&'static str, usize, usize)> {
        match tier {
            Tier::Quick => vec![("measure", 80_000, 400), ("stress", 12_000, 200), ("static", 480_000, 300), ("canon", 60_000, 300)],
            Tier::Thorough => vec![("measure", 1_600_000, 500), ("stress", 240_000, 200), ("static", 9_600_000, 400), ("canon", 1_200_000, 400)],
        }
    }
    fn run_case(&self, lane: &str, src: &mut Src, rep: &mut Report) -> Result<(), Failure> {
        if lane == "canon" {
            return canon_case(src, rep);
        }
        if lane == "static" {
            use crate::mirror::spec::Ctx;
            let ctx = *src.pick(&[Ctx::Segwitv0, Ctx::Tap, Ctx::Legacy, Ctx::Bare]);
            let size = src.range(1, 12);
            let mut cfg = if src.bool() { Cfg::new(ctx, size) } else { Cfg::sane(ctx, size) };
            cfg.allow_uncompressed = true;
            cfg.or_boost = *src.pick(&[1, 1, 3]);
            let mut node = gen::gen_ms(src, &cfg);
            if ctx != Ctx::Tap && src.chance(1, 16) {
                // a long run of one-opcode wrappers: scripts around the 201-opcode limit
                let nw = src.range(150, 260);
                for _ in 0..nw {
                    node = Node::ZeroNotEqual(b(node));
                }
            }
            rep.desc = format!("{:?} {}", ctx, crate::mirror::ast::print(&node, true));
            macro_rules! go {
                ($c:ty) => {{
                    match Miniscript::<DK, $c>::from_str_with_validation_params(&crate::mirror::ast::print(&node, true), &miniscript::ValidationParams::MAX) {
                        Ok(ms) => {
                            // what the library declares within the limits must be within them:
                            // the exact worst case over canonical satisfactions is a lower bound
                            // of any correct static figure
                            if ctx != Ctx::Tap {
                                if let (Some(sd), Ok(sc)) = (crate::mirror::satsize::sizes(&node, ctx), crate::mirror::encode::encode(&node, ctx)) {
                                    if let (Some(sat), Some(ops)) = (sd.sat, crate::mirror::satsize::count_ops(&sc)) {
                                        if ops + sat.mops > 201 {
                                            rep.class("static:over-201-ops");
                                            if ms.within_resource_limits() {
                                                return fail(&format!("declared-within-limits/op-count/{:?}", ctx), format!("within_resource_limits() is true for a script whose satisfaction executes {} opcodes (limit 201): {}", ops + sat.mops, rep.desc));
                                            }
                                            use miniscript::policy::Liftable;
                                            if ms.lift().is_ok() {
                                                return fail(&format!("lift-over-limit/{:?}", ctx), format!("lift() succeeds for a script that no witness can spend within the 201-opcode limit ({} opcodes): {}", ops + sat.mops, rep.desc));
                                            }
                                        }
                                    }
                                }
                            }
                            check_static(&ms, ctx)?
                        }
                        Err(_) => {
                            rep.class("rejected-by-library");
                            0
                        }
                    }
                }};
            }
            let n = match ctx {
                Ctx::Bare => go!(miniscript::BareCtx),
                Ctx::Legacy => go!(miniscript::Legacy),
                Ctx::Segwitv0 => go!(miniscript::Segwitv0),
                Ctx::Tap => go!(miniscript::Tap),
            };
            rep.evals = n.max(1) as u64;
            if n >= 3 {
                rep.nontrivial_by(&rep.desc.clone());
            }
            return Ok(());
        }
        let stress = lane == "stress";
        let (d, sname, insane) = if stress {
            let (d, n) = stress_desc(src);
            (d, n, src.bool())
        } else {
            let kind = pick_kind(src);
            let size = src.range(1, 10);
            let insane = src.chance(1, 3);
            let d = gen::gen_desc(src, kind, &|ctx| {
                let mut c = if insane { Cfg::new(ctx, size) } else { Cfg::sane(ctx, size) };
                c.key_style = KeyStyle::Rich;
                c.allow_uncompressed = true;
                c.max_multi_n = 6;
                c.max_thresh_n = 6;
                c.allow_raw_pkh = false;
                c
            });
            (d, "random", insane)
        };
        let text = d.print(true);
        // which rule set did the library accept it under?
        let (lib, sane_accepted) = match glue::desc_via_str(&d, true) {
            Ok(l) if glue::is_sane(&d) => (l, true),
            _ => {
                if !insane {
                    rep.class("rejected");
                    return Ok(());
                }
                match glue::desc_via_ctor(&d, Level::Insane, true) {
                    Ok(l) => (l, false),
                    Err(_) => {
                        rep.class("rejected");
                        return Ok(());
                    }
                }
            }
        };
        rep.class(format!("shape={}", sname));
        rep.class(if sane_accepted { "accepted-sane" } else { "accepted-consensus" });
        let mut world = gen::gen_world(src, &d);
        if stress || src.chance(1, 2) {
            // full world, then drop a few keys (forces more expensive alternatives)
            for k in d.all_keys() {
                if let Ok(kb) = key_bytes(&k, d.ctx()) {
                    if let Some(x) = keys::xonly_of(&kb) {
                        if !src.chance(1, 8) {
                            world.keys.insert(x);
                        }
                    }
                }
            }
            world.preimages = keys::u().preimages.iter().copied().collect();
            let (afters, olders) = gen::locks_of(&d.nodes());
            if let Some(a) = afters.iter().max() {
                world.lock_time = *a;
            }
            if let Some(o) = olders.iter().max() {
                world.sequence = *o;
            }
        }
        if sname == "deep-small-leaf" {
            world.keys.clear();
            if let Ok(kb) = key_bytes(&keys::key_xonly(0), d.ctx()) {
                if let Some(x) = keys::xonly_of(&kb) {
                    world.keys.insert(x);
                }
            }
        }
        let mall = src.chance(1, 3);
        rep.desc = format!("[{}] {} | {} | {}", sname, if text.len() > 400 { &text[..400] } else { &text }, world.describe(), if mall { "mall" } else { "nonmall" });
        let scripts = d.scripts().map_err(|e| Failure { sig: "mirror-encode".into(), msg: e })?;
        let mut t = make_tx_w(&scripts.spk, &world, 1, 0);
        let sat = sign_real(&d, &world, &t).map_err(|e| Failure { sig: "sign".into(), msg: e })?;
        let r = if mall { lib.get_satisfaction_mall(&sat) } else { lib.get_satisfaction(&sat) };
        let (wit, ss) = match r {
            Ok(x) => x,
            Err(_) => {
                rep.class("no-satisfaction");
                return Ok(());
            }
        };
        t.tx.input[0].witness = Witness::from_slice(&wit);
        t.tx.input[0].script_sig = ss.clone();
        let secp = Secp256k1::verification_only();
        let flags = if sane_accepted { Flags::STANDARD } else { Flags::CONSENSUS };
        let tr = match verify_input(&t.tx, 0, &t.prevouts, &flags, &secp) {
            Ok(tr) => tr,
            Err(e) => {
                let limit = matches!(e, ScriptError::OpCount | ScriptError::StackSize | ScriptError::PushSize | ScriptError::ScriptSize | ScriptError::Policy(_) | ScriptError::SigCount | ScriptError::PubkeyCount | ScriptError::TapscriptValidationWeight);
                // the 1650-byte scriptSig relay limit is not part of the validation parameters;
                // the library declares it through within_resource_limits()
                if matches!(e, ScriptError::Policy("scriptsig-size")) {
                    let declared_ok = match &lib {
                        Descriptor::Sh(s) => match s.as_inner() {
                            ShInner::Ms(ms) => ms.within_resource_limits(),
                            _ => true,
                        },
                        Descriptor::Bare(b2) => b2.as_inner().within_resource_limits(),
                        _ => true,
                    };
                    if !declared_ok {
                        rep.class("declared-outside-scriptsig-limit");
                        return Ok(());
                    }
                }
                if limit {
                    return fail(
                        &format!("declared-within-limits/{}/{}", sname, crate::checks::c01::err_kind(&e)),
                        format!("the library accepted the script under its {} rules but executing its own satisfaction hits a limit: {:?}", if sane_accepted { "default" } else { "consensus" }, e),
                    );
                }
                // any other failure is C01's subject
                return fail(&format!("satisfaction-invalid/{}/{}", d.kind(), crate::checks::c01::err_kind(&e)), format!("satisfaction does not validate: {:?}", e));
            }
        };
        // weight bound
        let sig_e: BTreeSet<Vec<u8>> = sat.ecdsa.values().map(|s| s.to_vec()).collect();
        let mut sig_s: BTreeSet<Vec<u8>> = sat.tap_leaf.values().map(|s| s.to_vec()).collect();
        if let Some(k) = &sat.tap_key {
            sig_s.insert(k.to_vec());
        }
        let wit_p: Vec<Vec<u8>> = wit.iter().map(|i| pad_item(i, &sig_e, &sig_s)).collect();
        let ss_p = {
            let mut bld = bitcoin::script::Builder::new();
            let mut ok = true;
            for ins in ss.instructions() {
                match ins {
                    Ok(bitcoin::script::Instruction::PushBytes(pb)) => {
                        let v = pad_item(pb.as_bytes(), &sig_e, &sig_s);
                        match bitcoin::script::PushBytesBuf::try_from(v) {
                            Ok(pbb) => bld = bld.push_slice(pbb),
                            Err(_) => ok = false,
                        }
                    }
                    Ok(bitcoin::script::Instruction::Op(op)) => bld = bld.push_opcode(op),
                    Err(_) => ok = false,
                }
            }
            if ok { bld.into_script() } else { ss.clone() }
        };
        let unsat = TxIn::default();
        let mut satin = TxIn::default();
        satin.script_sig = ss_p.clone();
        satin.witness = Witness::from_slice(&wit_p);
        let segwit = !matches!(d, MDesc::Bare(_) | MDesc::Pkh(_) | MDesc::Sh(_));
        let real_w = if segwit { satin.segwit_weight().to_wu() - unsat.segwit_weight().to_wu() } else { satin.legacy_weight().to_wu() - unsat.legacy_weight().to_wu() };
        let mut tight = 0usize;
        match lib.max_weight_to_satisfy() {
            Ok(w) => {
                if real_w > w.to_wu() {
                    return fail(&format!("max-weight-to-satisfy/{}", d.kind()), format!("the satisfied input weighs {} WU more than an unsatisfied one, max_weight_to_satisfy() = {}", real_w, w.to_wu()));
                }
                if w.to_wu() > 0 {
                    tight = tight.max((real_w * 100 / w.to_wu()) as usize);
                }
            }
            Err(e) => return fail(&format!("max-weight-err/{}", d.kind()), format!("a satisfaction exists but max_weight_to_satisfy() errs: {}", e)),
        }
        // per-miniscript figures
        let us = oracle::units(&d).map_err(|e| Failure { sig: "mirror-encode".into(), msg: e })?;
        if !matches!(d, MDesc::Pkh(_) | MDesc::Wpkh(_) | MDesc::ShWpkh(_)) {
            let (path, items) = oracle::extract_stack(&d, &us, &wit, ss.as_bytes()).map_err(|e| Failure { sig: "malformed-satisfaction".into(), msg: e })?;
            let items: Vec<Vec<u8>> = items.iter().map(|i| pad_item(i, &sig_e, &sig_s)).collect();
            let m = check_desc(&d, &lib, &items, &path, &tr, d.kind())?;
            tight = tight.max(m.tightness);
        }
        rep.class(format!("tightness>={}", (tight / 20) * 20));
        if tight >= 80 || stress {
            rep.nontrivial_by(&(&text, world.describe(), mall));
        }
        let _ = (BTreeSet::<u8>::new(), ScriptBuf::new(), World { keys: Default::default(), preimages: Default::default(), lock_time: 0, sequence: 0, tx_version: 2 });
        Ok(())
    }
}
