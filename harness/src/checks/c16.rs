//! C16 — descriptors map to the standard output scripts, addresses and derived keys.

use crate::checks::c01::pick_kind;
use crate::gen::{self, Cfg, KeyStyle};
use crate::glue;
use crate::keys;
use crate::mdesc::{p2pkh_script, single_push, MDesc};
use crate::mirror::ast::Node;
use crate::mirror::encode::key_bytes;
use crate::runner::{fail, Check, Failure, Report, Src, Tier};
use bitcoin::hashes::{hash160, Hash};
use bitcoin::{Address, Network, ScriptBuf};
use miniscript::{Descriptor, DescriptorPublicKey};
use std::str::FromStr;

pub struct C16;

const NETS: [Network; 4] = [Network::Bitcoin, Network::Testnet, Network::Signet, Network::Regtest];

fn check_definite(d: &MDesc, lib: &glue::Desc, rep: &mut Report) -> Result<(), Failure> {
    let sc = d.scripts().map_err(|e| Failure { sig: "mirror-encode".into(), msg: e })?;
    let kind = d.kind();
    let spk = lib.script_pubkey();
    if spk.as_bytes() != &sc.spk[..] {
        return fail(&format!("spk/{}", kind), format!("script_pubkey {} != standard template from own encoding {}", spk.to_hex_string(), keys::hex(&sc.spk)));
    }
    // explicit script
    let want_explicit: Option<Vec<u8>> = match d {
        MDesc::Bare(_) | MDesc::Pkh(_) | MDesc::Wpkh(_) => Some(sc.spk.clone()),
        MDesc::ShWpkh(_) => sc.redeem.clone(),
        MDesc::Sh(_) => sc.redeem.clone(),
        MDesc::Wsh(_) | MDesc::ShWsh(_) => sc.witness_script.clone(),
        MDesc::Tr(..) => None,
    };
    match (lib.explicit_script(), &want_explicit) {
        (Ok(s), Some(w)) => {
            if s.as_bytes() != &w[..] {
                return fail(&format!("explicit-script/{}", kind), format!("explicit_script {} != {}", s.to_hex_string(), keys::hex(w)));
            }
        }
        (Err(_), None) => {}
        (Ok(s), None) => return fail(&format!("explicit-script/{}", kind), format!("tr has explicit_script {}", s.to_hex_string())),
        (Err(e), Some(_)) => return fail(&format!("explicit-script/{}", kind), format!("explicit_script errs: {}", e)),
    }
    // unsigned scriptSig
    let want_ss: Vec<u8> = match d {
        MDesc::ShWpkh(_) | MDesc::ShWsh(_) => single_push(sc.redeem.as_ref().unwrap()),
        _ => vec![],
    };
    if lib.unsigned_script_sig().as_bytes() != &want_ss[..] {
        return fail(&format!("unsigned-script-sig/{}", kind), format!("unsigned_script_sig {} != {}", lib.unsigned_script_sig().to_hex_string(), keys::hex(&want_ss)));
    }
    // script code (BIP16 / BIP143)
    let want_code: Option<Vec<u8>> = match d {
        MDesc::Bare(_) | MDesc::Pkh(_) => Some(sc.spk.clone()),
        MDesc::Sh(_) => sc.redeem.clone(),
        MDesc::Wpkh(k) | MDesc::ShWpkh(k) => {
            let kb = key_bytes(k, d.ctx()).map_err(|e| Failure { sig: "mirror-encode".into(), msg: e })?;
            Some(p2pkh_script(&hash160::Hash::hash(&kb).to_byte_array()))
        }
        MDesc::Wsh(_) | MDesc::ShWsh(_) => sc.witness_script.clone(),
        MDesc::Tr(..) => None,
    };
    match (lib.script_code(), &want_code) {
        (Ok(s), Some(w)) => {
            if s.as_bytes() != &w[..] {
                return fail(&format!("script-code/{}", kind), format!("script_code {} != {}", s.to_hex_string(), keys::hex(w)));
            }
        }
        (Err(_), None) => {}
        (Ok(s), None) => return fail(&format!("script-code/{}", kind), format!("tr has script_code {}", s.to_hex_string())),
        (Err(e), Some(_)) => return fail(&format!("script-code/{}", kind), format!("script_code errs: {}", e)),
    }
    // the same figures through the per-type accessors
    {
        use miniscript::Descriptor as D;
        let (inner, code, tspk): (Option<ScriptBuf>, Option<ScriptBuf>, ScriptBuf) = match lib {
            D::Bare(x) => (Some(x.inner_script()), Some(x.ecdsa_sighash_script_code()), x.script_pubkey()),
            D::Pkh(x) => (None, Some(x.ecdsa_sighash_script_code()), x.script_pubkey()),
            D::Wpkh(x) => (None, Some(x.ecdsa_sighash_script_code()), x.script_pubkey()),
            D::Sh(x) => (Some(x.inner_script()), Some(x.ecdsa_sighash_script_code()), x.script_pubkey()),
            D::Wsh(x) => (Some(x.inner_script()), Some(x.ecdsa_sighash_script_code()), x.script_pubkey()),
            D::Tr(x) => (None, None, x.script_pubkey()),
        };
        if tspk.as_bytes() != &sc.spk[..] {
            return fail(&format!("typed-spk/{}", kind), format!("<type>::script_pubkey {} != {}", tspk.to_hex_string(), keys::hex(&sc.spk)));
        }
        if let (Some(i), Some(w)) = (&inner, &want_explicit) {
            if i.as_bytes() != &w[..] {
                return fail(&format!("inner-script/{}", kind), format!("<type>::inner_script {} != {}", i.to_hex_string(), keys::hex(w)));
            }
        }
        if let (Some(c), Some(w)) = (&code, &want_code) {
            if c.as_bytes() != &w[..] {
                return fail(&format!("typed-script-code/{}", kind), format!("<type>::ecdsa_sighash_script_code {} != {}", c.to_hex_string(), keys::hex(w)));
            }
        }
    }
    // a descriptor whose script is a top-level sortedmulti: the convenience constructors give
    // the same descriptor (hence the same, key-order independent, output)
    {
        use miniscript::Descriptor as D;
        let top = match d {
            MDesc::Wsh(Node::SortedMulti(k, ks)) => Some((0, *k, ks.clone())),
            MDesc::ShWsh(Node::SortedMulti(k, ks)) => Some((1, *k, ks.clone())),
            MDesc::Sh(Node::SortedMulti(k, ks)) => Some((2, *k, ks.clone())),
            _ => None,
        };
        if let Some((which, k, ks)) = top {
            let dks: Result<Vec<crate::glue::DK>, _> = ks.iter().rev().map(|x| crate::glue::DK::from_str(x)).collect();
            if let Ok(dks) = dks {
                if let Ok(th) = miniscript::Threshold::new(k, dks) {
                    let built = match which {
                        0 => D::new_wsh_sortedmulti(th),
                        1 => D::new_sh_wsh_sortedmulti(th),
                        _ => D::new_sh_sortedmulti(th),
                    };
                    match built {
                        Ok(b2) => {
                            if b2.script_pubkey().as_bytes() != &sc.spk[..] {
                                return fail(&format!("sortedmulti-ctor-spk/{}", kind), format!("the sortedmulti constructor (keys listed in reverse) pays to {} instead of {}", b2.script_pubkey().to_hex_string(), keys::hex(&sc.spk)));
                            }
                            if !b2.to_string().contains("sortedmulti(") {
                                return fail(&format!("sortedmulti-ctor-text/{}", kind), format!("the sortedmulti constructor built {}", b2));
                            }
                        }
                        Err(e) => return fail(&format!("sortedmulti-ctor-rejects/{}", kind), format!("the sortedmulti constructor rejects the keys of an accepted descriptor: {}", e)),
                    }
                }
            }
        }
    }
    // addresses on every network
    for net in NETS {
        let reference = Address::from_script(&ScriptBuf::from_bytes(sc.spk.clone()), net);
        match (lib.address(net), reference) {
            (Ok(a), Ok(r)) => {
                if a != r || a.to_string() != r.to_string() {
                    return fail(&format!("address/{}", kind), format!("address {} != {} on {:?}", a, r, net));
                }
                if a.script_pubkey().as_bytes() != &sc.spk[..] {
                    return fail(&format!("address-spk/{}", kind), format!("address {} does not pay to the descriptor's scriptPubKey", a));
                }
                // parse back
                match Address::from_str(&a.to_string()) {
                    Ok(u) => {
                        if !u.is_valid_for_network(net) {
                            return fail(&format!("address-net/{}", kind), format!("address {} not valid for {:?}", a, net));
                        }
                    }
                    Err(e) => return fail(&format!("address-parse/{}", kind), format!("address {} does not parse: {}", a, e)),
                }
            }
            (Err(_), Err(_)) => {}
            (Ok(a), Err(_)) => return fail(&format!("address/{}", kind), format!("address {} for a script without standard address", a)),
            // documented: bare descriptors have no address (even when the script happens to be
            // a p2pkh template)
            (Err(_), Ok(_)) if matches!(d, MDesc::Bare(_)) => {}
            (Err(e), Ok(r)) => return fail(&format!("address/{}", kind), format!("address() errs ({}) but the output has address {}", e, r)),
        }
    }
    rep.class(format!("kind={}", kind));
    Ok(())
}

/// Turn a definite xpub key text into a template: maybe multipath in the chain step, maybe
/// wildcard in the last step.  Returns the template.
pub fn templatize(k: &str, wild: u8, multi: usize, src: &mut Src) -> String {
    if !k.contains("pub") {
        return k.to_string();
    }
    let mut parts: Vec<String> = k.split('/').map(|s| s.to_string()).collect();
    // parts: [origin..]xpub, c, i   (origin may contain '/' inside brackets!)
    // find the index of the element containing "pub"
    let xi = parts.iter().position(|p| p.contains("pub")).unwrap_or(0);
    if parts.len() < xi + 3 {
        return k.to_string();
    }
    let ci = xi + 1;
    let ii = xi + 2;
    if multi >= 2 {
        let c: u32 = parts[ci].parse().unwrap_or(0);
        let mut alts = vec![c];
        for j in 1..multi {
            // repeated alternatives allowed
            alts.push(if src.chance(1, 6) { c } else { (c + j as u32) % keys::N_CHAIN });
        }
        parts[ci] = format!("<{}>", alts.iter().map(|a| a.to_string()).collect::<Vec<_>>().join(";"));
    }
    match wild {
        1 => parts[ii] = "*".into(),
        2 => parts[ii] = if src.bool() { "*h".into() } else { "*'".into() },
        _ => {}
    }
    parts.join("/")
}

/// Instantiate a template: j-th multipath alternative, wildcard -> index.
fn instantiate(t: &str, alt: usize, index: Option<u32>) -> String {
    let mut out = String::new();
    let mut rest = t;
    while let Some(p) = rest.find('<') {
        out.push_str(&rest[..p]);
        let e = rest[p..].find('>').map(|x| x + p).unwrap_or(rest.len() - 1);
        let alts: Vec<&str> = rest[p + 1..e].split(';').collect();
        out.push_str(alts[alt.min(alts.len() - 1)]);
        rest = &rest[e + 1..];
    }
    out.push_str(rest);
    match index {
        Some(i) => out.replace("/*", &format!("/{}", i)),
        None => out,
    }
}

/// Lane `secret`: a descriptor written with an extended PRIVATE key (hardened and normal steps in
/// any order) is parsed with `Descriptor::parse_descriptor`; the public descriptor it returns
/// must pay, at every index, to the key that rust-bitcoin's BIP32 derives from the private key
/// along the written path.
fn secret_case(src: &mut Src, rep: &mut Report) -> Result<(), Failure> {
    use bitcoin::bip32::ChildNumber;
    let u = keys::u();
    let secp = secp256k1::Secp256k1::new();
    let a = src.below(keys::N_ACCOUNTS);
    let xprv = u.accounts[a].1;
    let n = src.range(0, 4);
    let mut steps: Vec<ChildNumber> = Vec::new();
    let mut text = xprv.to_string();
    for _ in 0..n {
        let v = src.range(0, 9) as u32;
        let hardened = src.chance(1, 3);
        steps.push(if hardened { ChildNumber::from_hardened_idx(v).unwrap() } else { ChildNumber::from_normal_idx(v).unwrap() });
        text.push_str(&format!("/{}{}", v, if hardened { *src.pick(&["'", "h"]) } else { "" }));
    }
    let wildcard = src.chance(2, 3);
    if wildcard {
        text.push_str("/*");
    }
    let origin = src.chance(1, 3);
    if origin {
        text = format!("[{}/1'/2]{}", keys::master_fingerprint(), text);
    }
    let wrapper = src.below(3);
    let dtext = match wrapper {
        0 => format!("wpkh({})", text),
        1 => format!("pkh({})", text),
        _ => format!("wsh(pk({}))", text),
    };
    rep.desc = dtext.clone();
    let (desc, keymap) = match Descriptor::<DescriptorPublicKey>::parse_descriptor(&secp, &dtext) {
        Ok(x) => x,
        Err(e) => return fail("secret-descriptor-rejected", format!("`{}` is rejected: {}", dtext, e)),
    };
    if keymap.len() != 1 {
        return fail("secret-keymap", format!("`{}`: key map has {} entries", dtext, keymap.len()));
    }
    let idx = if wildcard { *src.pick(&[0u32, 1, 7, 1000, 0x7fff_ffff]) } else { 0 };
    let mut path = steps.clone();
    if wildcard {
        path.push(ChildNumber::from_normal_idx(idx).unwrap());
    }
    let want_sk = xprv.derive_priv(&secp, &path).map_err(|e| Failure { sig: "bip32".into(), msg: e.to_string() })?;
    let want_pk = bitcoin::PublicKey::new(want_sk.private_key.public_key(&secp));
    let def = match desc.at_derivation_index(idx) {
        Ok(d) => d,
        Err(e) => return fail("secret-derive-fails", format!("`{}` at index {}: {}", dtext, idx, e)),
    };
    let want_spk = match wrapper {
        0 => bitcoin::ScriptBuf::new_p2wpkh(&want_pk.wpubkey_hash().map_err(|e| Failure { sig: "key".into(), msg: e.to_string() })?),
        1 => bitcoin::ScriptBuf::new_p2pkh(&want_pk.pubkey_hash()),
        _ => {
            let mut ws = Vec::new();
            crate::mirror::encode::push_bytes(&mut ws, &want_pk.to_bytes());
            ws.push(0xac);
            bitcoin::ScriptBuf::from_bytes(crate::mdesc::p2wsh_spk(&ws))
        }
    };
    if def.script_pubkey() != want_spk {
        return fail(
            "secret-to-public-derives-other-key",
            format!("`{}` at index {} pays to {} but BIP32 derivation of the private key along the written path gives {}", dtext, idx, def.script_pubkey().to_hex_string(), want_spk.to_hex_string()),
        );
    }
    // the key map entry is the written secret key
    for (pk, sk) in keymap.into_iter() {
        if sk.to_string().replace('h', "'") != text.replace('h', "'") {
            return fail("secret-keymap-entry", format!("key map holds `{}` for `{}`", sk, text));
        }
        match sk.to_public(&secp) {
            Ok(p2) if p2 == pk => {}
            other => return fail("secret-keymap-public", format!("to_public() of the key map entry is {:?}, the descriptor holds {}", other.map(|x| x.to_string()), pk)),
        }
    }
    let mixed = steps.iter().any(|c| c.is_hardened()) && steps.iter().any(|c| c.is_normal());
    rep.class(if mixed { "secret:mixed-steps" } else { "secret:uniform-steps" });
    if n >= 2 && mixed {
        rep.nontrivial_by(&(dtext, idx));
    }
    Ok(())
}

impl Check for C16 {
    fn id(&self) -> &'static str { "C16" }
    fn rule(&self) -> String {
        "lane `definite`: descriptors of every output type (hex keys in every legal form, definite xpub keys with/without origin): script_pubkey == own standard template over the independently encoded explicit script; explicit_script, unsigned_script_sig, script_code per BIP16/143 tables, and the per-type accessors (Bare/Pkh/Wpkh/Sh/Wsh/Tr ::script_pubkey, inner_script, ecdsa_sighash_script_code) give the same bytes; address(net) == rust-bitcoin Address::from_script on 4 networks and pays to the spk; sortedmulti: a random permutation of the keys gives the same spk, and Descriptor::new_{wsh,sh_wsh,sh}_sortedmulti with the keys listed in reverse gives the same output. lane `derive`: the same descriptors with xpub keys turned into wildcard templates: derive_at_index / at_derivation_index / derived_descriptor / find_derivation_index_for_spk agree with `substitute the index in the text, parse, own BIP32 CKDpub`; index >= 2^31 and hardened wildcards are errors. lane `multipath`: templates with <a;b;..> steps (2-4 alternatives, repeats allowed): into_single_descriptors()[j] == parse(text with the j-th alternative), mismatched lengths are errors. Non-trivial = descriptor with a derived key or a wrapped output type; distinct by (text, index).".into()
    }
    fn lanes(&self, tier: Tier) -> Vec<(&'static str, usize, usize)> {
        match tier {
            Tier::Quick => vec![("definite", 160_000, 300), ("derive", 120_000, 300), ("multipath", 80_000, 300), ("secret", 40_000, 100)],
            Tier::Thorough => vec![("definite", 3_200_000, 400), ("derive", 2_400_000, 400), ("multipath", 1_600_000, 400), ("secret", 800_000, 100)],
        }
    }
    fn run_case(&self, lane: &str, src: &mut Src, rep: &mut Report) -> Result<(), Failure> {
        if lane == "secret" {
            return secret_case(src, rep);
        }
        let kind = pick_kind(src);
        let size = src.range(1, 6);
        let d = gen::gen_desc(src, kind, &|ctx| {
            let mut c = Cfg::sane(ctx, size);
            c.key_style = KeyStyle::Rich;
            c.allow_uncompressed = true;
            c.max_multi_n = 5;
            if lane != "definite" {
                c.xpub_chance = 2;
            }
            c
        });
        // now and then a plain top-level sortedmulti (the wallet multisig template)
        let d = if src.chance(1, 10) {
            let n = src.range(1, 5);
            let k = src.range(1, n);
            let mut ks: Vec<String> = Vec::new();
            let mut tries = 0;
            while ks.len() < n && tries < 40 {
                tries += 1;
                let i = (src.below(12) + tries) % 12;
                let kt = if src.chance(1, 2) { keys::key_compressed(i) } else { keys::key_xpub(src.below(3), src.below(3) as u32, src.below(8) as u32, src.bool()) };
                if !ks.contains(&kt) {
                    ks.push(kt);
                }
            }
            let k = k.min(ks.len()).max(1);
            match src.below(3) {
                0 => MDesc::Wsh(Node::SortedMulti(k, ks)),
                1 => MDesc::ShWsh(Node::SortedMulti(k, ks)),
                _ => MDesc::Sh(Node::SortedMulti(k, ks)),
            }
        } else {
            d
        };
        let sugar = src.bool();
        if lane == "definite" {
            let text = d.print(sugar);
            rep.desc = text.clone();
            let lib = match glue::desc_via_str(&d, sugar) {
                Ok(l) => l,
                Err(_) => {
                    rep.class("rejected-by-library");
                    return Ok(());
                }
            };
            check_definite(&d, &lib, rep)?;
            // sortedmulti: permute keys
            let mut has_sorted = false;
            for n in d.nodes() {
                n.walk(&mut |x| {
                    if matches!(x, Node::SortedMulti(..) | Node::SortedMultiA(..)) {
                        has_sorted = true;
                    }
                });
            }
            if has_sorted {
                fn permute(n: &Node, src: &mut Src) -> Node {
                    match n {
                        Node::SortedMulti(k, ks) | Node::SortedMultiA(k, ks) => {
                            let mut v = ks.clone();
                            for i in (1..v.len()).rev() {
                                let j = src.below(i + 1);
                                v.swap(i, j);
                            }
                            if matches!(n, Node::SortedMulti(..)) {
                                Node::SortedMulti(*k, v)
                            } else {
                                Node::SortedMultiA(*k, v)
                            }
                        }
                        other => {
                            let mut o = other.clone();
                            for c in o.children_mut() {
                                *c = permute(c, src);
                            }
                            o
                        }
                    }
                }
                let d2 = match &d {
                    MDesc::Bare(n) => MDesc::Bare(permute(n, src)),
                    MDesc::Sh(n) => MDesc::Sh(permute(n, src)),
                    MDesc::Wsh(n) => MDesc::Wsh(permute(n, src)),
                    MDesc::ShWsh(n) => MDesc::ShWsh(permute(n, src)),
                    MDesc::Tr(k, Some(t)) => {
                        fn pt(t: &crate::mdesc::MTree, src: &mut Src) -> crate::mdesc::MTree {
                            match t {
                                crate::mdesc::MTree::Leaf(n) => crate::mdesc::MTree::Leaf(permute(n, src)),
                                crate::mdesc::MTree::Branch(a, b) => {
                                    let a2 = pt(a, src);
                                    crate::mdesc::MTree::Branch(Box::new(a2), Box::new(pt(b, src)))
                                }
                            }
                        }
                        MDesc::Tr(k.clone(), Some(pt(t, src)))
                    }
                    o => o.clone(),
                };
                if let Ok(lib2) = glue::desc_via_str(&d2, sugar) {
                    if lib2.script_pubkey() != lib.script_pubkey() {
                        return fail("sortedmulti-order-dependent", format!("{} and {} have different scriptPubKeys", text, d2.print(sugar)));
                    }
                    rep.class("sortedmulti-permuted");
                }
            }
            if !matches!(d, MDesc::Pkh(_) | MDesc::Wpkh(_)) || text.contains("pub") {
                rep.nontrivial_by(&text);
            }
            return Ok(());
        }
        // templates
        let wild_mode = if lane == "derive" { *src.pick(&[1u8, 1, 1, 2, 0]) } else { *src.pick(&[0u8, 1]) };
        let multi = if lane == "multipath" { src.range(2, 4) } else { 0 };
        let mismatch = lane == "multipath" && src.chance(1, 4);
        let mut count = 0usize;
        let mut n_templ = 0usize;
        let t = {
            let mut srcs: Vec<String> = Vec::new();
            let dd = d.map_keys(&mut |k| {
                count += 1;
                let m = if multi >= 2 && mismatch && count == 2 { multi + 1 } else { multi };
                let r = templatize(k, wild_mode, m, src);
                if r != k {
                    n_templ += 1;
                }
                srcs.push(r.clone());
                r
            });
            dd
        };
        let text = t.print(sugar);
        rep.desc = text.clone();
        if n_templ == 0 {
            rep.class("no-extended-key");
            return Ok(());
        }
        let lib = match Descriptor::<DescriptorPublicKey>::from_str(&text) {
            Ok(l) => l,
            Err(_) => {
                rep.class("rejected-by-library");
                return Ok(());
            }
        };
        let secp = secp256k1::Secp256k1::verification_only();
        if lane == "derive" {
            let index = *src.pick(&[0u32, 1, 5, 7, 0x7fff_ffff, 0x8000_0000, 0xffff_ffff]);
            rep.desc = format!("{} @ {}", text, index);
            let expect_err = index >= 0x8000_0000 || wild_mode == 2;
            let r1 = if wild_mode == 0 { lib.derive_at_index(index).or_fallback() } else { lib.derive_at_index(index).into_result() };
            let r2 = lib.derived_descriptor(&secp, index);
            if expect_err {
                if wild_mode != 0 {
                    if r1.is_ok() && wild_mode != 2 {
                        return fail("derive-accepts-bad-index", format!("derive_at_index({}) succeeded on {}", index, text));
                    }
                    if r2.is_ok() {
                        return fail("derived-descriptor-accepts-bad", format!("derived_descriptor({}) succeeded on {} (hardened step or index >= 2^31 cannot be derived from a public key)", index, text));
                    }
                }
                rep.class("expected-error");
                rep.nontrivial_by(&(&text, index));
                return Ok(());
            }
            let inst = t.map_keys(&mut |k| instantiate(k, 0, if wild_mode == 1 { Some(index) } else { None }));
            let sc = match inst.scripts() {
                Ok(s) => s,
                Err(e) => return fail("mirror-encode", e),
            };
            match r1 {
                Ok(def) => {
                    if def.script_pubkey().as_bytes() != &sc.spk[..] {
                        return fail(&format!("derive-spk/{}", t.kind()), format!("derive_at_index({}) gives spk {} but own BIP32 derivation gives {}", index, def.script_pubkey().to_hex_string(), keys::hex(&sc.spk)));
                    }
                    check_definite(&inst, &def, rep)?;
                }
                Err(e) => return fail("derive-fails", format!("derive_at_index({}) failed on {}: {}", index, text, e)),
            }
            match r2 {
                Ok(dd) => {
                    if dd.script_pubkey().as_bytes() != &sc.spk[..] {
                        return fail(&format!("derived-descriptor-spk/{}", t.kind()), format!("derived_descriptor({}) gives spk {} vs {}", index, dd.script_pubkey().to_hex_string(), keys::hex(&sc.spk)));
                    }
                }
                Err(e) => return fail("derived-descriptor-fails", format!("derived_descriptor({}) failed on {}: {}", index, text, e)),
            }
            if index < 8 {
                match lib.find_derivation_index_for_spk(&secp, bitcoin::Script::from_bytes(&sc.spk), 0..8) {
                    Ok(Some((i, dd))) => {
                        if dd.script_pubkey().as_bytes() != &sc.spk[..] || (wild_mode == 1 && i > index) {
                            return fail("find-index", format!("find_derivation_index_for_spk returned index {} for the spk of index {}", i, index));
                        }
                    }
                    other => return fail("find-index-none", format!("find_derivation_index_for_spk did not find the spk of index {} in 0..8: {:?}", index, other.map(|o| o.map(|x| x.0)))),
                }
            }
            // a search range that does not start at 0: the reported index is the derivation
            // index, and deriving at it gives the spk again
            if wild_mode == 1 && index >= 1 && index < 0x7fff_fff0 {
                let lo = index - src.below(4.min(index as usize) + 1) as u32;
                let hi = index + 1 + src.below(3) as u32;
                match lib.find_derivation_index_for_spk(&secp, bitcoin::Script::from_bytes(&sc.spk), lo..hi) {
                    Ok(Some((i, dd))) => {
                        let again = lib.at_derivation_index(i).map(|d| d.script_pubkey());
                        if i < lo || i >= hi || dd.script_pubkey().as_bytes() != &sc.spk[..] || again.as_ref().map(|x| x.as_bytes()).ok() != Some(&sc.spk[..]) {
                            return fail("find-index-range", format!("find_derivation_index_for_spk(spk of index {}, {}..{}) reports index {}; deriving there gives {:?}", index, lo, hi, i, again.map(|x| x.to_hex_string())));
                        }
                    }
                    other => return fail("find-index-none", format!("find_derivation_index_for_spk did not find the spk of index {} in {}..{}: {:?}", index, lo, hi, other.map(|o| o.map(|x| x.0)))),
                }
            }
            rep.nontrivial_by(&(&text, index));
            return Ok(());
        }
        // multipath lane
        let singles = lib.clone().into_single_descriptors();
        // number of alternatives per templated key
        let mut alt_counts: Vec<usize> = Vec::new();
        t.map_keys(&mut |k| {
            if let (Some(a), Some(b2)) = (k.find('<'), k.find('>')) {
                alt_counts.push(k[a + 1..b2].split(';').count());
            }
            k.to_string()
        });
        let mismatch = alt_counts.iter().any(|c| *c != alt_counts[0]);
        let multi = alt_counts.first().copied().unwrap_or(1);
        if mismatch {
            // lengths differ between keys => must be an error (also at parse time: either is fine)
            if let Ok(v) = &singles {
                if v.len() > 1 {
                    return fail("multipath-mismatch-accepted", format!("into_single_descriptors accepted mismatched multipath lengths in {}", text));
                }
            }
            rep.class("mismatch");
            rep.nontrivial_by(&text);
            return Ok(());
        }
        let v = match singles {
            Ok(v) => v,
            Err(e) => return fail("multipath-split-fails", format!("into_single_descriptors failed on {}: {}", text, e)),
        };
        if v.len() != multi {
            return fail("multipath-count", format!("{} alternatives but {} descriptors from {}", multi, v.len(), text));
        }
        for (j, dj) in v.iter().enumerate() {
            let want = t.map_keys(&mut |k| instantiate(k, j, None));
            let want_text = want.print(sugar);
            let got_m = glue::mdesc_from_lib(dj).map_err(|e| Failure { sig: "mdesc".into(), msg: e })?;
            if got_m != want {
                return fail("multipath-alternative-mirror", format!("alternative {} of {} is {} but selecting the alternative in the text gives {}", j, text, dj, want_text));
            }
            let parsed = match Descriptor::<DescriptorPublicKey>::from_str(&want_text) {
                Ok(p) => p,
                Err(_) => {
                    // e.g. two keys that differed only in the replaced step are now duplicates
                    rep.class("alternative-not-sane");
                    continue;
                }
            };
            let want_m = glue::mdesc_from_lib(&parsed).map_err(|e| Failure { sig: "mdesc".into(), msg: e })?;
            if got_m != want_m || dj.to_string() != parsed.to_string() {
                return fail("multipath-alternative", format!("alternative {} of {} is {} but selecting the alternative in the text gives {}", j, text, dj, parsed));
            }
        }
        rep.nontrivial_by(&text);
        Ok(())
    }
}
