//! Seed corpora for the raw libFuzzer targets, produced by the same generators the checks use.

use crate::gen::{self, Cfg, KeyStyle, PolCfg};
use crate::mirror::ast;
use crate::mirror::encode::encode;
use crate::mirror::spec::Ctx;
use crate::runner::Src;

pub fn write(verif_dir: &str) -> i32 {
    let tdir = format!("{}/corpus/parse_all", verif_dir);
    let sdir = format!("{}/corpus/decode_script", verif_dir);
    let _ = std::fs::create_dir_all(&tdir);
    let _ = std::fs::create_dir_all(&sdir);
    let mut n = 0;
    for i in 0..120u32 {
        // deterministic pseudo-random stream
        let mut x = 0x9e37_79b9u32.wrapping_mul(i + 1);
        let v: Vec<u16> = (0..300)
            .map(|_| {
                x ^= x << 13;
                x ^= x >> 17;
                x ^= x << 5;
                (x >> 8) as u16
            })
            .collect();
        let mut src = Src::new(&v);
        let ctx = *src.pick(&[Ctx::Segwitv0, Ctx::Tap, Ctx::Legacy, Ctx::Bare]);
        let size = src.range(1, 9);
        let text = match i % 4 {
            0 => {
                let kind = crate::checks::c01::pick_kind(&mut src);
                let d = gen::gen_desc(&mut src, kind, &|c| {
                    let mut cfg = Cfg::sane(c, size);
                    cfg.key_style = KeyStyle::Rich;
                    cfg
                });
                d.print(i % 8 < 4)
            }
            1 => {
                let mut cfg = Cfg::new(ctx, size);
                cfg.legacy_restrict = false;
                let node = gen::gen_ms(&mut src, &cfg);
                let mut k = 0;
                ast::print(&node.map_keys(&mut |_| {
                    k += 1;
                    format!("K{}", k % 4)
                }), true)
            }
            2 => {
                let cfg = PolCfg { max_leaves: 6, allow_const: true, distinct_keys: false, key_hex_ctx: Ctx::Segwitv0, named_keys: true, consistent_locks: false, max_weight: 9, allow_thresh: true, binary: true };
                gen::gen_policy(&mut src, &cfg).print()
            }
            _ => crate::checks::c10::key_forms(&mut src),
        };
        if std::fs::write(format!("{}/seed-{:03}", tdir, i), text).is_ok() {
            n += 1;
        }
        let mut cfg = Cfg::new(ctx, size);
        cfg.allow_uncompressed = true;
        let node = gen::gen_ms(&mut src, &cfg);
        if let Ok(s) = encode(&node, ctx) {
            let _ = std::fs::write(format!("{}/seed-{:03}", sdir, i), s);
        }
    }
    println!("wrote {} text seeds to {} and script seeds to {}", n, tdir, sdir);
    0
}
