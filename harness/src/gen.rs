//! Constructive, typed generators over the choice stream.

use crate::keys;
use crate::mdesc::{MDesc, MTree};
use crate::mirror::ast::{b, Node};
use crate::mirror::spec::{self, Ctx, T};
use crate::runner::Src;
use crate::world::World;
use std::collections::BTreeSet;

#[derive(Clone, Copy, Debug, PartialEq, Eq)]
pub enum KeyStyle {
    /// compressed hex outside tapscript, x-only hex inside
    Hex,
    /// hex (all legal forms for the context) and definite xpub keys with / without origin
    Rich,
}

#[derive(Clone, Debug)]
pub struct Cfg {
    pub ctx: Ctx,
    pub size: usize,
    /// avoid `d:` and `or_i` in Bare/Legacy (banned by those contexts' consensus parameters)
    pub legacy_restrict: bool,
    pub distinct_keys: bool,
    pub key_style: KeyStyle,
    pub allow_uncompressed: bool,
    pub allow_raw_pkh: bool,
    pub allow_const: bool,
    pub allow_sorted: bool,
    pub max_thresh_n: usize,
    pub max_multi_n: usize,
    /// all time locks of one unit per kind (avoids mixed-lock scripts)
    pub consistent_locks: bool,
    /// weights: key leaf, hash leaf, time leaf
    pub leaf_w: [u32; 3],
    /// chance (out of 3) that a key is an extended key (only with KeyStyle::Rich)
    pub xpub_chance: usize,
    /// lock values beyond the small boundary set (any height / time; BIP68-ignored bits set)
    pub wide_locks: bool,
    /// occasionally (1/12) a multisig with up to this many keys (0 = never)
    pub big_multi_n: usize,
    /// multiplier for the weights of or_b / or_d / or_c / or_i / andor (1 = neutral)
    pub or_boost: u32,
    /// multiplier for the weight of thresh
    pub thresh_boost: u32,
    /// constructive sanity: top-level candidates are re-drawn (up to `top_tries` times) until
    /// the specification types them with `top_props` (e.g. S | M); a candidate that only lacks
    /// S is put behind a signature guard `and_v(v:pk(K),X)`
    pub top_props: T,
    pub top_tries: usize,
    /// chance (n out of 10) that a "time" leaf is a constant 0/1 instead (needs allow_const)
    pub const_chance: usize,
    /// successive locks of one kind alternate between the height and the time unit (scripts
    /// with two locks of a kind then mix units)
    pub alternate_units: bool,
}

impl Cfg {
    pub fn new(ctx: Ctx, size: usize) -> Cfg {
        Cfg {
            ctx,
            size,
            legacy_restrict: true,
            distinct_keys: false,
            key_style: KeyStyle::Hex,
            allow_uncompressed: false,
            allow_raw_pkh: false,
            allow_const: true,
            allow_sorted: true,
            max_thresh_n: 4,
            max_multi_n: 4,
            consistent_locks: false,
            leaf_w: [6, 2, 2],
            xpub_chance: 1,
            wide_locks: true,
            big_multi_n: 20,
            or_boost: 1,
            thresh_boost: 1,
            top_props: 0,
            top_tries: 1,
            const_chance: 2,
            alternate_units: false,
        }
    }
    pub fn sane(ctx: Ctx, size: usize) -> Cfg {
        let mut c = Cfg::new(ctx, size);
        c.distinct_keys = true;
        c.consistent_locks = true;
        c.allow_const = false;
        c.leaf_w = [8, 2, 2];
        c.top_props = spec::S | spec::M;
        c.top_tries = 3;
        c
    }
}

pub const N_POOL: usize = keys::N_SINGLE + keys::N_ACCOUNTS * (keys::N_CHAIN as usize) * (keys::N_INDEX as usize);

pub struct State {
    pub used: BTreeSet<usize>,
    pub abs_time: Option<bool>,
    pub rel_time: Option<bool>,
    /// lock values already used in this script (re-used with chance 1/3: equal locks on one path)
    pub afters: Vec<u32>,
    pub olders: Vec<u32>,
}

impl State {
    pub fn new() -> State { State { used: BTreeSet::new(), abs_time: None, rel_time: None, afters: Vec::new(), olders: Vec::new() } }
}

/// Key text for pool index `i`.
pub fn key_text(src: &mut Src, cfg: &Cfg, i: usize) -> String {
    if i < keys::N_SINGLE {
        match cfg.ctx {
            Ctx::Tap => {
                if cfg.key_style == KeyStyle::Rich && src.chance(1, 4) {
                    keys::key_compressed(i)
                } else {
                    keys::key_xonly(i)
                }
            }
            Ctx::Segwitv0 => keys::key_compressed(i),
            _ => {
                if cfg.allow_uncompressed && src.chance(1, 4) {
                    keys::key_uncompressed(i)
                } else {
                    keys::key_compressed(i)
                }
            }
        }
    } else {
        let j = i - keys::N_SINGLE;
        let per = (keys::N_CHAIN * keys::N_INDEX) as usize;
        let a = j / per;
        let c = ((j % per) as u32) / keys::N_INDEX;
        let ix = ((j % per) as u32) % keys::N_INDEX;
        keys::key_xpub(a, c, ix, src.bool())
    }
}

pub fn pick_key(src: &mut Src, cfg: &Cfg, st: &mut State) -> String {
    let pool = if cfg.key_style == KeyStyle::Rich { N_POOL } else { keys::N_SINGLE };
    let wide = cfg.key_style == KeyStyle::Rich && src.chance(cfg.xpub_chance.min(3), 3);
    let mut i = if wide { keys::N_SINGLE + src.below(pool - keys::N_SINGLE) } else { src.below(keys::N_SINGLE.min(8)) };
    if cfg.distinct_keys {
        let mut tries = 0;
        while st.used.contains(&i) && tries < pool {
            i = (i + 1) % pool;
            tries += 1;
        }
        st.used.insert(i);
    }
    key_text(src, cfg, i)
}

pub const AFTER_HEIGHTS: [u32; 6] = [1, 2, 3, 100, 5000, 499_999_999];
pub const AFTER_TIMES: [u32; 3] = [500_000_000, 1_600_000_000, 0x7fff_ffff];
pub const OLDER_HEIGHTS: [u32; 5] = [1, 2, 3, 144, 65_535];
pub const OLDER_TIMES: [u32; 3] = [0x40_0001, 0x40_0090, 0x40_ffff];

fn gen_after(src: &mut Src, cfg: &Cfg, st: &mut State) -> Node {
    if !st.afters.is_empty() && src.chance(1, 3) {
        return Node::After(*src.pick(&st.afters));
    }
    let n = gen_after_new(src, cfg, st);
    if let Node::After(v) = n {
        st.afters.push(v);
    }
    n
}
fn gen_after_new(src: &mut Src, cfg: &Cfg, st: &mut State) -> Node {
    let mut time = src.chance(1, 3);
    if cfg.alternate_units {
        time = !st.abs_time.unwrap_or(time);
        st.abs_time = Some(time);
    }
    if cfg.consistent_locks {
        match st.abs_time {
            Some(t) => time = t,
            None => st.abs_time = Some(time),
        }
    }
    if cfg.wide_locks && !time && src.chance(1, 8) {
        // where the script-number encoding changes width (OP_16 / 1 / 2 / 3 / 4 bytes)
        return Node::After(*src.pick(&[16u32, 17, 0x7f, 0x80, 0xff, 0x100, 0x7fff, 0x8000, 0xffff, 0x1_0000, 0x7f_ffff, 0x80_0000]));
    }
    if cfg.wide_locks && src.chance(1, 4) {
        // any value of the unit's range
        let v = if time { 500_000_000 + src.u32() % (0x8000_0000 - 500_000_000) } else { 1 + src.u32() % 499_999_999 };
        return Node::After(v);
    }
    Node::After(if time { *src.pick(&AFTER_TIMES) } else { *src.pick(&AFTER_HEIGHTS) })
}
fn gen_older(src: &mut Src, cfg: &Cfg, st: &mut State) -> Node {
    if !st.olders.is_empty() && src.chance(1, 3) {
        return Node::Older(*src.pick(&st.olders));
    }
    let n = gen_older_new(src, cfg, st);
    if let Node::Older(v) = n {
        st.olders.push(v);
    }
    n
}
fn gen_older_new(src: &mut Src, cfg: &Cfg, st: &mut State) -> Node {
    let mut time = src.chance(1, 3);
    if cfg.alternate_units {
        time = !st.rel_time.unwrap_or(time);
        st.rel_time = Some(time);
    }
    if cfg.consistent_locks {
        match st.rel_time {
            Some(t) => time = t,
            None => st.rel_time = Some(time),
        }
    }
    if cfg.wide_locks && !time && src.chance(1, 8) {
        // where the script-number encoding changes width
        return Node::Older(*src.pick(&[16u32, 17, 0x7f, 0x80, 0xff, 0x100, 0x7fff, 0x8000, 0xffff, 0x1_7fff, 0x1_8000]));
    }
    if cfg.wide_locks && src.chance(1, 4) {
        // any BIP68-enabled value: random low 16 bits, the unit flag, and (often) bits that BIP68
        // ignores (16..21, 23..30) which the library must carry through unchanged
        let mut v = match src.below(4) {
            0 => 0,
            1 => 0xffff,
            _ => src.u32() & 0xffff,
        };
        if time {
            v |= 1 << 22;
        }
        if src.chance(2, 3) {
            v |= src.u32() & 0x7fbf_0000;
        }
        if v == 0 {
            v = 1;
        }
        return Node::Older(v);
    }
    Node::Older(if time { *src.pick(&OLDER_TIMES) } else { *src.pick(&OLDER_HEIGHTS) })
}

fn gen_hash(src: &mut Src) -> Node {
    let i = src.below(keys::N_PREIMAGES);
    match src.below(4) {
        0 => Node::Sha256(keys::sha256_of(i)),
        1 => Node::Hash256(keys::hash256_of(i)),
        2 => Node::Ripemd160(keys::ripemd160_of(i)),
        _ => Node::Hash160(keys::hash160_of(i)),
    }
}

fn gen_multi(src: &mut Src, cfg: &Cfg, st: &mut State) -> Node {
    let n = if cfg.big_multi_n > cfg.max_multi_n && src.chance(1, 12) {
        // multi: at most 20 keys; multi_a: no such bound, 17+ keys need a 2-byte count push
        src.range(cfg.max_multi_n.max(1), if cfg.ctx == Ctx::Tap { cfg.big_multi_n + 6 } else { cfg.big_multi_n.min(20) })
    } else {
        src.range(1, cfg.max_multi_n.max(1))
    };
    let k = match src.below(4) {
        0 => n,
        1 => 1,
        _ => src.range(1, n),
    };
    let mut ks = Vec::new();
    for _ in 0..n {
        ks.push(pick_key(src, cfg, st));
    }
    let sorted = cfg.allow_sorted && src.chance(1, 4);
    match (cfg.ctx == Ctx::Tap, sorted) {
        (true, false) => Node::MultiA(k, ks),
        (true, true) => Node::SortedMultiA(k, ks),
        (false, false) => Node::Multi(k, ks),
        (false, true) => Node::SortedMulti(k, ks),
    }
}

/// B-typed leaf.
fn leaf_b(src: &mut Src, cfg: &Cfg, st: &mut State) -> Node {
    match src.weighted(&cfg.leaf_w) {
        0 => match src.weighted(&[5, 2, 2]) {
            0 => Node::Check(b(Node::PkK(pick_key(src, cfg, st)))),
            1 => Node::Check(b(Node::PkH(pick_key(src, cfg, st)))),
            _ => gen_multi(src, cfg, st),
        },
        1 => gen_hash(src),
        _ => {
            if cfg.allow_const && src.chance(cfg.const_chance.min(10), 10) {
                if src.bool() {
                    Node::True
                } else {
                    Node::False
                }
            } else if src.bool() {
                gen_older(src, cfg, st)
            } else {
                gen_after(src, cfg, st)
            }
        }
    }
}

fn leaf_k(src: &mut Src, cfg: &Cfg, st: &mut State) -> Node {
    if cfg.allow_raw_pkh && src.chance(1, 8) {
        // raw pkh of a universe key, hashed as the context serialises it
        let k = pick_key(src, cfg, st);
        if let Ok(h) = crate::mirror::encode::key_hash(&k, cfg.ctx) {
            return Node::RawPkH(keys::hex(&h));
        }
    }
    if src.chance(1, 3) {
        Node::PkH(pick_key(src, cfg, st))
    } else {
        Node::PkK(pick_key(src, cfg, st))
    }
}

#[derive(Clone, Copy, Debug)]
pub struct Want {
    pub base: T,
    pub props: T,
}

pub const W_B: Want = Want { base: spec::B, props: 0 };
pub const W_V: Want = Want { base: spec::V, props: 0 };
pub const W_K: Want = Want { base: spec::K, props: 0 };
pub const W_W: Want = Want { base: spec::W, props: 0 };
pub const W_BDU: Want = Want { base: spec::B, props: spec::D | spec::U };
pub const W_BD: Want = Want { base: spec::B, props: spec::D };
pub const W_WDU: Want = Want { base: spec::W, props: spec::D | spec::U };
pub const W_WD: Want = Want { base: spec::W, props: spec::D };
pub const W_BN: Want = Want { base: spec::B, props: spec::N };
pub const W_BO: Want = Want { base: spec::B, props: spec::O };
pub const W_VZ: Want = Want { base: spec::V, props: spec::Z };

fn fallback(src: &mut Src, cfg: &Cfg, st: &mut State, want: Want) -> Node {
    let pk = |src: &mut Src, st: &mut State| Node::Check(b(Node::PkK(pick_key(src, cfg, st))));
    match want.base {
        spec::B => {
            if want.props & spec::Z != 0 {
                if want.props & spec::D != 0 {
                    Node::False
                } else {
                    Node::True
                }
            } else {
                pk(src, st)
            }
        }
        spec::V => {
            if want.props & spec::Z != 0 {
                Node::Verify(b(gen_older(src, cfg, st)))
            } else {
                Node::Verify(b(pk(src, st)))
            }
        }
        spec::K => Node::PkK(pick_key(src, cfg, st)),
        _ => Node::Alt(b(pk(src, st))),
    }
}

pub fn gen(src: &mut Src, cfg: &Cfg, st: &mut State, want: Want, size: usize) -> Node {
    for _ in 0..4 {
        let n = gen_try(src, cfg, st, want, size);
        if let Ok(t) = spec::type_of(&n, cfg.ctx) {
            if t & want.base != 0 && t & want.props == want.props {
                return n;
            }
        }
    }
    fallback(src, cfg, st, want)
}

fn split(src: &mut Src, size: usize, parts: usize) -> Vec<usize> {
    // distribute size-1 among parts, each at least 1
    let mut v = vec![1usize; parts];
    let mut rest = size.saturating_sub(1).saturating_sub(parts);
    while rest > 0 {
        let i = src.below(parts);
        let amt = 1 + src.below(rest);
        v[i] += amt;
        rest -= amt;
    }
    v
}

fn gen_try(src: &mut Src, cfg: &Cfg, st: &mut State, want: Want, size: usize) -> Node {
    let restrict = cfg.legacy_restrict && matches!(cfg.ctx, Ctx::Bare | Ctx::Legacy);
    let ori = if restrict { 0 } else { 3 };
    let dup = if restrict { 0 } else { 2 };
    match want.base {
        spec::B => {
            if size <= 1 {
                return leaf_b(src, cfg, st);
            }
            // weights: leaf, c:K, d:, j:, n:, t:, l:, u:, and_v, and_b, or_b, or_d, or_i, andor, thresh, and_n
            let ob = cfg.or_boost.max(1);
            let w = [3, 2, dup, 2, 1, 1, ori / 2, ori / 2, 4, 3, 3 * ob, 4 * ob, ori * ob, 3 * ob, 4 * cfg.thresh_boost.max(1), 1];
            match src.weighted(&w) {
                0 => leaf_b(src, cfg, st),
                1 => Node::Check(b(gen(src, cfg, st, W_K, size - 1))),
                2 => Node::DupIf(b(gen(src, cfg, st, W_VZ, size - 1))),
                3 => Node::NonZero(b(gen(src, cfg, st, W_BN, size - 1))),
                4 => Node::ZeroNotEqual(b(gen(src, cfg, st, W_B, size - 1))),
                5 => Node::AndV(b(gen(src, cfg, st, W_V, size - 1)), b(Node::True)),
                6 => Node::OrI(b(Node::False), b(gen(src, cfg, st, W_B, size - 1))),
                7 => Node::OrI(b(gen(src, cfg, st, W_B, size - 1)), b(Node::False)),
                8 => {
                    let s = split(src, size, 2);
                    Node::AndV(b(gen(src, cfg, st, W_V, s[0])), b(gen(src, cfg, st, W_B, s[1])))
                }
                9 => {
                    let s = split(src, size, 2);
                    Node::AndB(b(gen(src, cfg, st, W_B, s[0])), b(gen(src, cfg, st, W_W, s[1])))
                }
                10 => {
                    let s = split(src, size, 2);
                    Node::OrB(b(gen(src, cfg, st, W_BD, s[0])), b(gen(src, cfg, st, W_WD, s[1])))
                }
                11 => {
                    let s = split(src, size, 2);
                    Node::OrD(b(gen(src, cfg, st, W_BDU, s[0])), b(gen(src, cfg, st, W_B, s[1])))
                }
                12 => {
                    let s = split(src, size, 2);
                    Node::OrI(b(gen(src, cfg, st, W_B, s[0])), b(gen(src, cfg, st, W_B, s[1])))
                }
                13 => {
                    let s = split(src, size, 3);
                    Node::AndOr(
                        b(gen(src, cfg, st, W_BDU, s[0])),
                        b(gen(src, cfg, st, W_B, s[1])),
                        b(gen(src, cfg, st, W_B, s[2])),
                    )
                }
                14 => {
                    let n = src.range(1, cfg.max_thresh_n.min(size.max(1)).max(1));
                    let k = src.range(1, n);
                    let s = split(src, size.max(n + 1), n);
                    let mut subs = Vec::new();
                    for (i, sz) in s.iter().enumerate() {
                        subs.push(gen(src, cfg, st, if i == 0 { W_BDU } else { W_WDU }, *sz));
                    }
                    Node::Thresh(k, subs)
                }
                _ => {
                    let s = split(src, size, 2);
                    Node::AndOr(b(gen(src, cfg, st, W_BDU, s[0])), b(gen(src, cfg, st, W_B, s[1])), b(Node::False))
                }
            }
        }
        spec::V => {
            if size <= 1 {
                return Node::Verify(b(leaf_b(src, cfg, st)));
            }
            let ob = cfg.or_boost.max(1);
            let w = [5, 3, 2 * ob, ori * ob, 2 * ob];
            match src.weighted(&w) {
                0 => Node::Verify(b(gen(src, cfg, st, Want { base: spec::B, props: want.props & (spec::Z | spec::O | spec::N) }, size - 1))),
                1 => {
                    let s = split(src, size, 2);
                    Node::AndV(b(gen(src, cfg, st, W_V, s[0])), b(gen(src, cfg, st, W_V, s[1])))
                }
                2 => {
                    let s = split(src, size, 2);
                    Node::OrC(b(gen(src, cfg, st, W_BDU, s[0])), b(gen(src, cfg, st, W_V, s[1])))
                }
                3 => {
                    let s = split(src, size, 2);
                    Node::OrI(b(gen(src, cfg, st, W_V, s[0])), b(gen(src, cfg, st, W_V, s[1])))
                }
                _ => {
                    let s = split(src, size, 3);
                    Node::AndOr(
                        b(gen(src, cfg, st, W_BDU, s[0])),
                        b(gen(src, cfg, st, W_V, s[1])),
                        b(gen(src, cfg, st, W_V, s[2])),
                    )
                }
            }
        }
        spec::K => {
            if size <= 1 {
                return leaf_k(src, cfg, st);
            }
            let ob = cfg.or_boost.max(1);
            let w = [5, 2, ori * ob, 2 * ob];
            match src.weighted(&w) {
                0 => leaf_k(src, cfg, st),
                1 => {
                    let s = split(src, size, 2);
                    Node::AndV(b(gen(src, cfg, st, W_V, s[0])), b(gen(src, cfg, st, W_K, s[1])))
                }
                2 => {
                    let s = split(src, size, 2);
                    Node::OrI(b(gen(src, cfg, st, W_K, s[0])), b(gen(src, cfg, st, W_K, s[1])))
                }
                _ => {
                    let s = split(src, size, 3);
                    Node::AndOr(
                        b(gen(src, cfg, st, W_BDU, s[0])),
                        b(gen(src, cfg, st, W_K, s[1])),
                        b(gen(src, cfg, st, W_K, s[2])),
                    )
                }
            }
        }
        _ => {
            // W
            let inner = Want { base: spec::B, props: want.props & (spec::D | spec::U) };
            if src.chance(1, 3) {
                Node::Swap(b(gen(src, cfg, st, Want { base: spec::B, props: inner.props | spec::O }, size.saturating_sub(1).max(1))))
            } else {
                Node::Alt(b(gen(src, cfg, st, inner, size.saturating_sub(1).max(1))))
            }
        }
    }
}

/// Top-level B miniscript.
pub fn gen_ms(src: &mut Src, cfg: &Cfg) -> Node {
    let mut st = State::new();
    let size = src.range(1, cfg.size);
    gen(src, cfg, &mut st, W_B, size)
}

pub fn gen_ms_with(src: &mut Src, cfg: &Cfg, st: &mut State) -> Node {
    let size = src.range(1, cfg.size);
    if cfg.top_props == 0 {
        return gen(src, cfg, st, W_B, size);
    }
    let mut last = None;
    for _ in 0..cfg.top_tries.max(1) {
        let save_used = st.used.clone();
        let n = gen(src, cfg, st, W_B, size);
        let t = spec::type_of(&n, cfg.ctx).unwrap_or(0);
        if t & cfg.top_props == cfg.top_props {
            return n;
        }
        if (t | spec::S) & cfg.top_props == cfg.top_props {
            // only the signature requirement is missing: guard the whole script with a key
            let g = Node::AndV(b(Node::Verify(b(Node::Check(b(Node::PkK(pick_key(src, cfg, st))))))), b(n));
            let tg = spec::type_of(&g, cfg.ctx).unwrap_or(0);
            if tg & cfg.top_props == cfg.top_props {
                return g;
            }
            last = Some(g);
        } else {
            last = Some(n);
        }
        st.used = save_used;
    }
    last.unwrap()
}

pub fn gen_tree(src: &mut Src, cfg: &Cfg, st: &mut State, n_leaves: usize) -> MTree {
    if n_leaves <= 1 {
        return MTree::Leaf(gen_ms_with(src, cfg, st));
    }
    let l = src.range(1, n_leaves - 1);
    MTree::Branch(Box::new(gen_tree(src, cfg, st, l)), Box::new(gen_tree(src, cfg, st, n_leaves - l)))
}

#[derive(Clone, Copy, Debug, PartialEq, Eq)]
pub enum DescKind {
    Bare,
    Pkh,
    Wpkh,
    ShWpkh,
    Sh,
    Wsh,
    ShWsh,
    TrKey,
    TrTree,
}

pub const ALL_KINDS: [DescKind; 9] = [
    DescKind::Wsh,
    DescKind::TrTree,
    DescKind::Sh,
    DescKind::ShWsh,
    DescKind::Bare,
    DescKind::Pkh,
    DescKind::Wpkh,
    DescKind::ShWpkh,
    DescKind::TrKey,
];

pub fn ctx_of(kind: DescKind) -> Ctx {
    match kind {
        DescKind::Bare => Ctx::Bare,
        DescKind::Pkh | DescKind::Sh => Ctx::Legacy,
        DescKind::Wpkh | DescKind::ShWpkh | DescKind::Wsh | DescKind::ShWsh => Ctx::Segwitv0,
        _ => Ctx::Tap,
    }
}

/// Descriptor of the given kind; `mk` customises the miniscript generator config.
pub fn gen_desc(src: &mut Src, kind: DescKind, mk: &dyn Fn(Ctx) -> Cfg) -> MDesc {
    let cfg = mk(ctx_of(kind));
    let mut st = State::new();
    match kind {
        DescKind::Bare => {
            // bare scripts: library's standardness top-level check accepts pk / pkh / multi only
            // (a bare `pkh(K)` is indistinguishable in text from the pkh descriptor, which has
            // its own kind)
            let n = match src.below(2) {
                0 => Node::Check(b(Node::PkK(pick_key(src, &cfg, &mut st)))),
                _ => {
                    let mut c2 = cfg.clone();
                    c2.max_multi_n = 3;
                    gen_multi(src, &c2, &mut st)
                }
            };
            MDesc::Bare(n)
        }
        DescKind::Pkh => MDesc::Pkh(pick_key(src, &cfg, &mut st)),
        DescKind::Wpkh => MDesc::Wpkh(pick_key(src, &cfg, &mut st)),
        DescKind::ShWpkh => MDesc::ShWpkh(pick_key(src, &cfg, &mut st)),
        DescKind::Sh => MDesc::Sh(gen_ms_with(src, &cfg, &mut st)),
        DescKind::Wsh => MDesc::Wsh(gen_ms_with(src, &cfg, &mut st)),
        DescKind::ShWsh => MDesc::ShWsh(gen_ms_with(src, &cfg, &mut st)),
        DescKind::TrKey => MDesc::Tr(pick_key(src, &cfg, &mut st), None),
        DescKind::TrTree => {
            let ik = pick_key(src, &cfg, &mut st);
            let nl = src.range(1, 4);
            let mut c2 = cfg.clone();
            c2.size = (cfg.size / nl).max(2);
            MDesc::Tr(ik, Some(gen_tree(src, &c2, &mut st, nl)))
        }
    }
}

// ---------------------------------------------------------------------------------------
// worlds

pub fn locks_of(nodes: &[&Node]) -> (Vec<u32>, Vec<u32>) {
    let mut afters = Vec::new();
    let mut olders = Vec::new();
    for n in nodes {
        n.walk(&mut |x| match x {
            Node::After(t) => afters.push(*t),
            Node::Older(t) => olders.push(*t),
            _ => {}
        });
    }
    (afters, olders)
}

/// A realisable world for a descriptor: subset of its keys (plus sometimes a stranger), subset
/// of preimages, nLockTime / nSequence around the script's own locks.
pub fn gen_world(src: &mut Src, d: &MDesc) -> World {
    let ctx = d.ctx();
    let mut keys_set = BTreeSet::new();
    let p_key = src.range(1, 4); // 1/4 .. 4/4 chance per key
    for k in d.all_keys() {
        if src.chance(p_key, 4) {
            if let Ok(kb) = crate::mirror::encode::key_bytes(&k, ctx) {
                if let Some(x) = keys::xonly_of(&kb) {
                    keys_set.insert(x);
                }
            }
        }
    }
    let mut preimages = BTreeSet::new();
    let p_pre = src.range(0, 3);
    for i in 0..keys::N_PREIMAGES {
        if src.chance(p_pre, 3) {
            preimages.insert(keys::u().preimages[i]);
        }
    }
    let nodes = d.nodes();
    let (afters, olders) = locks_of(&nodes);
    let lock_time = gen_lock_value(src, &afters, &[0, 1, 499_999_999, 500_000_000, 0x7fff_ffff, 0xffff_ffff]);
    let sequence = if olders.is_empty() || src.chance(1, 4) {
        *src.pick(&[0xffff_fffeu32, 0xffff_fffd, 0xffff_ffff, 0, 1])
    } else {
        gen_lock_value(src, &olders, &[0, 0x40_0000, 0xffff, 0x40_ffff, 0x8000_0001, 0xffff_fffe])
    };
    // mostly version 2; version 1 makes every relative lock unspendable (BIP68), 3 behaves like 2
    let tx_version = match src.below(10) {
        0 | 1 => 1,
        2 => 3,
        _ => 2,
    };
    World { keys: keys_set, preimages, lock_time, sequence, tx_version }
}

/// A world that holds everything: all keys (all but one with chance 1/4), every preimage, and
/// nLockTime / nSequence at the largest lock of the descriptor.
pub fn gen_full_world(src: &mut Src, d: &MDesc) -> World {
    let ctx = d.ctx();
    let mut keys_set = BTreeSet::new();
    let all = d.all_keys();
    let skip = if !all.is_empty() && src.chance(1, 4) { Some(src.below(all.len())) } else { None };
    for (i, k) in all.iter().enumerate() {
        if Some(i) == skip {
            continue;
        }
        if let Ok(kb) = crate::mirror::encode::key_bytes(k, ctx) {
            if let Some(x) = keys::xonly_of(&kb) {
                keys_set.insert(x);
            }
        }
    }
    let mut preimages: BTreeSet<[u8; 32]> = keys::u().preimages.iter().copied().collect();
    if src.chance(1, 3) {
        // one preimage unknown to the signer (third parties may still know it)
        let p = keys::u().preimages[src.below(keys::N_PREIMAGES)];
        preimages.remove(&p);
    }
    let (afters, olders) = locks_of(&d.nodes());
    let lock_time = afters.iter().copied().max().unwrap_or(0);
    let sequence = sequence_meeting(&olders).unwrap_or_else(|| olders.iter().copied().max().unwrap_or(0xffff_fffe));
    World { keys: keys_set, preimages, lock_time, sequence, tx_version: 2 }
}

/// An nSequence value that meets every relative lock of `olders` (they must be of one unit):
/// the unit flag with the largest 16-bit value (bits that BIP68 ignores are dropped).
pub fn sequence_meeting(olders: &[u32]) -> Option<u32> {
    let first = *olders.first()?;
    let flag = first & (1 << 22);
    if olders.iter().any(|o| o & (1 << 22) != flag) {
        return None;
    }
    Some(flag | olders.iter().map(|o| o & 0xffff).max().unwrap_or(0))
}

fn gen_lock_value(src: &mut Src, own: &[u32], others: &[u32]) -> u32 {
    if !own.is_empty() && src.chance(3, 4) {
        let t = *src.pick(own);
        match src.below(6) {
            0 => t,
            1 => t.wrapping_add(1),
            2 => t.wrapping_sub(1),
            3 => t & 0x0040_ffff,
            4 => (t & 0x0040_ffff).wrapping_add(1),
            _ => own.iter().copied().max().unwrap(),
        }
    } else {
        *src.pick(others)
    }
}

// ---------------------------------------------------------------------------------------
// policies

use crate::poleval::MPol;

#[derive(Clone, Debug)]
pub struct PolCfg {
    pub max_leaves: usize,
    pub allow_const: bool,
    pub distinct_keys: bool,
    pub key_hex_ctx: Ctx,
    /// keys as short names ("A".."H") instead of hex (for String-keyed policies)
    pub named_keys: bool,
    pub consistent_locks: bool,
    pub max_weight: usize,
    pub allow_thresh: bool,
    /// and / or strictly binary (what the compiler requires)
    pub binary: bool,
}

pub fn gen_policy(src: &mut Src, cfg: &PolCfg) -> MPol {
    let mut st = State::new();
    let leaves = src.range(1, cfg.max_leaves);
    gen_pol(src, cfg, &mut st, leaves, 0)
}

fn pol_leaf(src: &mut Src, cfg: &PolCfg, st: &mut State) -> MPol {
    let kcfg = {
        let mut c = Cfg::new(cfg.key_hex_ctx, 1);
        c.distinct_keys = cfg.distinct_keys;
        c.consistent_locks = cfg.consistent_locks;
        c
    };
    match src.weighted(&[10, 3, 3, if cfg.allow_const { 2 } else { 0 }]) {
        0 => {
            if cfg.named_keys {
                let mut i = src.below(8);
                if cfg.distinct_keys {
                    let mut t = 0;
                    while st.used.contains(&i) && t < 26 {
                        i = (i + 1) % 26;
                        t += 1;
                    }
                    st.used.insert(i);
                }
                MPol::Key(((b'A' + i as u8) as char).to_string())
            } else {
                MPol::Key(pick_key(src, &kcfg, st))
            }
        }
        1 => match gen_hash(src) {
            Node::Sha256(h) => MPol::Sha256(h),
            Node::Hash256(h) => MPol::Hash256(h),
            Node::Ripemd160(h) => MPol::Ripemd160(h),
            Node::Hash160(h) => MPol::Hash160(h),
            _ => unreachable!(),
        },
        2 => {
            if src.bool() {
                match gen_after(src, &kcfg, st) {
                    Node::After(t) => MPol::After(t),
                    _ => unreachable!(),
                }
            } else {
                match gen_older(src, &kcfg, st) {
                    Node::Older(t) => MPol::Older(t),
                    _ => unreachable!(),
                }
            }
        }
        _ => {
            if src.bool() {
                MPol::Trivial
            } else {
                MPol::Unsat
            }
        }
    }
}

fn gen_pol(src: &mut Src, cfg: &PolCfg, st: &mut State, leaves: usize, depth: usize) -> MPol {
    if leaves <= 1 || depth > 5 {
        return pol_leaf(src, cfg, st);
    }
    let n = if cfg.binary && !src.chance(1, 4) { 2 } else { src.range(2, leaves.min(4)) };
    let parts = split(src, leaves + 1, n);
    let mut subs = Vec::new();
    for p in parts {
        subs.push(gen_pol(src, cfg, st, p, depth + 1));
    }
    let only_thresh = cfg.binary && n != 2;
    match src.weighted(&[if only_thresh { 0 } else { 4 }, if only_thresh { 0 } else { 4 }, if cfg.allow_thresh || only_thresh { 3 } else { 0 }]) {
        0 => MPol::And(subs),
        1 => MPol::Or(subs.into_iter().map(|s| (if cfg.max_weight > 1 && src.chance(1, 3) { src.range(1, cfg.max_weight) } else { 1 }, s)).collect()),
        _ => {
            let k = src.range(1, subs.len());
            MPol::Thresh(k, subs)
        }
    }
}

// ---------------------------------------------------------------------------------------
// perturbation: trees that the specification need not type

fn nth_mut(n: &mut Node, idx: &mut usize) -> Option<*mut Node> {
    if *idx == 0 {
        return Some(n as *mut Node);
    }
    *idx -= 1;
    for c in n.children_mut() {
        if let Some(p) = nth_mut(c, idx) {
            return Some(p);
        }
    }
    None
}

/// Applies 1..=2 random local edits (re-wrap, un-wrap, swap the combinator, swap children,
/// replace a leaf) to a tree.  The result is in general NOT well typed; callers use it to probe
/// what the library accepts beyond the generator's typed domain.
pub fn perturb(src: &mut Src, cfg: &Cfg, node: &Node) -> Node {
    let mut out = node.clone();
    let edits = src.range(1, 2);
    for _ in 0..edits {
        let total = out.n_nodes();
        let mut idx = src.below(total);
        let p = match nth_mut(&mut out, &mut idx) {
            Some(p) => p,
            None => continue,
        };
        // SAFETY: `p` points into `out`, which is not otherwise borrowed here.
        let target: &mut Node = unsafe { &mut *p };
        let old = std::mem::replace(target, Node::False);
        let mut st = State::new();
        let wrap = |src: &mut Src, x: Node| -> Node {
            match src.below(10) {
                7 => Node::OrI(b(Node::False), b(x)),
                8 => Node::OrI(b(x), b(Node::False)),
                9 => Node::AndV(b(x), b(Node::True)),
                0 => Node::Alt(b(x)),
                1 => Node::Swap(b(x)),
                2 => Node::Check(b(x)),
                3 => Node::DupIf(b(x)),
                4 => Node::Verify(b(x)),
                5 => Node::NonZero(b(x)),
                _ => Node::ZeroNotEqual(b(x)),
            }
        };
        let bin = |src: &mut Src, x: Box<Node>, y: Box<Node>| -> Node {
            match src.below(6) {
                0 => Node::AndV(x, y),
                1 => Node::AndB(x, y),
                2 => Node::OrB(x, y),
                3 => Node::OrD(x, y),
                4 => Node::OrC(x, y),
                _ => Node::OrI(x, y),
            }
        };
        let new = match old {
            Node::Alt(x) | Node::Swap(x) | Node::Check(x) | Node::DupIf(x) | Node::Verify(x) | Node::NonZero(x) | Node::ZeroNotEqual(x) => {
                match src.below(3) {
                    0 => *x,              // un-wrap
                    1 => wrap(src, *x),   // other wrapper
                    _ => {
                        let w = wrap(src, *x);
                        wrap(src, w)
                    }
                }
            }
            Node::AndV(x, y) | Node::AndB(x, y) | Node::OrB(x, y) | Node::OrD(x, y) | Node::OrC(x, y) | Node::OrI(x, y) => match src.below(4) {
                0 => bin(src, y, x),
                1 => bin(src, x, y),
                2 => Node::AndOr(x.clone(), y, x),
                _ => Node::Thresh(src.range(1, 2), vec![*x, *y]),
            },
            Node::AndOr(x, y, z) => match src.below(3) {
                0 => Node::AndOr(y, x, z),
                1 => Node::AndOr(x, z, y),
                _ => bin(src, x, y),
            },
            Node::Thresh(k, mut subs) => {
                match src.below(4) {
                    0 => {
                        let l = subs.len();
                        if l >= 2 {
                            let i = src.below(l);
                            let j = src.below(l);
                            subs.swap(i, j);
                        }
                        Node::Thresh(k, subs)
                    }
                    1 => {
                        // re-wrap one child
                        let i = src.below(subs.len().max(1));
                        if i < subs.len() {
                            let c = std::mem::replace(&mut subs[i], Node::False);
                            subs[i] = match c {
                                Node::Alt(x) | Node::Swap(x) => {
                                    if src.bool() {
                                        *x
                                    } else {
                                        wrap(src, *x)
                                    }
                                }
                                other => wrap(src, other),
                            };
                        }
                        Node::Thresh(k, subs)
                    }
                    2 => {
                        let i = src.below(subs.len().max(1));
                        if i < subs.len() {
                            subs[i] = leaf_b(src, cfg, &mut st);
                        }
                        Node::Thresh(k, subs)
                    }
                    _ => Node::Thresh(src.range(1, subs.len().max(1)), subs),
                }
            }
            leaf => match src.below(4) {
                0 => wrap(src, leaf),
                1 => leaf_b(src, cfg, &mut st),
                2 => leaf_k(src, cfg, &mut st),
                _ => {
                    let w = wrap(src, leaf);
                    wrap(src, w)
                }
            },
        };
        *target = new;
    }
    out
}
