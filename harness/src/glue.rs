//! Glue between mirror values and library values.

use crate::mdesc::{MDesc, MTree};
use crate::mirror::ast::{self, Node};
use crate::mirror::spec::Ctx;
use miniscript::descriptor::{Tr, TapTree};
use miniscript::{BareCtx, DefiniteDescriptorKey, Descriptor, Legacy, Miniscript, ScriptContext, Segwitv0, Tap, ValidationParams};
use std::str::FromStr;

pub type DK = DefiniteDescriptorKey;
pub type Desc = Descriptor<DK>;

#[derive(Clone, Copy, Debug, PartialEq, Eq)]
pub enum Level {
    /// the context's default sanity rules
    Sane,
    /// the context's consensus rules (no raw pkh)
    Insane,
}

pub fn params<C: ScriptContext>(l: Level) -> ValidationParams {
    match l {
        Level::Sane => C::SANE,
        Level::Insane => {
            let mut p = C::CONSENSUS;
            p.allow_raw_pkh = true;
            p
        }
    }
}

pub fn ms_from_node<C: ScriptContext>(n: &Node, l: Level, sugar: bool) -> Result<Miniscript<DK, C>, String> {
    let s = ast::print(n, sugar);
    Miniscript::<DK, C>::from_str_with_validation_params(&s, &params::<C>(l)).map_err(|e| format!("{} :: {}", s, e))
}

fn tree_from(t: &MTree, l: Level, sugar: bool) -> Result<TapTree<DK>, String> {
    match t {
        MTree::Leaf(n) => Ok(TapTree::leaf(ms_from_node::<Tap>(n, l, sugar)?)),
        MTree::Branch(a, b) => {
            TapTree::combine(tree_from(a, l, sugar)?, tree_from(b, l, sugar)?).map_err(|e| e.to_string())
        }
    }
}

fn key(k: &str) -> Result<DK, String> { DK::from_str(k).map_err(|e| format!("key {}: {}", k, e)) }

/// Build through the typed constructors (accepts insane scripts when `l == Insane`).
pub fn desc_via_ctor(d: &MDesc, l: Level, sugar: bool) -> Result<Desc, String> {
    let e = |e: miniscript::Error| e.to_string();
    Ok(match d {
        MDesc::Bare(n) => Descriptor::new_bare(ms_from_node::<BareCtx>(n, l, sugar)?).map_err(e)?,
        MDesc::Pkh(k) => Descriptor::new_pkh(key(k)?).map_err(e)?,
        MDesc::Wpkh(k) => Descriptor::new_wpkh(key(k)?).map_err(e)?,
        MDesc::ShWpkh(k) => Descriptor::new_sh_wpkh(key(k)?).map_err(e)?,
        MDesc::Sh(n) => Descriptor::new_sh(ms_from_node::<Legacy>(n, l, sugar)?).map_err(e)?,
        MDesc::Wsh(n) => Descriptor::new_wsh(ms_from_node::<Segwitv0>(n, l, sugar)?).map_err(e)?,
        MDesc::ShWsh(n) => Descriptor::new_sh_wsh(ms_from_node::<Segwitv0>(n, l, sugar)?).map_err(e)?,
        MDesc::Tr(k, t) => {
            let tree = match t {
                Some(t) => Some(tree_from(t, l, sugar)?),
                None => None,
            };
            Descriptor::Tr(Tr::new(key(k)?, tree).map_err(e)?)
        }
    })
}

pub fn desc_via_str(d: &MDesc, sugar: bool) -> Result<Desc, String> {
    let s = d.print(sugar);
    Desc::from_str(&s).map_err(|e| format!("{} :: {}", s, e))
}

pub fn lib_ctx_name(c: Ctx) -> &'static str {
    match c {
        Ctx::Bare => "bare",
        Ctx::Legacy => "legacy",
        Ctx::Segwitv0 => "segwitv0",
        Ctx::Tap => "tap",
    }
}

/// Does every miniscript of `d` pass the default sanity rules of its context?
pub fn is_sane(d: &MDesc) -> bool {
    let ctx = d.ctx();
    d.nodes().iter().all(|n| match ctx {
        Ctx::Bare => ms_from_node::<BareCtx>(n, Level::Sane, true).is_ok(),
        Ctx::Legacy => ms_from_node::<Legacy>(n, Level::Sane, true).is_ok(),
        Ctx::Segwitv0 => ms_from_node::<Segwitv0>(n, Level::Sane, true).is_ok(),
        Ctx::Tap => ms_from_node::<Tap>(n, Level::Sane, true).is_ok(),
    })
}

// ---------------------------------------------------------------------------------------
// library descriptor -> mirror descriptor (pattern matching on public accessors only)

use miniscript::descriptor::ShInner;
use miniscript::MiniscriptKey;

/// Rebuild a tree from a DFS list of (depth, leaf).
pub fn tree_from_depths(items: &[(usize, Node)]) -> Option<MTree> {
    fn build(items: &[(usize, Node)], pos: &mut usize, depth: usize) -> Option<MTree> {
        let (d, n) = items.get(*pos)?;
        if *d == depth {
            *pos += 1;
            return Some(MTree::Leaf(n.clone()));
        }
        if *d < depth {
            return None;
        }
        let l = build(items, pos, depth + 1)?;
        let r = build(items, pos, depth + 1)?;
        Some(MTree::Branch(Box::new(l), Box::new(r)))
    }
    let mut pos = 0;
    let t = build(items, &mut pos, 0)?;
    if pos == items.len() {
        Some(t)
    } else {
        None
    }
}

pub fn mdesc_from_lib<Pk: MiniscriptKey>(d: &Descriptor<Pk>) -> Result<MDesc, String> {
    Ok(match d {
        Descriptor::Bare(b) => MDesc::Bare(ast::from_lib(b.as_inner())),
        Descriptor::Pkh(p) => MDesc::Pkh(p.as_inner().to_string()),
        Descriptor::Wpkh(p) => MDesc::Wpkh(p.as_inner().to_string()),
        Descriptor::Wsh(w) => MDesc::Wsh(ast::from_lib(w.as_inner())),
        Descriptor::Sh(s) => match s.as_inner() {
            ShInner::Wsh(w) => MDesc::ShWsh(ast::from_lib(w.as_inner())),
            ShInner::Wpkh(p) => MDesc::ShWpkh(p.as_inner().to_string()),
            ShInner::Ms(ms) => MDesc::Sh(ast::from_lib(ms)),
        },
        Descriptor::Tr(tr) => {
            let items: Vec<(usize, Node)> = tr.leaves().map(|l| (l.depth() as usize, ast::from_lib(l.miniscript()))).collect();
            let tree = if items.is_empty() { None } else { Some(tree_from_depths(&items).ok_or("inconsistent leaf depths")?) };
            MDesc::Tr(tr.internal_key().to_string(), tree)
        }
    })
}


// ---------------------------------------------------------------------------------------
// mirror AST -> library value through `Miniscript::from_ast` only (no text, no script)

/// Builds the library value bottom-up with `Miniscript::from_ast` at every node.  `Err` carries
/// the first refusal (a lock value or threshold the typed wrappers refuse, or `from_ast` itself).
pub fn ms_from_node_ast<C: ScriptContext>(n: &Node) -> Result<Miniscript<DK, C>, String> {
    use miniscript::miniscript::decode::Terminal;
    use miniscript::{AbsLockTime, RelLockTime, Threshold};
    use std::sync::Arc;
    let sub = |x: &Node| -> Result<Arc<Miniscript<DK, C>>, String> { Ok(Arc::new(ms_from_node_ast::<C>(x)?)) };
    let keys = |ks: &Vec<String>| -> Result<Vec<DK>, String> { ks.iter().map(|k| key(k)).collect() };
    let e = |x: &dyn std::fmt::Display| x.to_string();
    let t: Terminal<DK, C> = match n {
        Node::True => Terminal::True,
        Node::False => Terminal::False,
        Node::PkK(k) => Terminal::PkK(key(k)?),
        Node::PkH(k) => Terminal::PkH(key(k)?),
        Node::RawPkH(h) => Terminal::RawPkH(bitcoin::hashes::hash160::Hash::from_str(h).map_err(|x| e(&x))?),
        Node::After(v) => Terminal::After(AbsLockTime::from_consensus(*v).map_err(|x| e(&x))?),
        Node::Older(v) => Terminal::Older(RelLockTime::from_consensus(*v).map_err(|x| e(&x))?),
        Node::Sha256(h) => Terminal::Sha256(bitcoin::hashes::sha256::Hash::from_str(h).map_err(|x| e(&x))?),
        Node::Hash256(h) => Terminal::Hash256(miniscript::hash256::Hash::from_str(h).map_err(|x| e(&x))?),
        Node::Ripemd160(h) => Terminal::Ripemd160(bitcoin::hashes::ripemd160::Hash::from_str(h).map_err(|x| e(&x))?),
        Node::Hash160(h) => Terminal::Hash160(bitcoin::hashes::hash160::Hash::from_str(h).map_err(|x| e(&x))?),
        Node::Alt(x) => Terminal::Alt(sub(x)?),
        Node::Swap(x) => Terminal::Swap(sub(x)?),
        Node::Check(x) => Terminal::Check(sub(x)?),
        Node::DupIf(x) => Terminal::DupIf(sub(x)?),
        Node::Verify(x) => Terminal::Verify(sub(x)?),
        Node::NonZero(x) => Terminal::NonZero(sub(x)?),
        Node::ZeroNotEqual(x) => Terminal::ZeroNotEqual(sub(x)?),
        Node::AndV(x, y) => Terminal::AndV(sub(x)?, sub(y)?),
        Node::AndB(x, y) => Terminal::AndB(sub(x)?, sub(y)?),
        Node::AndOr(x, y, z) => Terminal::AndOr(sub(x)?, sub(y)?, sub(z)?),
        Node::OrB(x, y) => Terminal::OrB(sub(x)?, sub(y)?),
        Node::OrD(x, y) => Terminal::OrD(sub(x)?, sub(y)?),
        Node::OrC(x, y) => Terminal::OrC(sub(x)?, sub(y)?),
        Node::OrI(x, y) => Terminal::OrI(sub(x)?, sub(y)?),
        Node::Thresh(k, subs) => {
            let mut v = Vec::new();
            for s2 in subs {
                v.push(sub(s2)?);
            }
            Terminal::Thresh(Threshold::new(*k, v).map_err(|x| e(&x))?)
        }
        Node::Multi(k, ks) => Terminal::Multi(Threshold::new(*k, keys(ks)?).map_err(|x| e(&x))?),
        Node::SortedMulti(k, ks) => Terminal::SortedMulti(Threshold::new(*k, keys(ks)?).map_err(|x| e(&x))?),
        Node::MultiA(k, ks) => Terminal::MultiA(Threshold::new(*k, keys(ks)?).map_err(|x| e(&x))?),
        Node::SortedMultiA(k, ks) => Terminal::SortedMultiA(Threshold::new(*k, keys(ks)?).map_err(|x| e(&x))?),
    };
    Miniscript::from_ast(t).map_err(|x| x.to_string())
}
