//! Glue between mirror values and library values.

use crate::mdesc::{MDesc, MTree};
use crate::mirror::ast::{self, Node};
use crate::mirror::spec::Ctx;
use miniscript::descriptor::{Tr, TapTree};
use miniscript::{BareCtx, DefiniteDescriptorKey, Descriptor, Legacy, Miniscript, ScriptContext, Segwitv0, Tap, ValidationParams};
use std::str::FromStr;

pub type DK = DefiniteDescriptorKey;
pub type Desc = Descriptor<DK>;

#[derive(Clone, Copy, Debug, PartialEq, Eq)]
pub enum Level {
    /// the context's default sanity rules
    Sane,
    /// the context's consensus rules (no raw pkh)
    Insane,
}

pub fn params<C: ScriptContext>(l: Level) -> ValidationParams {
    match l {
        Level::Sane => C::SANE,
        Level::Insane => {
            let mut p = C::CONSENSUS;
            p.allow_raw_pkh = true;
            p
        }
    }
}

pub fn ms_from_node<C: ScriptContext>(n: &Node, l: Level, sugar: bool) -> Result<Miniscript<DK, C>, String> {
    let s = ast::print(n, sugar);
    Miniscript::<DK, C>::from_str_with_validation_params(&s, &params::<C>(l)).map_err(|e| format!("{} :: {}", s, e))
}

fn tree_from(t: &MTree, l: Level, sugar: bool) -> Result<TapTree<DK>, String> {
    match t {
        MTree::Leaf(n) => Ok(TapTree::leaf(ms_from_node::<Tap>(n, l, sugar)?)),
        MTree::Branch(a, b) => {
            TapTree::combine(tree_from(a, l, sugar)?, tree_from(b, l, sugar)?).map_err(|e| e.to_string())
        }
    }
}

fn key(k: &str) -> Result<DK, String> { DK::from_str(k).map_err(|e| format!("key {}: {}", k, e)) }

/// Build through the typed constructors (accepts insane scripts when `l == Insane`).
pub fn desc_via_ctor(d: &MDesc, l: Level, sugar: bool) -> Result<Desc, String> {
    let e = |e: miniscript::Error| e.to_string();
    Ok(match d {
        MDesc::Bare(n) => Descriptor::new_bare(ms_from_node::<BareCtx>(n, l, sugar)?).map_err(e)?,
        MDesc::Pkh(k) => Descriptor::new_pkh(key(k)?).map_err(e)?,
        MDesc::Wpkh(k) => Descriptor::new_wpkh(key(k)?).map_err(e)?,
        MDesc::ShWpkh(k) => Descriptor::new_sh_wpkh(key(k)?).map_err(e)?,
        MDesc::Sh(n) => Descriptor::new_sh(ms_from_node::<Legacy>(n, l, sugar)?).map_err(e)?,
        MDesc::Wsh(n) => Descriptor::new_wsh(ms_from_node::<Segwitv0>(n, l, sugar)?).map_err(e)?,
        MDesc::ShWsh(n) => Descriptor::new_sh_wsh(ms_from_node::<Segwitv0>(n, l, sugar)?).map_err(e)?,
        MDesc::Tr(k, t) => {
            let tree = match t {
                Some(t) => Some(tree_from(t, l, sugar)?),
                None => None,
            };
            Descriptor::Tr(Tr::new(key(k)?, tree).map_err(e)?)
        }
    })
}

pub fn desc_via_str(d: &MDesc, sugar: bool) -> Result<Desc, String> {
    let s = d.print(sugar);
    Desc::from_str(&s).map_err(|e| format!("{} :: {}", s, e))
}

pub fn lib_ctx_name(c: Ctx) -> &'static str {
    match c {
        Ctx::Bare => "bare",
        Ctx::Legacy => "legacy",
        Ctx::Segwitv0 => "segwitv0",
        Ctx::Tap => "tap",
    }
}

/// Does every miniscript of `d` pass the default sanity rules of its context?
pub fn is_sane(d: &MDesc) -> bool {
    let ctx = d.ctx();
    d.nodes().iter().all(|n| match ctx {
        Ctx::Bare => ms_from_node::<BareCtx>(n, Level::Sane, true).is_ok(),
        Ctx::Legacy => ms_from_node::<Legacy>(n, Level::Sane, true).is_ok(),
        Ctx::Segwitv0 => ms_from_node::<Segwitv0>(n, Level::Sane, true).is_ok(),
        Ctx::Tap => ms_from_node::<Tap>(n, Level::Sane, true).is_ok(),
    })
}

// ---------------------------------------------------------------------------------------
// library descriptor -> mirror descriptor (pattern matching on public accessors only)

use miniscript::descriptor::ShInner;
use miniscript::MiniscriptKey;

/// Rebuild a tree from a DFS list of (depth, leaf).
pub fn tree_from_depths(items: &[(usize, Node)]) -> Option<MTree> {
    fn build(items: &[(usize, Node)], pos: &mut usize, depth: usize) -> Option<MTree> {
        let (d, n) = items.get(*pos)?;
        if *d == depth {
            *pos += 1;
            return Some(MTree::Leaf(n.clone()));
        }
        if *d < depth {
            return None;
        }
        let l = build(items, pos, depth + 1)?;
        let r = build(items, pos, depth + 1)?;
        Some(MTree::Branch(Box::new(l), Box::new(r)))
    }
    let mut pos = 0;
    let t = build(items, &mut pos, 0)?;
    if pos == items.len() {
        Some(t)
    } else {
        None
    }
}

pub fn mdesc_from_lib<Pk: MiniscriptKey>(d: &Descriptor<Pk>) -> Result<MDesc, String> {
    Ok(match d {
        Descriptor::Bare(b) => MDesc::Bare(ast::from_lib(b.as_inner())),
        Descriptor::Pkh(p) => MDesc::Pkh(p.as_inner().to_string()),
        Descriptor::Wpkh(p) => MDesc::Wpkh(p.as_inner().to_string()),
        Descriptor::Wsh(w) => MDesc::Wsh(ast::from_lib(w.as_inner())),
        Descriptor::Sh(s) => match s.as_inner() {
            ShInner::Wsh(w) => MDesc::ShWsh(ast::from_lib(w.as_inner())),
            ShInner::Wpkh(p) => MDesc::ShWpkh(p.as_inner().to_string()),
            ShInner::Ms(ms) => MDesc::Sh(ast::from_lib(ms)),
        },
        Descriptor::Tr(tr) => {
            let items: Vec<(usize, Node)> = tr.leaves().map(|l| (l.depth() as usize, ast::from_lib(l.miniscript()))).collect();
            let tree = if items.is_empty() { None } else { Some(tree_from_depths(&items).ok_or("inconsistent leaf depths")?) };
            MDesc::Tr(tr.internal_key().to_string(), tree)
        }
    })
}
