//! Shared PBT runner: proptest-driven choice streams, shards, shrinking, replay files,
//! known findings, evidence.

use proptest::test_runner::{Config, RngSeed, TestCaseError, TestError, TestRunner};
use serde_json::{json, Value};
use std::cell::RefCell;
use std::collections::{BTreeMap, HashSet};
use std::panic::{catch_unwind, AssertUnwindSafe};
use std::sync::atomic::{AtomicBool, Ordering};
use std::sync::Mutex;
use std::time::Instant;

/// Choice stream: every random decision of a case is drawn from here, so a case is a pure
/// function of the `Vec<u16>` proptest generated (and shrinks).  Exhausted stream yields 0 =
/// the simplest choice everywhere.
pub struct Src<'a> {
    data: &'a [u16],
    pos: usize,
}

impl<'a> Src<'a> {
    pub fn new(data: &'a [u16]) -> Self { Src { data, pos: 0 } }
    pub fn raw(&mut self) -> u16 {
        let v = self.data.get(self.pos).copied().unwrap_or(0);
        self.pos += 1;
        v
    }
    /// uniform in 0..n, monotone in the raw value
    pub fn below(&mut self, n: usize) -> usize {
        if n <= 1 {
            // still consume, so the stream layout is stable
            self.raw();
            return 0;
        }
        ((self.raw() as usize) * n) >> 16
    }
    pub fn range(&mut self, lo: usize, hi_incl: usize) -> usize { lo + self.below(hi_incl - lo + 1) }
    pub fn bool(&mut self) -> bool { self.below(2) == 1 }
    /// true with probability num/den (false is the "simple" outcome)
    pub fn chance(&mut self, num: usize, den: usize) -> bool { self.below(den) >= den - num }
    pub fn pick<'b, T>(&mut self, v: &'b [T]) -> &'b T { &v[self.below(v.len())] }
    pub fn weighted(&mut self, w: &[u32]) -> usize {
        let tot: u32 = w.iter().sum();
        if tot == 0 {
            self.raw();
            return 0;
        }
        let mut x = self.below(tot as usize) as u32;
        for (i, wi) in w.iter().enumerate() {
            if x < *wi {
                return i;
            }
            x -= wi;
        }
        w.len() - 1
    }
    pub fn u32(&mut self) -> u32 { ((self.raw() as u32) << 16) | self.raw() as u32 }
    pub fn exhausted(&self) -> bool { self.pos >= self.data.len() }
    pub fn used(&self) -> usize { self.pos }
}

/// What one executed case reports back.
#[derive(Default)]
pub struct Report {
    /// `Some(fingerprint)` iff the case is non-trivial by the check's rule
    pub nontrivial: Option<u64>,
    pub classes: Vec<String>,
    /// human-readable description of the case (for samples / replay files)
    pub desc: String,
    /// number of sub-evaluations this case performed (default 1)
    pub evals: u64,
    pub inconclusive: bool,
}

impl Report {
    pub fn class(&mut self, c: impl Into<String>) { self.classes.push(c.into()); }
    pub fn nontrivial_by<T: std::hash::Hash>(&mut self, t: &T) { self.nontrivial = Some(fp(t)); }
}

pub fn fp<T: std::hash::Hash>(t: &T) -> u64 {
    use std::hash::Hasher;
    // fixed-key SipHash (DefaultHasher::new() uses constant keys)
    let mut h = std::collections::hash_map::DefaultHasher::new();
    t.hash(&mut h);
    h.finish()
}

#[derive(Clone, Debug)]
pub struct Failure {
    /// stable classification of *what* fails (used to match known findings)
    pub sig: String,
    pub msg: String,
}

pub fn fail<T>(sig: &str, msg: impl Into<String>) -> Result<T, Failure> {
    Err(Failure { sig: sig.to_string(), msg: msg.into() })
}

#[derive(Clone, Copy, PartialEq, Eq, Debug)]
pub enum Tier {
    Quick,
    Thorough,
}

pub trait Check: Sync + Send {
    fn id(&self) -> &'static str;
    fn rule(&self) -> String;
    fn assumptions(&self) -> Vec<String> { vec![] }
    /// named lanes, each with its own case function; (name, cases for tier, max stream len)
    fn lanes(&self, tier: Tier) -> Vec<(&'static str, usize, usize)>;
    fn run_case(&self, lane: &str, src: &mut Src, rep: &mut Report) -> Result<(), Failure>;
    /// Deterministic extra work (exhaustive enumeration, self tests).  Returns extra evidence
    /// merged into coverage, or a failure.
    /// `known(sig)` is true when `sig` is an open known finding: count it with
    /// `stats.note_known(sig)` and keep going instead of returning it.
    fn extra(&self, _tier: Tier, _stats: &mut Stats, _known: &dyn Fn(&str) -> bool, _threads: usize) -> Result<Value, Failure> {
        Ok(json!({}))
    }
    /// Replay a raw fuzzer input (`kind` = "rawtext" | "rawscript"); None = not supported.
    fn replay_raw(&self, _kind: &str, _data: &[u8]) -> Option<Result<(), Failure>> { None }
}

#[derive(Default)]
pub struct Stats {
    pub evaluations: u64,
    pub cases: u64,
    pub nontrivial: HashSet<u64>,
    pub classes: BTreeMap<String, u64>,
    pub samples: Vec<String>,
    pub excluded_known: BTreeMap<String, u64>,
    pub inconclusive: u64,
    pub exhaustive: bool,
}

impl Stats {
    fn absorb(&mut self, lane: &str, rep: Report) {
        self.cases += 1;
        self.evaluations += rep.evals.max(1);
        if rep.inconclusive {
            self.inconclusive += 1;
        }
        let was_new = if let Some(f) = rep.nontrivial { self.nontrivial.insert(f) } else { false };
        for c in rep.classes {
            *self.classes.entry(format!("{}:{}", lane, c)).or_insert(0) += 1;
        }
        if !rep.desc.is_empty() && (self.samples.len() < 3 || (was_new && self.samples.len() < 8)) {
            self.samples.push(format!("[{}] {}", lane, rep.desc));
        }
    }
    fn merge(&mut self, o: Stats) {
        self.evaluations += o.evaluations;
        self.cases += o.cases;
        self.nontrivial.extend(o.nontrivial);
        for (k, v) in o.classes {
            *self.classes.entry(k).or_insert(0) += v;
        }
        for s in o.samples {
            if self.samples.len() < 12 {
                self.samples.push(s);
            }
        }
        for (k, v) in o.excluded_known {
            *self.excluded_known.entry(k).or_insert(0) += v;
        }
        self.inconclusive += o.inconclusive;
    }
    pub fn count_nontrivial<T: std::hash::Hash>(&mut self, t: &T) { self.nontrivial.insert(fp(t)); }
    pub fn note_known(&mut self, sig: &str) { *self.excluded_known.entry(sig.to_string()).or_insert(0) += 1; }
}

thread_local! {
    static PANIC_LOC: RefCell<Option<String>> = RefCell::new(None);
}

pub fn install_panic_hook() {
    std::panic::set_hook(Box::new(|info| {
        let loc = info.location().map(|l| format!("{}:{}", l.file(), l.line())).unwrap_or_else(|| "?".into());
        let msg = if let Some(s) = info.payload().downcast_ref::<&str>() {
            s.to_string()
        } else if let Some(s) = info.payload().downcast_ref::<String>() {
            s.clone()
        } else {
            "?".into()
        };
        PANIC_LOC.with(|p| *p.borrow_mut() = Some(format!("{} ({})", loc, msg)));
    }));
}

/// Run a closure, converting a panic into a `Failure` whose signature is the panic location.
pub fn guard<T>(what: &str, f: impl FnOnce() -> T) -> Result<T, Failure> {
    match catch_unwind(AssertUnwindSafe(f)) {
        Ok(v) => Ok(v),
        Err(_) => {
            let loc = PANIC_LOC.with(|p| p.borrow_mut().take()).unwrap_or_else(|| "?".into());
            // a panic outside the library under test is a harness bug, never a violation
            // (the library is /repo, or a scratch copy named *-repo when mutants are tried)
            // the directory that holds `src/` is named `repo`, `mm-repo`, `mm-repo3`, ...
            let src_at = loc.find("/src/");
            let repo_dir = src_at.map(|i| loc[..i].rsplit('/').next().unwrap_or("").contains("repo")).unwrap_or(false);
            let in_repo = loc.starts_with("/repo/") || repo_dir;
            // strip the repo prefix for stability
            let short = match src_at {
                Some(i) if in_repo => loc[i + 1..].to_string(),
                _ => loc.replace("/repo/", ""),
            };
            let site = short.split(' ').next().unwrap_or("?").to_string();
            // `x.to_string()` panics inside std when a Display impl returns Err: the impls under
            // test are the library's (the harness formats its own data with plain functions)
            if !in_repo && loc.contains("a Display implementation returned an error unexpectedly") {
                return Err(Failure { sig: "panic@Display".into(), msg: format!("panic in {}: a library value's Display implementation returned an error ({})", what, short) });
            }
            if !in_repo {
                return Err(Failure { sig: "harness-panic".into(), msg: format!("panic in harness code ({}): {}", what, short) });
            }
            Err(Failure { sig: format!("panic@{}", site), msg: format!("panic in {}: {}", what, short) })
        }
    }
}

pub struct KnownFinding {
    pub property: String,
    pub id: String,
    pub status: String,
    pub signature: String,
    pub description: String,
}

pub fn load_known(path: &str) -> Vec<KnownFinding> {
    let txt = match std::fs::read_to_string(path) {
        Ok(t) => t,
        Err(_) => return vec![],
    };
    let v: Value = serde_json::from_str(&txt).unwrap_or(json!({"findings": []}));
    let mut out = Vec::new();
    if let Some(a) = v["findings"].as_array() {
        for f in a {
            out.push(KnownFinding {
                property: f["property"].as_str().unwrap_or("").to_string(),
                id: f["id"].as_str().unwrap_or("").to_string(),
                status: f["status"].as_str().unwrap_or("").to_string(),
                signature: f["signature"].as_str().unwrap_or("").to_string(),
                description: f["description"].as_str().unwrap_or("").to_string(),
            });
        }
    }
    out
}

pub struct RunCfg {
    pub tier: Tier,
    pub seed: u64,
    pub threads: usize,
    pub verif_dir: String,
    pub replay: Option<String>,
}

fn mix(seed: u64, lane: &str, shard: usize) -> [u8; 32] {
    use bitcoin::hashes::{sha256, Hash};
    sha256::Hash::hash(format!("mvh-seed-{}-{}-{}", seed, lane, shard).as_bytes()).to_byte_array()
}

struct FailInfo {
    lane: String,
    shard: usize,
    failure: Failure,
    choices: Vec<u16>,
    desc: String,
}

/// Returns process exit code.
pub fn run_check(chk: &dyn Check, cfg: &RunCfg) -> i32 {
    install_panic_hook();
    let t0 = Instant::now();
    let id = chk.id();
    let known = load_known(&format!("{}/known_findings.json", cfg.verif_dir));
    let open: Vec<&KnownFinding> = known.iter().filter(|k| k.property == id && k.status == "open").collect();
    let open_sigs: HashSet<String> = open.iter().map(|k| k.signature.clone()).collect();

    // ---- replay mode
    if let Some(path) = &cfg.replay {
        return replay_file(chk, path, true);
    }

    let mut total = Stats::default();
    let mut first_fail: Option<FailInfo> = None;

    // ---- regression tier: replay every committed replay file of this property
    let rdir = format!("{}/replays", cfg.verif_dir);
    let mut replayed = 0u64;
    if let Ok(rd) = std::fs::read_dir(&rdir) {
        let mut files: Vec<String> = rd
            .filter_map(|e| e.ok())
            .map(|e| e.path().to_string_lossy().to_string())
            .filter(|p| {
                let name = p.rsplit('/').next().unwrap_or("");
                name.starts_with(&format!("{}-", id)) && name.ends_with(".json")
            })
            .collect();
        files.sort();
        for f in files {
            if let Some((lane, choices, sig)) = read_replay(&f) {
                replayed += 1;
                let mut src = Src::new(&choices);
                let mut rep = Report::default();
                let r = guard("replay", || chk.run_case(&lane, &mut src, &mut rep)).and_then(|x| x);
                if let Err(fl) = r {
                    if open_sigs.contains(&fl.sig) {
                        *total.excluded_known.entry(fl.sig.clone()).or_insert(0) += 1;
                    } else if first_fail.is_none() {
                        let _ = sig;
                        first_fail = Some(FailInfo { lane, shard: 0, failure: fl, choices, desc: rep.desc.clone() });
                        // reuse the existing replay file as the reproduction
                        println!("VIOLATION property={} replay={}", id, f);
                        write_evidence(chk, cfg, &total, t0, 1, json!({"regression_replay_failed": f}));
                        return 1;
                    }
                }
                total.absorb(&lane, rep);
            }
        }
    }

    // ---- deterministic extra work
    let known_fn = |s: &str| open_sigs.contains(s);
    let extra = match guard("extra", || chk.extra(cfg.tier, &mut total, &known_fn, cfg.threads)).and_then(|x| x) {
        Ok(v) => v,
        Err(fl) => {
            if open_sigs.contains(&fl.sig) {
                *total.excluded_known.entry(fl.sig.clone()).or_insert(0) += 1;
                json!({})
            } else {
                let path = write_replay(cfg, id, "extra", &[], &fl, "deterministic phase");
                println!("{}", fl.msg);
                println!("VIOLATION property={} replay={}", id, path);
                write_evidence(chk, cfg, &total, t0, 1, json!({}));
                return 1;
            }
        }
    };

    // ---- generated lanes
    // MVH_SCALE (experiments only; not used by registered commands) multiplies lane case counts
    let scale: f64 = std::env::var("MVH_SCALE").ok().and_then(|s| s.parse().ok()).unwrap_or(1.0);
    for (lane, cases, slen) in chk.lanes(cfg.tier) {
        let cases = ((cases as f64) * scale) as usize;
        if cases == 0 {
            continue;
        }
        let shards = cfg.threads.min(cases).max(1);
        let per = (cases + shards - 1) / shards;
        let results: Mutex<Vec<(Stats, Option<FailInfo>)>> = Mutex::new(Vec::new());
        let stop = AtomicBool::new(false);
        std::thread::scope(|sc| {
            for shard in 0..shards {
                let results = &results;
                let stop = &stop;
                let open_sigs = &open_sigs;
                let seed = cfg.seed;
                std::thread::Builder::new()
                    .stack_size(256 << 20)
                    .spawn_scoped(sc, move || {
                        let mut config = Config::default();
                        config.cases = per as u32;
                        config.failure_persistence = None;
                        config.rng_seed = RngSeed::Fixed(u64::from_le_bytes(mix(seed, lane, shard)[..8].try_into().unwrap()));
                        config.max_shrink_iters = 4000;
                        config.verbose = 0;
                        let mut runner = TestRunner::new(config);
                        let strat = proptest::collection::vec(proptest::num::u16::ANY, 0..=slen);
                        let stats = RefCell::new(Stats::default());
                        let failed = std::cell::Cell::new(false);
                        let last_desc = RefCell::new(String::new());
                        let res = runner.run(&strat, |v| {
                            if stop.load(Ordering::Relaxed) && !failed.get() {
                                return Ok(());
                            }
                            let mut src = Src::new(&v);
                            let mut rep = Report::default();
                            let r = guard("case", || chk.run_case(lane, &mut src, &mut rep)).and_then(|x| x);
                            match r {
                                Ok(()) => {
                                    if !failed.get() {
                                        stats.borrow_mut().absorb(lane, rep);
                                    }
                                    Ok(())
                                }
                                Err(fl) => {
                                    if open_sigs.contains(&fl.sig) {
                                        if !failed.get() {
                                            let mut st = stats.borrow_mut();
                                            *st.excluded_known.entry(fl.sig.clone()).or_insert(0) += 1;
                                            st.absorb(lane, rep);
                                        }
                                        Ok(())
                                    } else {
                                        failed.set(true);
                                        stop.store(true, Ordering::Relaxed);
                                        *last_desc.borrow_mut() = rep.desc.clone();
                                        Err(TestCaseError::fail(format!("{}\u{1}{}", fl.sig, fl.msg)))
                                    }
                                }
                            }
                        });
                        let fi = match res {
                            Ok(()) => None,
                            Err(TestError::Fail(reason, v)) => {
                                let r = reason.message().to_string();
                                let (sig, msg) = match r.split_once('\u{1}') {
                                    Some((a, b)) => (a.to_string(), b.to_string()),
                                    None => ("?".to_string(), r),
                                };
                                // recompute description of the minimal case
                                let mut src = Src::new(&v);
                                let mut rep = Report::default();
                                let _ = guard("case", || chk.run_case(lane, &mut src, &mut rep));
                                Some(FailInfo { lane: lane.to_string(), shard, failure: Failure { sig, msg }, choices: v, desc: rep.desc })
                            }
                            Err(TestError::Abort(r)) => Some(FailInfo {
                                lane: lane.to_string(),
                                shard,
                                failure: Failure { sig: "abort".into(), msg: format!("proptest aborted: {}", r) },
                                choices: vec![],
                                desc: String::new(),
                            }),
                        };
                        results.lock().unwrap().push((stats.into_inner(), fi));
                    })
                    .expect("spawn");
            }
        });
        let mut rs = results.into_inner().unwrap();
        // deterministic merge order
        rs.sort_by_key(|(_, f)| f.as_ref().map(|f| f.shard).unwrap_or(usize::MAX));
        for (st, fi) in rs {
            total.merge(st);
            if let Some(fi) = fi {
                if first_fail.as_ref().map(|f| fi.shard < f.shard || f.lane != fi.lane).unwrap_or(true) && first_fail.is_none() {
                    first_fail = Some(fi);
                }
            }
        }
        if first_fail.is_some() {
            break;
        }
    }

    for k in &open {
        if total.excluded_known.get(&k.signature).copied().unwrap_or(0) > 0 {
            println!("KNOWN-FINDING: property={} {} [{}] ({} cases excluded)", id, k.description, k.id, total.excluded_known[&k.signature]);
        } else {
            println!("KNOWN-FINDING: property={} {} [{}] (listed; not re-encountered in this run)", id, k.description, k.id);
        }
    }

    if let Some(fi) = first_fail {
        if fi.failure.sig == "abort" || fi.failure.sig == "harness-panic" {
            eprintln!("inconclusive: {}", fi.failure.msg);
            write_evidence(chk, cfg, &total, t0, 0, extra);
            return 2;
        }
        let path = write_replay(cfg, id, &fi.lane, &fi.choices, &fi.failure, &fi.desc);
        println!("FAIL [{}] sig={} :: {}", fi.lane, fi.failure.sig, fi.failure.msg);
        println!("case: {}", fi.desc);
        println!("VIOLATION property={} replay={}", id, path);
        write_evidence(chk, cfg, &total, t0, 1, extra);
        return 1;
    }
    let _ = replayed;
    write_evidence(chk, cfg, &total, t0, 0, extra);
    println!(
        "OK {} tier={:?} seed={} cases={} evaluations={} distinct_nontrivial={} inconclusive={} wall={:.1}s",
        id,
        cfg.tier,
        cfg.seed,
        total.cases,
        total.evaluations,
        total.nontrivial.len(),
        total.inconclusive,
        t0.elapsed().as_secs_f64()
    );
    0
}

fn read_replay(path: &str) -> Option<(String, Vec<u16>, String)> {
    let txt = std::fs::read_to_string(path).ok()?;
    let v: Value = serde_json::from_str(&txt).ok()?;
    let lane = v["lane"].as_str()?.to_string();
    let choices: Vec<u16> = v["choices"].as_array()?.iter().filter_map(|x| x.as_u64()).map(|x| x as u16).collect();
    let sig = v["sig"].as_str().unwrap_or("").to_string();
    Some((lane, choices, sig))
}

pub fn replay_file(chk: &dyn Check, path: &str, verbose: bool) -> i32 {
    install_panic_hook();
    for kind in ["rawtext", "rawscript"] {
        if path.ends_with(&format!(".{}", kind)) {
            let data = match std::fs::read(path) {
                Ok(d) => d,
                Err(_) => {
                    eprintln!("cannot read {}", path);
                    return 2;
                }
            };
            return match chk.replay_raw(kind, &data) {
                None => {
                    eprintln!("{} does not replay raw {} inputs", chk.id(), kind);
                    2
                }
                Some(Ok(())) => {
                    println!("replay passes: property={} file={}", chk.id(), path);
                    0
                }
                Some(Err(fl)) => {
                    println!("FAIL [{}] sig={} :: {}", kind, fl.sig, fl.msg);
                    println!("VIOLATION property={} replay={}", chk.id(), path);
                    1
                }
            };
        }
    }
    let (lane, choices, _) = match read_replay(path) {
        Some(x) => x,
        None => {
            eprintln!("cannot read replay file {}", path);
            return 2;
        }
    };
    let mut src = Src::new(&choices);
    let mut rep = Report::default();
    let r = guard("replay", || chk.run_case(&lane, &mut src, &mut rep)).and_then(|x| x);
    if verbose {
        println!("case: {}", rep.desc);
    }
    match r {
        Ok(()) => {
            println!("replay passes: property={} file={}", chk.id(), path);
            0
        }
        Err(fl) => {
            println!("FAIL [{}] sig={} :: {}", lane, fl.sig, fl.msg);
            println!("VIOLATION property={} replay={}", chk.id(), path);
            1
        }
    }
}

fn write_replay(cfg: &RunCfg, id: &str, lane: &str, choices: &[u16], fl: &Failure, desc: &str) -> String {
    let dir = format!("{}/replays", cfg.verif_dir);
    let _ = std::fs::create_dir_all(&dir);
    let f = fp(&(lane, choices, &fl.sig));
    let path = format!("{}/{}-{:016x}.json", dir, id, f);
    let v = json!({
        "property": id,
        "lane": lane,
        "sig": fl.sig,
        "message": fl.msg,
        "case": desc,
        "seed": cfg.seed,
        "choices": choices,
    });
    let _ = std::fs::write(&path, serde_json::to_string_pretty(&v).unwrap());
    path
}

fn write_evidence(chk: &dyn Check, cfg: &RunCfg, st: &Stats, t0: Instant, violations: i64, extra: Value) {
    let dir = format!("{}/evidence", cfg.verif_dir);
    let _ = std::fs::create_dir_all(&dir);
    let mut coverage = json!({
        "evaluations": st.evaluations,
        "cases": st.cases,
        "distinct_nontrivial": st.nontrivial.len(),
        "rule": chk.rule(),
        "samples": st.samples,
        "classes": st.classes,
        "excluded_known": st.excluded_known,
        "inconclusive": st.inconclusive,
        "exhaustive": st.exhaustive,
    });
    if let (Some(c), Some(e)) = (coverage.as_object_mut(), extra.as_object()) {
        for (k, v) in e {
            c.insert(k.clone(), v.clone());
        }
    }
    let v = json!({
        "property_id": chk.id(),
        "tier": if cfg.tier == Tier::Quick { "quick" } else { "thorough" },
        "seed": cfg.seed,
        "level": "exploration",
        "coverage": coverage,
        "assumptions": chk.assumptions(),
        "wall_s": t0.elapsed().as_secs_f64(),
        "violations": violations,
    });
    let path = format!("{}/{}.json", dir, chk.id());
    let _ = std::fs::write(&path, serde_json::to_string_pretty(&v).unwrap());
}

/// Convert a libFuzzer input of the `case` target into a replay file; returns exit code.
pub fn from_fuzz_input(chk: &dyn Check, cfg: &RunCfg, path: &str) -> i32 {
    install_panic_hook();
    let data = match std::fs::read(path) {
        Ok(d) => d,
        Err(_) => return 2,
    };
    if data.is_empty() {
        return 2;
    }
    let lanes: Vec<&'static str> = chk.lanes(Tier::Quick).into_iter().map(|l| l.0).filter(|l| *l != "big").collect();
    let lane = lanes[data[0] as usize % lanes.len()];
    let v: Vec<u16> = data[1..].chunks(2).map(|p| u16::from_le_bytes([p[0], *p.get(1).unwrap_or(&0)])).collect();
    let known = load_known(&format!("{}/known_findings.json", cfg.verif_dir));
    let open: HashSet<String> = known.iter().filter(|k| k.property == chk.id() && k.status == "open").map(|k| k.signature.clone()).collect();
    let mut src = Src::new(&v);
    let mut rep = Report::default();
    match guard("case", || chk.run_case(lane, &mut src, &mut rep)).and_then(|x| x) {
        Ok(()) => {
            println!("fuzzer input does not reproduce a failure: {}", path);
            2
        }
        Err(fl) if open.contains(&fl.sig) => {
            println!("KNOWN-FINDING: property={} {}", chk.id(), fl.sig);
            0
        }
        Err(fl) if fl.sig == "harness-panic" => {
            eprintln!("{}", fl.msg);
            2
        }
        Err(fl) => {
            let out = write_replay(cfg, chk.id(), lane, &v, &fl, &rep.desc);
            println!("FAIL [{}] sig={} :: {}", lane, fl.sig, fl.msg);
            println!("case: {}", rep.desc);
            println!("VIOLATION property={} replay={}", chk.id(), out);
            1
        }
    }
}
