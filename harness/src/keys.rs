//! Deterministic key / preimage universe shared by all checks.

use bitcoin::bip32::{ChildNumber, Xpriv, Xpub};
use bitcoin::hashes::{hash160, ripemd160, sha256, sha256d, Hash};
use secp256k1::{PublicKey, Secp256k1, SecretKey};
use std::collections::HashMap;
use std::sync::OnceLock;

pub const N_SINGLE: usize = 12;
pub const N_ACCOUNTS: usize = 3;
pub const N_CHAIN: u32 = 3;
pub const N_INDEX: u32 = 8;
pub const N_PREIMAGES: usize = 4;

pub struct Universe {
    pub secp: Secp256k1<secp256k1::All>,
    /// single keys
    pub sks: Vec<SecretKey>,
    pub pks: Vec<PublicKey>,
    pub master: Xpriv,
    /// (origin path text e.g. "48'/0'/0'", account xpriv, account xpub)
    pub accounts: Vec<(String, Xpriv, Xpub)>,
    /// x-only bytes -> secret key (for all single keys and all derived keys in range)
    pub by_xonly: HashMap<[u8; 32], SecretKey>,
    pub preimages: Vec<[u8; 32]>,
    /// digest bytes -> preimage
    pub by_digest: HashMap<Vec<u8>, [u8; 32]>,
}

static U: OnceLock<Universe> = OnceLock::new();

pub fn u() -> &'static Universe {
    U.get_or_init(|| {
        let secp = Secp256k1::new();
        let mut sks = Vec::new();
        let mut pks = Vec::new();
        let mut by_xonly = HashMap::new();
        for i in 0..N_SINGLE {
            let h = sha256::Hash::hash(format!("mvh-key-{}", i).as_bytes()).to_byte_array();
            let sk = SecretKey::from_slice(&h).expect("valid key");
            let pk = PublicKey::from_secret_key(&secp, &sk);
            by_xonly.insert(pk.x_only_public_key().0.serialize(), sk);
            sks.push(sk);
            pks.push(pk);
        }
        let seed = sha256::Hash::hash(b"mvh-master-seed").to_byte_array();
        let master = Xpriv::new_master(bitcoin::NetworkKind::Main, &seed).expect("master");
        let mut accounts = Vec::new();
        for a in 0..N_ACCOUNTS {
            let path = vec![
                ChildNumber::from_hardened_idx(48).unwrap(),
                ChildNumber::from_hardened_idx(0).unwrap(),
                ChildNumber::from_hardened_idx(a as u32).unwrap(),
            ];
            let xprv = master.derive_priv(&secp, &path).expect("derive");
            let xpub = Xpub::from_priv(&secp, &xprv);
            for c in 0..N_CHAIN {
                for i in 0..N_INDEX {
                    let p = vec![ChildNumber::from_normal_idx(c).unwrap(), ChildNumber::from_normal_idx(i).unwrap()];
                    let child = xprv.derive_priv(&secp, &p).expect("derive");
                    let pk = PublicKey::from_secret_key(&secp, &child.private_key);
                    by_xonly.insert(pk.x_only_public_key().0.serialize(), child.private_key);
                }
                // also depth-1 children (path "/c")
                let child = xprv.derive_priv(&secp, &[ChildNumber::from_normal_idx(c).unwrap()]).unwrap();
                let pk = PublicKey::from_secret_key(&secp, &child.private_key);
                by_xonly.insert(pk.x_only_public_key().0.serialize(), child.private_key);
            }
            // the account key itself
            by_xonly.insert(xpub.public_key.x_only_public_key().0.serialize(), xprv.private_key);
            accounts.push((format!("48'/0'/{}'", a), xprv, xpub));
        }
        let mut preimages = Vec::new();
        let mut by_digest = HashMap::new();
        for i in 0..N_PREIMAGES {
            let p = sha256::Hash::hash(format!("mvh-preimage-{}", i).as_bytes()).to_byte_array();
            preimages.push(p);
            by_digest.insert(sha256::Hash::hash(&p).to_byte_array().to_vec(), p);
            by_digest.insert(sha256d::Hash::hash(&p).to_byte_array().to_vec(), p);
            by_digest.insert(ripemd160::Hash::hash(&p).to_byte_array().to_vec(), p);
            by_digest.insert(hash160::Hash::hash(&p).to_byte_array().to_vec(), p);
        }
        Universe { secp, sks, pks, master, accounts, by_xonly, preimages, by_digest }
    })
}

pub fn hex(b: &[u8]) -> String {
    let mut s = String::with_capacity(b.len() * 2);
    for x in b {
        s.push_str(&format!("{:02x}", x));
    }
    s
}

pub fn unhex(s: &str) -> Result<Vec<u8>, String> {
    if s.len() % 2 != 0 || !s.is_ascii() {
        return Err(format!("bad hex `{}`", s));
    }
    let mut v = Vec::new();
    for i in (0..s.len()).step_by(2) {
        v.push(u8::from_str_radix(&s[i..i + 2], 16).map_err(|e| format!("{}: {}", s, e))?);
    }
    Ok(v)
}

/// Text forms of single key `i`.
pub fn key_compressed(i: usize) -> String { hex(&u().pks[i].serialize()) }
pub fn key_uncompressed(i: usize) -> String { hex(&u().pks[i].serialize_uncompressed()) }
pub fn key_xonly(i: usize) -> String { hex(&u().pks[i].x_only_public_key().0.serialize()) }

pub fn master_fingerprint() -> String { hex(&u().master.fingerprint(&u().secp).to_bytes()) }

/// Definite xpub key text: `[fp/48'/0'/a']xpub.../c/i`
pub fn key_xpub(account: usize, chain: u32, index: u32, with_origin: bool) -> String {
    let (ref path, _, ref xpub) = u().accounts[account];
    if with_origin {
        format!("[{}/{}]{}/{}/{}", master_fingerprint(), path, xpub, chain, index)
    } else {
        format!("{}/{}/{}", xpub, chain, index)
    }
}

/// Resolve a key text to its serialized public key (33, 65 or 32 bytes), using the own BIP32
/// implementation for extended keys.  Only definite, unhardened derivations are supported.
pub fn resolve(text: &str) -> Result<Vec<u8>, String> {
    let mut t = text;
    if t.starts_with('[') {
        let end = t.find(']').ok_or("unterminated origin")?;
        t = &t[end + 1..];
    }
    if t.len() == 64 || t.len() == 66 || t.len() == 130 {
        if let Ok(b) = unhex(t) {
            return Ok(b);
        }
    }
    let mut parts = t.split('/');
    let xp = parts.next().ok_or("empty key")?;
    let x = crate::bip32::XPub::decode(xp).ok_or_else(|| format!("cannot decode key `{}`", text))?;
    let mut path = Vec::new();
    for p in parts {
        let n: u32 = p.parse().map_err(|_| format!("unsupported path element `{}` in `{}`", p, text))?;
        path.push(n);
    }
    let d = x.derive(&path).ok_or("derivation failed")?;
    Ok(d.key.serialize().to_vec())
}

pub fn xonly_of(bytes: &[u8]) -> Option<[u8; 32]> {
    let mut r = [0u8; 32];
    match bytes.len() {
        32 => r.copy_from_slice(bytes),
        33 => r.copy_from_slice(&bytes[1..]),
        65 => r.copy_from_slice(&bytes[1..33]),
        _ => return None,
    }
    Some(r)
}

/// Compressed serialization of a 33/65-byte public key (None for other lengths / invalid points).
pub fn compressed_of(bytes: &[u8]) -> Option<Vec<u8>> {
    if bytes.len() != 33 && bytes.len() != 65 {
        return None;
    }
    secp256k1::PublicKey::from_slice(bytes).ok().map(|p| p.serialize().to_vec())
}

/// Secret key for serialized public key bytes, if it belongs to the universe.  The returned
/// secret corresponds to the *given* public key (negated if needed for 33/65-byte forms).
pub fn secret_for(bytes: &[u8]) -> Option<SecretKey> {
    let x = xonly_of(bytes)?;
    let sk = *u().by_xonly.get(&x)?;
    if bytes.len() == 32 {
        return Some(sk);
    }
    let pk = PublicKey::from_secret_key(&u().secp, &sk);
    let want = PublicKey::from_slice(bytes).ok()?;
    if pk == want {
        Some(sk)
    } else {
        Some(sk.negate())
    }
}

/// hash atoms (hex text) for preimage `i`
pub fn sha256_of(i: usize) -> String { hex(&sha256::Hash::hash(&u().preimages[i]).to_byte_array()) }
/// forward hex, as `miniscript::hash256::Hash` displays it
pub fn hash256_of(i: usize) -> String { hex(&sha256d::Hash::hash(&u().preimages[i]).to_byte_array()) }
pub fn ripemd160_of(i: usize) -> String { hex(&ripemd160::Hash::hash(&u().preimages[i]).to_byte_array()) }
pub fn hash160_of(i: usize) -> String { hex(&hash160::Hash::hash(&u().preimages[i]).to_byte_array()) }

pub fn preimage_for_digest(d: &[u8]) -> Option<[u8; 32]> { u().by_digest.get(d).copied() }
