//! Self-validation of the execution oracle on spends built without the miniscript crate.

use crate::keys;
use crate::mdesc::{single_push, MDesc, MTree};
use crate::mirror::ast::{b, Node};
use crate::mirror::encode::{encode, key_bytes};
use crate::mirror::spec::Ctx;
use crate::refscript::{verify_input, Flags};
use crate::world::{make_tx, sign_real, TxCtx, World};
use bitcoin::{ScriptBuf, Witness};
use secp256k1::Secp256k1;
use std::collections::BTreeSet;

fn world_all(lock: u32, seq: u32) -> World {
    let mut keys_set = BTreeSet::new();
    for x in keys::u().by_xonly.keys() {
        keys_set.insert(*x);
    }
    World { keys: keys_set, preimages: keys::u().preimages.iter().copied().collect(), lock_time: lock, sequence: seq, tx_version: 2 }
}

fn put(t: &mut TxCtx, script_sig: Vec<u8>, wit: Vec<Vec<u8>>) {
    t.tx.input[t.idx].script_sig = ScriptBuf::from_bytes(script_sig);
    t.tx.input[t.idx].witness = Witness::from_slice(&wit);
}

/// Returns list of (name, hand-built satisfied tx).
pub fn honest_spends() -> Result<Vec<(String, TxCtx)>, String> {
    let mut out = Vec::new();
    let k0 = keys::key_compressed(0);
    let k1 = keys::key_compressed(1);
    let k2 = keys::key_compressed(2);
    let ku = keys::key_uncompressed(3);
    let kx = keys::key_xonly(4);
    let w = world_all(0, 0xffff_fffe);
    let pk = |k: &str| Node::Check(b(Node::PkK(k.to_string())));

    // bare pk (compressed and uncompressed)
    for k in [&k0, &ku] {
        let d = MDesc::Bare(pk(k));
        let sc = d.scripts()?;
        let mut t = make_tx(&sc.spk, w.lock_time, w.sequence, 2, 1);
        let s = sign_real(&d, &w, &t)?;
        let sig = s.ecdsa[&key_bytes(k, Ctx::Bare)?].to_vec();
        put(&mut t, single_push(&sig), vec![]);
        out.push((format!("bare-pk-{}", k.len()), t));
    }
    // pkh
    {
        let d = MDesc::Pkh(k0.clone());
        let sc = d.scripts()?;
        let mut t = make_tx(&sc.spk, w.lock_time, w.sequence, 1, 0);
        let s = sign_real(&d, &w, &t)?;
        let kb = key_bytes(&k0, Ctx::Legacy)?;
        let mut ss = single_push(&s.ecdsa[&kb].to_vec());
        ss.extend(single_push(&kb));
        put(&mut t, ss, vec![]);
        out.push(("pkh".into(), t));
    }
    // wpkh, sh-wpkh
    for wrapped in [false, true] {
        let d = if wrapped { MDesc::ShWpkh(k1.clone()) } else { MDesc::Wpkh(k1.clone()) };
        let sc = d.scripts()?;
        let mut t = make_tx(&sc.spk, w.lock_time, w.sequence, 3, 2);
        let s = sign_real(&d, &w, &t)?;
        let kb = key_bytes(&k1, Ctx::Segwitv0)?;
        let ss = if wrapped { single_push(sc.redeem.as_ref().unwrap()) } else { vec![] };
        put(&mut t, ss, vec![s.ecdsa[&kb].to_vec(), kb.clone()]);
        out.push((if wrapped { "sh-wpkh".into() } else { "wpkh".into() }, t));
    }
    // wsh / sh-wsh / sh 2-of-3 with after(100)
    let ms = Node::AndV(
        b(Node::Verify(b(Node::Multi(2, vec![k0.clone(), k1.clone(), k2.clone()])))),
        b(Node::After(100)),
    );
    for which in 0..3 {
        let d = match which {
            0 => MDesc::Wsh(ms.clone()),
            1 => MDesc::ShWsh(ms.clone()),
            _ => MDesc::Sh(ms.clone()),
        };
        let w2 = world_all(100, 0xffff_fffe);
        let sc = d.scripts()?;
        let mut t = make_tx(&sc.spk, w2.lock_time, w2.sequence, 2, 0);
        let s = sign_real(&d, &w2, &t)?;
        let ctx = d.ctx();
        let s0 = s.ecdsa[&key_bytes(&k0, ctx)?].to_vec();
        let s2 = s.ecdsa[&key_bytes(&k2, ctx)?].to_vec();
        match which {
            0 => put(&mut t, vec![], vec![vec![], s0, s2, sc.witness_script.clone().unwrap()]),
            1 => put(&mut t, single_push(sc.redeem.as_ref().unwrap()), vec![vec![], s0, s2, sc.witness_script.clone().unwrap()]),
            _ => {
                let mut ss = vec![0u8];
                ss.extend(single_push(&s0));
                ss.extend(single_push(&s2));
                ss.extend(single_push(sc.redeem.as_ref().unwrap()));
                put(&mut t, ss, vec![]);
            }
        }
        out.push((format!("multi-after-{}", d.kind()), t));
    }
    // wsh with older + hash
    {
        let ms = Node::AndV(
            b(Node::Verify(b(pk(&k0)))),
            b(Node::AndV(b(Node::Verify(b(Node::Sha256(keys::sha256_of(1))))), b(Node::Older(144)))),
        );
        let d = MDesc::Wsh(ms);
        let w2 = world_all(0, 144);
        let sc = d.scripts()?;
        let mut t = make_tx(&sc.spk, w2.lock_time, w2.sequence, 1, 0);
        let s = sign_real(&d, &w2, &t)?;
        let s0 = s.ecdsa[&key_bytes(&k0, Ctx::Segwitv0)?].to_vec();
        put(&mut t, vec![], vec![keys::u().preimages[1].to_vec(), s0, sc.witness_script.clone().unwrap()]);
        out.push(("wsh-older-hash".into(), t));
    }
    // tr key path (with and without tree)
    let leaf_a = pk(&kx);
    let leaf_b = Node::MultiA(2, vec![keys::key_xonly(5), keys::key_xonly(6), keys::key_xonly(7)]);
    let tree = MTree::Branch(Box::new(MTree::Leaf(leaf_a.clone())), Box::new(MTree::Leaf(leaf_b.clone())));
    for with_tree in [false, true] {
        let d = MDesc::Tr(keys::key_xonly(0), if with_tree { Some(tree.clone()) } else { None });
        let sc = d.scripts()?;
        let mut t = make_tx(&sc.spk, w.lock_time, w.sequence, 2, 1);
        let s = sign_real(&d, &w, &t)?;
        put(&mut t, vec![], vec![s.tap_key.unwrap().to_vec()]);
        out.push((format!("tr-key-{}", with_tree), t));
    }
    // tr script path, both leaves
    {
        let d = MDesc::Tr(keys::key_xonly(0), Some(tree.clone()));
        let sc = d.scripts()?;
        let model = tree.to_model()?;
        let leaves = model.leaves();
        let ik = key_bytes(&keys::key_xonly(0), Ctx::Tap)?;
        let mut ik32 = [0u8; 32];
        ik32.copy_from_slice(&ik);
        let (_, parity) = crate::bip341::output_key(&ik32, Some(&model.root())).ok_or("tweak")?;
        for (li, (_, script, path)) in leaves.iter().enumerate() {
            let mut t = make_tx(&sc.spk, w.lock_time, w.sequence, 2, 0);
            let s = sign_real(&d, &w, &t)?;
            let lh = crate::bip341::tapleaf_hash(0xc0, script);
            let mut control = vec![0xc0 | parity];
            control.extend_from_slice(&ik32);
            for p in path {
                control.extend_from_slice(p);
            }
            let mut wit: Vec<Vec<u8>> = Vec::new();
            if li == 0 {
                let kb = key_bytes(&kx, Ctx::Tap)?;
                let mut x = [0u8; 32];
                x.copy_from_slice(&kb);
                wit.push(s.tap_leaf[&(x, lh)].to_vec());
                assert_eq!(script, &encode(&leaf_a, Ctx::Tap)?);
            } else {
                // multi_a(2, k5,k6,k7): sigs in reverse key order; use k5 and k7
                let get = |i: usize| -> Vec<u8> {
                    let kb = key_bytes(&keys::key_xonly(i), Ctx::Tap).unwrap();
                    let mut x = [0u8; 32];
                    x.copy_from_slice(&kb);
                    s.tap_leaf[&(x, lh)].to_vec()
                };
                wit.push(get(7));
                wit.push(vec![]);
                wit.push(get(5));
            }
            wit.push(script.clone());
            wit.push(control);
            put(&mut t, vec![], wit);
            out.push((format!("tr-leaf-{}", li), t));
        }
    }
    Ok(out)
}

pub fn check_oracle() -> Result<usize, String> {
    let secp = Secp256k1::verification_only();
    let spends = honest_spends()?;
    let mut n = 0;
    for (name, t) in &spends {
        verify_input(&t.tx, t.idx, &t.prevouts, &Flags::STANDARD, &secp)
            .map_err(|e| format!("oracle rejects honest spend {}: {:?}", name, e))?;
        verify_input(&t.tx, t.idx, &t.prevouts, &Flags::CONSENSUS, &secp)
            .map_err(|e| format!("oracle (consensus) rejects honest spend {}: {:?}", name, e))?;
        n += 1;
        // mutations: each must make verification fail
        // 1. change nLockTime (signatures commit to it)
        let mut m = t.clone();
        m.tx.lock_time = bitcoin::absolute::LockTime::from_consensus(t.tx.lock_time.to_consensus_u32() ^ 1);
        if verify_input(&m.tx, m.idx, &m.prevouts, &Flags::CONSENSUS, &secp).is_ok() {
            return Err(format!("oracle accepts {} after nLockTime change", name));
        }
        // 2. change the output amount
        let mut m = t.clone();
        m.tx.output[0].value = bitcoin::Amount::from_sat(1);
        if verify_input(&m.tx, m.idx, &m.prevouts, &Flags::CONSENSUS, &secp).is_ok() {
            return Err(format!("oracle accepts {} after output change", name));
        }
        // 3. flip one byte in every witness / scriptSig element in turn
        let wit: Vec<Vec<u8>> = t.tx.input[t.idx].witness.iter().map(|e| e.to_vec()).collect();
        for i in 0..wit.len() {
            if wit[i].is_empty() {
                continue;
            }
            let mut w2 = wit.clone();
            let l = w2[i].len();
            w2[i][l / 2] ^= 0x04;
            let mut m = t.clone();
            m.tx.input[m.idx].witness = Witness::from_slice(&w2);
            if verify_input(&m.tx, m.idx, &m.prevouts, &Flags::CONSENSUS, &secp).is_ok() {
                return Err(format!("oracle accepts {} after flipping witness item {}", name, i));
            }
            n += 1;
        }
        let ss = t.tx.input[t.idx].script_sig.as_bytes().to_vec();
        if ss.len() > 4 {
            for pos in [ss.len() / 3, ss.len() / 2, ss.len() - 2] {
                let mut s2 = ss.clone();
                s2[pos] ^= 0x04;
                let mut m = t.clone();
                m.tx.input[m.idx].script_sig = ScriptBuf::from_bytes(s2);
                if verify_input(&m.tx, m.idx, &m.prevouts, &Flags::CONSENSUS, &secp).is_ok() {
                    return Err(format!("oracle accepts {} after flipping scriptSig byte {}", name, pos));
                }
                n += 1;
            }
        }
        // 4. the prevout amount (segwit/taproot sigs commit to it)
        if !wit.is_empty() {
            let mut m = t.clone();
            m.prevouts[m.idx].value = bitcoin::Amount::from_sat(5);
            if verify_input(&m.tx, m.idx, &m.prevouts, &Flags::CONSENSUS, &secp).is_ok() {
                return Err(format!("oracle accepts {} after prevout amount change", name));
            }
        }
    }
    // time lock semantics
    for (name, t) in &spends {
        if name.starts_with("multi-after") {
            for (lock, seq, ok) in [(99u32, 0xffff_fffeu32, false), (100, 0xffff_ffff, false), (500_000_100, 0xffff_fffe, false)] {
                let _ = ok;
                let mut m = t.clone();
                m.tx.lock_time = bitcoin::absolute::LockTime::from_consensus(lock);
                m.tx.input[m.idx].sequence = bitcoin::Sequence(seq);
                // signatures are now invalid anyway; what matters is that CLTV itself fails:
                match verify_input(&m.tx, m.idx, &m.prevouts, &Flags::CONSENSUS, &secp) {
                    Ok(_) => return Err(format!("oracle accepts {} with lock {} seq {:#x}", name, lock, seq)),
                    Err(_) => {}
                }
            }
        }
    }
    Ok(n)
}

pub fn run() -> i32 {
    match check_oracle() {
        Ok(n) => {
            println!("selftest ok: {} oracle evaluations", n);
            // descsum vector from BIP380
            let c = crate::descsum::checksum("raw(deadbeef)");
            if c.as_deref() != Some("89f8spxm") {
                println!("descsum self-test failed: {:?}", c);
                return 2;
            }
            0
        }
        Err(e) => {
            println!("selftest FAILED: {}", e);
            2
        }
    }
}
