//! Mirror descriptors: own computation of scriptPubKey / redeem / witness / leaf scripts.

use crate::bip341;
use crate::mirror::ast::{self, Node};
use crate::mirror::encode::{encode, key_bytes, push_bytes};
use crate::mirror::spec::Ctx;
use crate::refscript::op::*;
use bitcoin::hashes::{hash160, sha256, Hash};

#[derive(Clone, Debug, PartialEq, Eq, Hash)]
pub enum MTree {
    Leaf(Node),
    Branch(Box<MTree>, Box<MTree>),
}

impl MTree {
    pub fn leaves(&self) -> Vec<(usize, &Node)> {
        let mut v = Vec::new();
        self.walk(0, &mut v);
        v
    }
    fn walk<'a>(&'a self, d: usize, v: &mut Vec<(usize, &'a Node)>) {
        match self {
            MTree::Leaf(n) => v.push((d, n)),
            MTree::Branch(a, b) => {
                a.walk(d + 1, v);
                b.walk(d + 1, v);
            }
        }
    }
    pub fn print(&self, sugar: bool) -> String {
        match self {
            MTree::Leaf(n) => ast::print(n, sugar),
            MTree::Branch(a, b) => format!("{{{},{}}}", a.print(sugar), b.print(sugar)),
        }
    }
    pub fn to_model(&self) -> Result<bip341::Tree, String> {
        Ok(match self {
            MTree::Leaf(n) => bip341::Tree::Leaf(encode(n, Ctx::Tap)?),
            MTree::Branch(a, b) => bip341::Tree::Branch(Box::new(a.to_model()?), Box::new(b.to_model()?)),
        })
    }
}

#[derive(Clone, Debug, PartialEq, Eq, Hash)]
pub enum MDesc {
    Bare(Node),
    Pkh(String),
    Wpkh(String),
    ShWpkh(String),
    Sh(Node),
    Wsh(Node),
    ShWsh(Node),
    Tr(String, Option<MTree>),
}

#[derive(Clone, Debug)]
pub struct Scripts {
    pub spk: Vec<u8>,
    /// p2sh redeem script (sh, sh-wsh, sh-wpkh)
    pub redeem: Option<Vec<u8>>,
    /// p2wsh witness script
    pub witness_script: Option<Vec<u8>>,
}

pub fn p2pkh_script(h: &[u8; 20]) -> Vec<u8> {
    let mut s = vec![DUP, HASH160, 20];
    s.extend_from_slice(h);
    s.push(EQUALVERIFY);
    s.push(CHECKSIG);
    s
}
pub fn p2sh_spk(redeem: &[u8]) -> Vec<u8> {
    let h = hash160::Hash::hash(redeem).to_byte_array();
    let mut s = vec![HASH160, 20];
    s.extend_from_slice(&h);
    s.push(EQUAL);
    s
}
pub fn p2wsh_spk(ws: &[u8]) -> Vec<u8> {
    let h = sha256::Hash::hash(ws).to_byte_array();
    let mut s = vec![OP_0, 32];
    s.extend_from_slice(&h);
    s
}
pub fn p2wpkh_spk(h: &[u8; 20]) -> Vec<u8> {
    let mut s = vec![OP_0, 20];
    s.extend_from_slice(h);
    s
}

impl MDesc {
    pub fn ctx(&self) -> Ctx {
        match self {
            MDesc::Bare(_) => Ctx::Bare,
            MDesc::Pkh(_) | MDesc::Sh(_) => Ctx::Legacy,
            MDesc::Wpkh(_) | MDesc::ShWpkh(_) | MDesc::Wsh(_) | MDesc::ShWsh(_) => Ctx::Segwitv0,
            MDesc::Tr(..) => Ctx::Tap,
        }
    }
    pub fn kind(&self) -> &'static str {
        match self {
            MDesc::Bare(_) => "bare",
            MDesc::Pkh(_) => "pkh",
            MDesc::Wpkh(_) => "wpkh",
            MDesc::ShWpkh(_) => "sh-wpkh",
            MDesc::Sh(_) => "sh",
            MDesc::Wsh(_) => "wsh",
            MDesc::ShWsh(_) => "sh-wsh",
            MDesc::Tr(_, None) => "tr-key",
            MDesc::Tr(_, Some(_)) => "tr-tree",
        }
    }
    pub fn print(&self, sugar: bool) -> String {
        match self {
            MDesc::Bare(n) => ast::print(n, sugar),
            MDesc::Pkh(k) => format!("pkh({})", k),
            MDesc::Wpkh(k) => format!("wpkh({})", k),
            MDesc::ShWpkh(k) => format!("sh(wpkh({}))", k),
            MDesc::Sh(n) => format!("sh({})", ast::print(n, sugar)),
            MDesc::Wsh(n) => format!("wsh({})", ast::print(n, sugar)),
            MDesc::ShWsh(n) => format!("sh(wsh({}))", ast::print(n, sugar)),
            MDesc::Tr(k, None) => format!("tr({})", k),
            MDesc::Tr(k, Some(t)) => format!("tr({},{})", k, t.print(sugar)),
        }
    }
    /// The miniscript nodes of this descriptor (with their context).
    pub fn nodes(&self) -> Vec<&Node> {
        match self {
            MDesc::Bare(n) | MDesc::Sh(n) | MDesc::Wsh(n) | MDesc::ShWsh(n) => vec![n],
            MDesc::Tr(_, Some(t)) => t.leaves().into_iter().map(|(_, n)| n).collect(),
            _ => vec![],
        }
    }
    pub fn all_keys(&self) -> Vec<String> {
        let mut v = Vec::new();
        match self {
            MDesc::Pkh(k) | MDesc::Wpkh(k) | MDesc::ShWpkh(k) => v.push(k.clone()),
            MDesc::Tr(k, _) => v.push(k.clone()),
            _ => {}
        }
        for n in self.nodes() {
            v.extend(n.keys());
        }
        v
    }
    pub fn scripts(&self) -> Result<Scripts, String> {
        Ok(match self {
            MDesc::Bare(n) => Scripts { spk: encode(n, Ctx::Bare)?, redeem: None, witness_script: None },
            MDesc::Pkh(k) => {
                let h = hash160::Hash::hash(&key_bytes(k, Ctx::Legacy)?).to_byte_array();
                Scripts { spk: p2pkh_script(&h), redeem: None, witness_script: None }
            }
            MDesc::Wpkh(k) => {
                let h = hash160::Hash::hash(&key_bytes(k, Ctx::Segwitv0)?).to_byte_array();
                Scripts { spk: p2wpkh_spk(&h), redeem: None, witness_script: None }
            }
            MDesc::ShWpkh(k) => {
                let h = hash160::Hash::hash(&key_bytes(k, Ctx::Segwitv0)?).to_byte_array();
                let r = p2wpkh_spk(&h);
                Scripts { spk: p2sh_spk(&r), redeem: Some(r), witness_script: None }
            }
            MDesc::Sh(n) => {
                let r = encode(n, Ctx::Legacy)?;
                Scripts { spk: p2sh_spk(&r), redeem: Some(r), witness_script: None }
            }
            MDesc::Wsh(n) => {
                let w = encode(n, Ctx::Segwitv0)?;
                Scripts { spk: p2wsh_spk(&w), redeem: None, witness_script: Some(w) }
            }
            MDesc::ShWsh(n) => {
                let w = encode(n, Ctx::Segwitv0)?;
                let r = p2wsh_spk(&w);
                Scripts { spk: p2sh_spk(&r), redeem: Some(r), witness_script: Some(w) }
            }
            MDesc::Tr(k, t) => {
                let kb = key_bytes(k, Ctx::Tap)?;
                let mut ik = [0u8; 32];
                ik.copy_from_slice(&kb);
                let root = match t {
                    Some(t) => Some(t.to_model()?.root()),
                    None => None,
                };
                let (q, _) = bip341::output_key(&ik, root.as_ref()).ok_or("tweak failed")?;
                let mut s = vec![OP_1, 32];
                s.extend_from_slice(&q);
                Scripts { spk: s, redeem: None, witness_script: None }
            }
        })
    }
}

pub fn single_push(data: &[u8]) -> Vec<u8> {
    let mut v = Vec::new();
    push_bytes(&mut v, data);
    v
}

impl MTree {
    pub fn map_keys(&self, f: &mut dyn FnMut(&str) -> String) -> MTree {
        match self {
            MTree::Leaf(n) => MTree::Leaf(n.map_keys(f)),
            MTree::Branch(a, b) => {
                let a2 = a.map_keys(f);
                MTree::Branch(Box::new(a2), Box::new(b.map_keys(f)))
            }
        }
    }
}

impl MDesc {
    /// Apply `f` to every key, in order of appearance in the text form.
    pub fn map_keys(&self, f: &mut dyn FnMut(&str) -> String) -> MDesc {
        match self {
            MDesc::Bare(n) => MDesc::Bare(n.map_keys(f)),
            MDesc::Pkh(k) => MDesc::Pkh(f(k)),
            MDesc::Wpkh(k) => MDesc::Wpkh(f(k)),
            MDesc::ShWpkh(k) => MDesc::ShWpkh(f(k)),
            MDesc::Sh(n) => MDesc::Sh(n.map_keys(f)),
            MDesc::Wsh(n) => MDesc::Wsh(n.map_keys(f)),
            MDesc::ShWsh(n) => MDesc::ShWsh(n.map_keys(f)),
            MDesc::Tr(k, t) => {
                let k2 = f(k);
                MDesc::Tr(k2, t.as_ref().map(|t| t.map_keys(f)))
            }
        }
    }
}
