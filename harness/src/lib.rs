pub fn hello() {}
