//! Own analyses over the mirror AST: lift to a policy, key kinds, fragment census, time-lock
//! path sets.  These are the predicates C12 holds the validation switches to.

use super::ast::Node;
use super::spec::{self, Ctx};
use crate::poleval::MPol;

/// The specification's policy semantics of a miniscript.
pub fn lift(n: &Node) -> MPol {
    use Node::*;
    match n {
        True => MPol::Trivial,
        False => MPol::Unsat,
        PkK(k) | PkH(k) => MPol::Key(k.clone()),
        RawPkH(h) => MPol::Key(format!("rawpkh:{}", h)),
        After(t) => MPol::After(*t),
        Older(t) => MPol::Older(*t),
        Sha256(h) => MPol::Sha256(h.clone()),
        Hash256(h) => MPol::Hash256(h.clone()),
        Ripemd160(h) => MPol::Ripemd160(h.clone()),
        Hash160(h) => MPol::Hash160(h.clone()),
        Alt(x) | Swap(x) | Check(x) | DupIf(x) | Verify(x) | NonZero(x) | ZeroNotEqual(x) => lift(x),
        AndV(x, y) | AndB(x, y) => MPol::And(vec![lift(x), lift(y)]),
        AndOr(x, y, z) => MPol::Or(vec![(1, MPol::And(vec![lift(x), lift(y)])), (1, lift(z))]),
        OrB(x, y) | OrD(x, y) | OrC(x, y) | OrI(x, y) => MPol::Or(vec![(1, lift(x)), (1, lift(y))]),
        Thresh(k, v) => MPol::Thresh(*k, v.iter().map(lift).collect()),
        Multi(k, ks) | SortedMulti(k, ks) | MultiA(k, ks) | SortedMultiA(k, ks) => MPol::Thresh(*k, ks.iter().map(|x| MPol::Key(x.clone())).collect()),
    }
}

#[derive(Clone, Copy, Debug, PartialEq, Eq)]
pub enum KeyKind {
    Compressed,
    Uncompressed,
    XOnly,
}

pub fn key_kind(text: &str) -> KeyKind {
    let mut t = text;
    if t.starts_with('[') {
        if let Some(e) = t.find(']') {
            t = &t[e + 1..];
        }
    }
    let is_hex = t.chars().all(|c| c.is_ascii_hexdigit());
    if is_hex && t.len() == 130 {
        KeyKind::Uncompressed
    } else if is_hex && t.len() == 64 {
        KeyKind::XOnly
    } else {
        KeyKind::Compressed
    }
}

/// Keys the validation code looks at (pk_k, pk_h, multi*; not raw pkh).
pub fn validated_keys(n: &Node) -> Vec<String> { n.keys() }

pub fn has(n: &Node, pred: &dyn Fn(&Node) -> bool) -> bool {
    let mut f = false;
    n.walk(&mut |x| {
        if pred(x) {
            f = true;
        }
    });
    f
}

pub fn has_duplicate_keys(n: &Node) -> bool {
    let mut k = n.keys();
    let l = k.len();
    k.sort();
    k.dedup();
    k.len() < l
}

/// Some syntactic path needs a height- and a time-based lock of the same kind.
pub fn has_mixed_timelocks(n: &Node) -> bool {
    let p = lift(n);
    path_sets(&p).iter().any(|s| (s & 3) == 3 || (s & 12) == 12)
}

/// Set of lock-kind combinations over syntactic paths: bit0 abs-height, bit1 abs-time,
/// bit2 rel-height, bit3 rel-time.
pub fn path_sets(p: &MPol) -> Vec<u8> {
    fn cross(a: &[u8], b: &[u8]) -> Vec<u8> {
        let mut v = Vec::new();
        for x in a {
            for y in b {
                let z = x | y;
                if !v.contains(&z) {
                    v.push(z);
                }
            }
        }
        v
    }
    match p {
        MPol::After(t) => vec![if *t >= 500_000_000 { 2 } else { 1 }],
        MPol::Older(t) => vec![if t & 0x40_0000 != 0 { 8 } else { 4 }],
        MPol::And(v) => v.iter().fold(vec![0u8], |acc, x| cross(&acc, &path_sets(x))),
        MPol::Or(v) => {
            let mut out = Vec::new();
            for (_, x) in v {
                for s in path_sets(x) {
                    if !out.contains(&s) {
                        out.push(s);
                    }
                }
            }
            out
        }
        MPol::Thresh(k, v) => {
            let sets: Vec<Vec<u8>> = v.iter().map(path_sets).collect();
            let n = v.len();
            let mut out = Vec::new();
            if n > 20 {
                // wide thresholds of keys: no locks inside => single empty set per child
                let mut acc = vec![0u8];
                let mut any_lock = false;
                for s in &sets {
                    if s.iter().any(|x| *x != 0) {
                        any_lock = true;
                    }
                }
                if !any_lock {
                    return vec![0];
                }
                // conservative fallback: union of everything crossed pairwise when k > 1
                for s in &sets {
                    acc = if *k > 1 { cross(&acc, &{ let mut t = s.clone(); t.push(0); t }) } else { let mut a2 = acc.clone(); a2.extend(s.iter()); a2 };
                }
                return acc;
            }
            for m in 0..(1u32 << n) {
                if m.count_ones() as usize != *k {
                    continue;
                }
                let mut acc = vec![0u8];
                for (i, s) in sets.iter().enumerate() {
                    if (m >> i) & 1 == 1 {
                        acc = cross(&acc, s);
                    }
                }
                for s in acc {
                    if !out.contains(&s) {
                        out.push(s);
                    }
                }
            }
            out
        }
        _ => vec![0],
    }
}

/// Is this key kind legal in the context?
pub fn key_legal(kind: KeyKind, ctx: Ctx) -> bool {
    match (ctx, kind) {
        (Ctx::Bare | Ctx::Legacy, KeyKind::XOnly) => false,
        (Ctx::Segwitv0, KeyKind::Uncompressed | KeyKind::XOnly) => false,
        (Ctx::Tap, KeyKind::Uncompressed) => false,
        _ => true,
    }
}

/// Context rules every accepted miniscript must obey (consensus level).  Returns the first
/// violated rule.
pub fn context_violation(n: &Node, ctx: Ctx, top_level: bool) -> Option<String> {
    let t = match spec::type_of_ex(n, ctx, false) {
        Ok(t) => t,
        Err(e) => return Some(format!("ill-typed: {}", e)),
    };
    if top_level && t & spec::B == 0 {
        return Some(format!("top-level-not-B ({})", spec::show(t & spec::BASES)));
    }
    for k in n.keys() {
        if !key_legal(key_kind(&k), ctx) {
            return Some(format!("illegal-key-kind {:?}", key_kind(&k)));
        }
    }
    if matches!(ctx, Ctx::Bare | Ctx::Legacy) {
        if has(n, &|x| matches!(x, Node::DupIf(_))) {
            return Some("d:-pre-segwit".into());
        }
        if has(n, &|x| matches!(x, Node::OrI(..))) {
            return Some("or_i-pre-segwit".into());
        }
    }
    // lock values: 1 ..= 2^31-1 (0 is no lock; bit 31 disables BIP68 / is not a valid nLockTime
    // script number)
    if has(n, &|x| matches!(x, Node::After(v) | Node::Older(v) if *v == 0 || *v >= 0x8000_0000)) {
        return Some("lock-out-of-range".into());
    }
    if n.height() > 402 {
        return Some("too-deep".into());
    }
    if let Ok(s) = super::encode::encode(n, ctx) {
        let limit = match ctx {
            Ctx::Legacy => 520,
            Ctx::Segwitv0 | Ctx::Bare => 10_000,
            Ctx::Tap => usize::MAX,
        };
        if s.len() > limit {
            return Some(format!("script-too-large {}", s.len()));
        }
    }
    None
}


/// Bare descriptors: only the standard templates pk, pkh and multisig with at most 3 keys.
pub fn bare_template_violation(n: &Node) -> Option<String> {
    let ok = match n {
        Node::Check(x) => matches!(**x, Node::PkK(_) | Node::PkH(_) | Node::RawPkH(_)),
        Node::Multi(_, ks) | Node::SortedMulti(_, ks) => ks.len() <= 3,
        _ => false,
    };
    if ok {
        None
    } else {
        Some("non-standard-bare".into())
    }
}
