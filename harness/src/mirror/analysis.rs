// placeholder
