//! Own encoder: the specification's fragment -> script table.

use super::ast::Node;
use super::spec::Ctx;
use crate::refscript::op::*;
use crate::refscript::{parse_script, scriptnum_encode};
use bitcoin::hashes::{hash160, Hash};

pub fn push_bytes(out: &mut Vec<u8>, data: &[u8]) {
    // minimal data push (no OP_n substitution: only used for keys / hashes / numbers > 16)
    let n = data.len();
    if n <= 75 {
        out.push(n as u8);
    } else if n <= 0xff {
        out.push(PUSHDATA1);
        out.push(n as u8);
    } else if n <= 0xffff {
        out.push(PUSHDATA2);
        out.extend_from_slice(&(n as u16).to_le_bytes());
    } else {
        out.push(PUSHDATA4);
        out.extend_from_slice(&(n as u32).to_le_bytes());
    }
    out.extend_from_slice(data);
}

pub fn push_num(out: &mut Vec<u8>, n: i64) {
    if n == 0 {
        out.push(OP_0);
    } else if (1..=16).contains(&n) {
        out.push(OP_1 + (n as u8) - 1);
    } else if n == -1 {
        out.push(OP_1NEGATE);
    } else {
        push_bytes(out, &scriptnum_encode(n));
    }
}

fn unhex(s: &str) -> Result<Vec<u8>, String> {
    if s.len() % 2 != 0 {
        return Err(format!("odd hex `{}`", s));
    }
    let mut v = Vec::new();
    for i in (0..s.len()).step_by(2) {
        v.push(u8::from_str_radix(&s[i..i + 2], 16).map_err(|e| format!("{}: {}", s, e))?);
    }
    Ok(v)
}

/// Key bytes as pushed in a script of the given context.
pub fn key_bytes(text: &str, ctx: Ctx) -> Result<Vec<u8>, String> {
    let full = crate::keys::resolve(text)?;
    if ctx == Ctx::Tap {
        match full.len() {
            32 => Ok(full),
            33 => Ok(full[1..].to_vec()),
            _ => Err(format!("key `{}` not usable in tapscript", text)),
        }
    } else {
        match full.len() {
            33 | 65 => Ok(full),
            _ => Err(format!("key `{}` not usable outside tapscript", text)),
        }
    }
}

pub fn key_hash(text: &str, ctx: Ctx) -> Result<[u8; 20], String> {
    Ok(hash160::Hash::hash(&key_bytes(text, ctx)?).to_byte_array())
}

pub fn encode(n: &Node, ctx: Ctx) -> Result<Vec<u8>, String> {
    let mut out = Vec::new();
    enc(n, ctx, &mut out)?;
    Ok(out)
}

fn hash_frag(out: &mut Vec<u8>, opc: u8, h: &str, len: usize) -> Result<(), String> {
    let hb = unhex(h)?;
    if hb.len() != len {
        return Err(format!("hash length {}", hb.len()));
    }
    out.push(SIZE);
    push_num(out, 32);
    out.push(EQUALVERIFY);
    out.push(opc);
    push_bytes(out, &hb);
    out.push(EQUAL);
    Ok(())
}

/// hash256 is displayed reversed by some hash types (sha256d); the text atoms used by the
/// harness for hash256 are *forward* hex as printed by `miniscript::hash256::Hash`.
fn enc(n: &Node, ctx: Ctx, out: &mut Vec<u8>) -> Result<(), String> {
    match n {
        Node::False => out.push(OP_0),
        Node::True => out.push(OP_1),
        Node::PkK(k) => push_bytes(out, &key_bytes(k, ctx)?),
        Node::PkH(k) => {
            out.push(DUP);
            out.push(HASH160);
            push_bytes(out, &key_hash(k, ctx)?);
            out.push(EQUALVERIFY);
        }
        Node::RawPkH(h) => {
            out.push(DUP);
            out.push(HASH160);
            let hb = unhex(h)?;
            if hb.len() != 20 {
                return Err("raw pkh length".into());
            }
            push_bytes(out, &hb);
            out.push(EQUALVERIFY);
        }
        Node::After(t) => {
            push_num(out, *t as i64);
            out.push(CLTV);
        }
        Node::Older(t) => {
            push_num(out, *t as i64);
            out.push(CSV);
        }
        Node::Sha256(h) => hash_frag(out, SHA256, h, 32)?,
        Node::Hash256(h) => hash_frag(out, HASH256, h, 32)?,
        Node::Ripemd160(h) => hash_frag(out, RIPEMD160, h, 20)?,
        Node::Hash160(h) => hash_frag(out, HASH160, h, 20)?,
        Node::Alt(x) => {
            out.push(TOALTSTACK);
            enc(x, ctx, out)?;
            out.push(FROMALTSTACK);
        }
        Node::Swap(x) => {
            out.push(SWAP);
            enc(x, ctx, out)?;
        }
        Node::Check(x) => {
            enc(x, ctx, out)?;
            out.push(CHECKSIG);
        }
        Node::DupIf(x) => {
            out.push(DUP);
            out.push(IF);
            enc(x, ctx, out)?;
            out.push(ENDIF);
        }
        Node::Verify(x) => {
            let sub = encode(x, ctx)?;
            let ins = parse_script(&sub).map_err(|_| "own encoder produced unparsable script".to_string())?;
            let last = ins.last().map(|i| (i.opcode, i.data.is_some()));
            out.extend_from_slice(&sub);
            match last {
                Some((EQUAL, false)) => *out.last_mut().unwrap() = EQUALVERIFY,
                Some((NUMEQUAL, false)) => *out.last_mut().unwrap() = NUMEQUALVERIFY,
                Some((CHECKSIG, false)) => *out.last_mut().unwrap() = CHECKSIGVERIFY,
                Some((CHECKMULTISIG, false)) => *out.last_mut().unwrap() = CHECKMULTISIGVERIFY,
                _ => out.push(VERIFY),
            }
        }
        Node::NonZero(x) => {
            out.push(SIZE);
            out.push(ZERONOTEQUAL);
            out.push(IF);
            enc(x, ctx, out)?;
            out.push(ENDIF);
        }
        Node::ZeroNotEqual(x) => {
            enc(x, ctx, out)?;
            out.push(ZERONOTEQUAL);
        }
        Node::AndV(x, y) => {
            enc(x, ctx, out)?;
            enc(y, ctx, out)?;
        }
        Node::AndB(x, y) => {
            enc(x, ctx, out)?;
            enc(y, ctx, out)?;
            out.push(BOOLAND);
        }
        Node::OrB(x, z) => {
            enc(x, ctx, out)?;
            enc(z, ctx, out)?;
            out.push(BOOLOR);
        }
        Node::OrC(x, z) => {
            enc(x, ctx, out)?;
            out.push(NOTIF);
            enc(z, ctx, out)?;
            out.push(ENDIF);
        }
        Node::OrD(x, z) => {
            enc(x, ctx, out)?;
            out.push(IFDUP);
            out.push(NOTIF);
            enc(z, ctx, out)?;
            out.push(ENDIF);
        }
        Node::OrI(x, z) => {
            out.push(IF);
            enc(x, ctx, out)?;
            out.push(ELSE);
            enc(z, ctx, out)?;
            out.push(ENDIF);
        }
        Node::AndOr(x, y, z) => {
            enc(x, ctx, out)?;
            out.push(NOTIF);
            enc(z, ctx, out)?;
            out.push(ELSE);
            enc(y, ctx, out)?;
            out.push(ENDIF);
        }
        Node::Thresh(k, subs) => {
            for (i, s) in subs.iter().enumerate() {
                enc(s, ctx, out)?;
                if i > 0 {
                    out.push(ADD);
                }
            }
            push_num(out, *k as i64);
            out.push(EQUAL);
        }
        Node::Multi(k, ks) | Node::SortedMulti(k, ks) => {
            let mut keys: Vec<Vec<u8>> = Vec::new();
            for key in ks {
                keys.push(key_bytes(key, ctx)?);
            }
            if matches!(n, Node::SortedMulti(..)) {
                // BIP67 orders *compressed* serialisations; it does not cover uncompressed
                // keys.  Like the library, order an uncompressed key by its compressed form.
                keys.sort_by_key(|k| compressed_form(k));
            }
            push_num(out, *k as i64);
            for key in &keys {
                push_bytes(out, key);
            }
            push_num(out, keys.len() as i64);
            out.push(CHECKMULTISIG);
        }
        Node::MultiA(k, ks) | Node::SortedMultiA(k, ks) => {
            let mut keys: Vec<Vec<u8>> = Vec::new();
            for key in ks {
                keys.push(key_bytes(key, ctx)?);
            }
            if matches!(n, Node::SortedMultiA(..)) {
                keys.sort();
            }
            for (i, key) in keys.iter().enumerate() {
                push_bytes(out, key);
                out.push(if i == 0 { CHECKSIG } else { CHECKSIGADD });
            }
            push_num(out, *k as i64);
            out.push(NUMEQUAL);
        }
    }
    Ok(())
}

/// Key bytes of a multisig node in the order they appear in the script.
pub fn multi_keys_in_script_order(n: &Node, ctx: Ctx) -> Result<Vec<Vec<u8>>, String> {
    let (ks, sorted_cs, sorted_a) = match n {
        Node::Multi(_, ks) => (ks, false, false),
        Node::SortedMulti(_, ks) => (ks, true, false),
        Node::MultiA(_, ks) => (ks, false, false),
        Node::SortedMultiA(_, ks) => (ks, false, true),
        _ => return Err("not a multisig node".into()),
    };
    let mut keys: Vec<Vec<u8>> = Vec::new();
    for key in ks {
        keys.push(key_bytes(key, ctx)?);
    }
    if sorted_cs {
        keys.sort_by_key(|k| compressed_form(k));
    }
    if sorted_a {
        keys.sort();
    }
    Ok(keys)
}

fn compressed_form(k: &[u8]) -> Vec<u8> {
    if k.len() == 65 {
        let mut v = vec![if k[64] & 1 == 1 { 3u8 } else { 2u8 }];
        v.extend_from_slice(&k[1..33]);
        v
    } else {
        k.to_vec()
    }
}
