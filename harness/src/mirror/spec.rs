//! The Miniscript specification's type system, transcribed from the specification as
//! implemented by its authors (Bitcoin Core `miniscript.cpp::ComputeType`): every rule is a
//! formula over property bit sets, exactly as published.  Independent of the crate's
//! `types` module.

use super::ast::Node;

pub type T = u32;
pub const B: T = 1 << 0;
pub const V: T = 1 << 1;
pub const K: T = 1 << 2;
pub const W: T = 1 << 3;
pub const Z: T = 1 << 4;
pub const O: T = 1 << 5;
pub const N: T = 1 << 6;
pub const D: T = 1 << 7;
pub const U: T = 1 << 8;
pub const E: T = 1 << 9;
pub const F: T = 1 << 10;
pub const S: T = 1 << 11;
pub const M: T = 1 << 12;
pub const BASES: T = B | V | K | W;
pub const ALL: T = (1 << 13) - 1;

pub fn mst(s: &str) -> T {
    let mut t = 0;
    for c in s.chars() {
        t |= match c {
            'B' => B,
            'V' => V,
            'K' => K,
            'W' => W,
            'z' => Z,
            'o' => O,
            'n' => N,
            'd' => D,
            'u' => U,
            'e' => E,
            'f' => F,
            's' => S,
            'm' => M,
            // x, g, h, i, j, k are not modelled here
            'x' | 'g' | 'h' | 'i' | 'j' | 'k' => 0,
            _ => panic!("bad type char {}", c),
        };
    }
    t
}

pub fn show(t: T) -> String {
    let mut s = String::new();
    for (b, c) in [(B, 'B'), (V, 'V'), (K, 'K'), (W, 'W'), (Z, 'z'), (O, 'o'), (N, 'n'), (D, 'd'), (U, 'u'), (E, 'e'), (F, 'f'), (S, 's'), (M, 'm')] {
        if t & b != 0 {
            s.push(c);
        }
    }
    s
}

#[inline]
fn has(x: T, s: T) -> bool { x & s == s }
#[inline]
fn iff(t: T, c: bool) -> T {
    if c {
        t
    } else {
        0
    }
}

/// `None` = the specification rejects the combination (no base type results).
fn finish(t: T) -> Option<T> {
    if t & BASES == 0 {
        None
    } else {
        Some(t)
    }
}

#[derive(Clone, Copy, Debug, PartialEq, Eq, Hash)]
pub enum Frag {
    WrapA,
    WrapS,
    WrapC,
    WrapD,
    WrapV,
    WrapJ,
    WrapN,
    AndV,
    AndB,
    OrB,
    OrD,
    OrC,
    OrI,
    AndOr,
}

pub fn leaf_true() -> T { mst("Bzufm") }
pub fn leaf_false() -> T { mst("Bzudems") }
pub fn leaf_pk_k() -> T { mst("Konudems") }
pub fn leaf_pk_h() -> T { mst("Knudems") }
pub fn leaf_time() -> T { mst("Bzfm") }
pub fn leaf_hash() -> T { mst("Bonudm") }
pub fn leaf_multi() -> T { mst("Bnudems") }
pub fn leaf_multi_a() -> T { mst("Budems") }

pub fn unary(f: Frag, x: T, tapscript: bool) -> Option<T> {
    let r = match f {
        Frag::WrapA => iff(W, has(x, B)) | (x & mst("udfems")),
        Frag::WrapS => iff(W, has(x, B | O)) | (x & mst("udfems")),
        Frag::WrapC => iff(B, has(x, K)) | (x & mst("ondfem")) | mst("us"),
        Frag::WrapD => {
            iff(B, has(x, V | Z)) | iff(O, has(x, Z)) | iff(E, has(x, F)) | (x & mst("ms")) | iff(U, tapscript) | mst("nd")
        }
        Frag::WrapV => iff(V, has(x, B)) | (x & mst("zonms")) | mst("f"),
        Frag::WrapJ => iff(B, has(x, B | N)) | iff(E, has(x, F)) | (x & mst("oums")) | mst("nd"),
        Frag::WrapN => (x & mst("Bzondfems")) | mst("u"),
        _ => panic!("not unary"),
    };
    finish(r)
}

pub fn binary(f: Frag, x: T, y: T) -> Option<T> {
    let r = match f {
        Frag::AndV => {
            iff(y & mst("KVB"), has(x, V))
                | (x & N)
                | iff(y & N, has(x, Z))
                | iff((x | y) & O, has(x | y, Z))
                | (x & y & mst("dmz"))
                | ((x | y) & S)
                | iff(F, has(y, F) || has(x, S))
                | (y & U)
        }
        Frag::AndB => {
            iff(x & B, has(y, W))
                | iff((x | y) & O, has(x | y, Z))
                | (x & N)
                | iff(y & N, has(x, Z))
                | iff(x & y & E, has(x & y, S))
                | (x & y & mst("dzm"))
                | iff(F, has(x & y, F) || has(x, S | F) || has(y, S | F))
                | ((x | y) & S)
                | U
        }
        Frag::OrB => {
            iff(B, has(x, B | D) && has(y, W | D))
                | iff((x | y) & O, has(x | y, Z))
                | iff(x & y & M, has(x | y, S) && has(x & y, E))
                | (x & y & mst("zse"))
                | mst("du")
        }
        Frag::OrD => {
            iff(y & B, has(x, B | D | U))
                | iff(x & O, has(y, Z))
                | iff(x & y & M, has(x, E) && has(x | y, S))
                | (x & y & mst("zs"))
                | (y & mst("ufde"))
        }
        Frag::OrC => {
            iff(y & V, has(x, B | D | U))
                | iff(x & O, has(y, Z))
                | iff(x & y & M, has(x, E) && has(x | y, S))
                | (x & y & mst("zs"))
                | F
        }
        Frag::OrI => {
            (x & y & mst("VBKufs"))
                | iff(O, has(x & y, Z))
                | iff((x | y) & E, has(x | y, F))
                | iff(x & y & M, has(x | y, S))
                | ((x | y) & D)
        }
        _ => panic!("not binary"),
    };
    finish(r)
}

pub fn and_or(x: T, y: T, z: T) -> Option<T> {
    let r = iff(y & z & mst("BKV"), has(x, B | D | U))
        | (x & y & z & Z)
        | iff((x | (y & z)) & O, has(x | (y & z), Z))
        | (y & z & U)
        | iff(z & F, has(x, S) || has(y, F))
        | (z & D)
        | iff(z & E, has(x, S) || has(y, F))
        | iff(x & y & z & M, has(x, E) && has(x | y | z, S))
        | (z & (x | y) & S);
    finish(r)
}

/// `thresh(k, subs)`; the specification's domain is 1 <= k <= n.
pub fn thresh(k: usize, subs: &[T]) -> Option<T> {
    let n = subs.len();
    if k < 1 || k > n {
        return None;
    }
    let mut all_e = true;
    let mut all_m = true;
    let mut args = 0u32;
    let mut num_s = 0usize;
    for (i, t) in subs.iter().enumerate() {
        let need = if i == 0 { B | D | U } else { W | D | U };
        if !has(*t, need) {
            return None;
        }
        if !has(*t, E) {
            all_e = false;
        }
        if !has(*t, M) {
            all_m = false;
        }
        if has(*t, S) {
            num_s += 1;
        }
        args += if has(*t, Z) {
            0
        } else if has(*t, O) {
            1
        } else {
            2
        };
    }
    Some(
        mst("Bdu")
            | iff(Z, args == 0)
            | iff(O, args == 1)
            | iff(E, all_e && num_s == n)
            | iff(M, all_e && all_m && num_s >= n - k)
            | iff(S, num_s >= n - k + 1),
    )
}

/// The specification's sanity invariants on a type (SanitizeType).  Types violating them
/// cannot be produced by any fragment.
pub fn sanitary(t: T) -> bool {
    let nb = (t & BASES).count_ones();
    if nb != 1 {
        return false;
    }
    let h = |s: T| has(t, s);
    !(h(Z) && h(O))
        && !(h(N) && h(Z))
        && !(h(N) && h(W))
        && !(h(V) && h(D))
        && !(h(K) && !h(U))
        && !(h(V) && h(U))
        && !(h(E) && h(F))
        && !(h(E) && !h(D))
        && !(h(V) && h(E))
        && !(h(D) && h(F))
        && !(h(V) && !h(F))
        && !(h(K) && !h(S))
        && !(h(Z) && !h(M))
}

#[derive(Clone, Copy, Debug, PartialEq, Eq)]
pub enum Ctx {
    Bare,
    Legacy,
    Segwitv0,
    Tap,
}

/// Type of a whole mirror AST per the specification; `Err` describes the first rejection.
/// Key/threshold arity limits are part of the spec's fragment validity and are checked here.
pub fn type_of(n: &Node, ctx: Ctx) -> Result<T, String> {
    let tap = ctx == Ctx::Tap;
    let rej = |what: &str, n: &Node| format!("{}: {}", what, super::ast::print(n, false));
    match n {
        Node::True => Ok(leaf_true()),
        Node::False => Ok(leaf_false()),
        Node::PkK(_) => Ok(leaf_pk_k()),
        Node::PkH(_) | Node::RawPkH(_) => Ok(leaf_pk_h()),
        Node::After(t) => {
            if *t >= 1 && *t < 0x8000_0000 {
                Ok(leaf_time())
            } else {
                Err(rej("after out of range", n))
            }
        }
        Node::Older(t) => {
            if *t >= 1 && *t < 0x8000_0000 {
                Ok(leaf_time())
            } else {
                Err(rej("older out of range", n))
            }
        }
        Node::Sha256(_) | Node::Hash256(_) | Node::Ripemd160(_) | Node::Hash160(_) => Ok(leaf_hash()),
        Node::Alt(x) => unary(Frag::WrapA, type_of(x, ctx)?, tap).ok_or_else(|| rej("a:", n)),
        Node::Swap(x) => unary(Frag::WrapS, type_of(x, ctx)?, tap).ok_or_else(|| rej("s:", n)),
        Node::Check(x) => unary(Frag::WrapC, type_of(x, ctx)?, tap).ok_or_else(|| rej("c:", n)),
        Node::DupIf(x) => unary(Frag::WrapD, type_of(x, ctx)?, tap).ok_or_else(|| rej("d:", n)),
        Node::Verify(x) => unary(Frag::WrapV, type_of(x, ctx)?, tap).ok_or_else(|| rej("v:", n)),
        Node::NonZero(x) => unary(Frag::WrapJ, type_of(x, ctx)?, tap).ok_or_else(|| rej("j:", n)),
        Node::ZeroNotEqual(x) => unary(Frag::WrapN, type_of(x, ctx)?, tap).ok_or_else(|| rej("n:", n)),
        Node::AndV(x, y) => binary(Frag::AndV, type_of(x, ctx)?, type_of(y, ctx)?).ok_or_else(|| rej("and_v", n)),
        Node::AndB(x, y) => binary(Frag::AndB, type_of(x, ctx)?, type_of(y, ctx)?).ok_or_else(|| rej("and_b", n)),
        Node::OrB(x, y) => binary(Frag::OrB, type_of(x, ctx)?, type_of(y, ctx)?).ok_or_else(|| rej("or_b", n)),
        Node::OrD(x, y) => binary(Frag::OrD, type_of(x, ctx)?, type_of(y, ctx)?).ok_or_else(|| rej("or_d", n)),
        Node::OrC(x, y) => binary(Frag::OrC, type_of(x, ctx)?, type_of(y, ctx)?).ok_or_else(|| rej("or_c", n)),
        Node::OrI(x, y) => binary(Frag::OrI, type_of(x, ctx)?, type_of(y, ctx)?).ok_or_else(|| rej("or_i", n)),
        Node::AndOr(x, y, z) => {
            and_or(type_of(x, ctx)?, type_of(y, ctx)?, type_of(z, ctx)?).ok_or_else(|| rej("andor", n))
        }
        Node::Thresh(k, subs) => {
            let mut ts = Vec::new();
            for s in subs {
                ts.push(type_of(s, ctx)?);
            }
            thresh(*k, &ts).ok_or_else(|| rej("thresh", n))
        }
        Node::Multi(k, ks) | Node::SortedMulti(k, ks) => {
            if tap {
                return Err(rej("multi in tapscript", n));
            }
            if *k >= 1 && *k <= ks.len() && ks.len() <= 20 {
                Ok(leaf_multi())
            } else {
                Err(rej("multi arity", n))
            }
        }
        Node::MultiA(k, ks) | Node::SortedMultiA(k, ks) => {
            if !tap {
                return Err(rej("multi_a outside tapscript", n));
            }
            if *k >= 1 && *k <= ks.len() && ks.len() <= 999 {
                Ok(leaf_multi_a())
            } else {
                Err(rej("multi_a arity", n))
            }
        }
    }
}

// ---------------------------------------------------------------------------------------
// mapping from the crate's representation

use miniscript::miniscript::types::{Base, Correctness, Dissat, Input, Malleability, Type};

pub fn from_lib(t: &Type) -> T {
    let mut r = match t.corr.base {
        Base::B => B,
        Base::V => V,
        Base::K => K,
        Base::W => W,
    };
    r |= match t.corr.input {
        Input::Zero => Z,
        Input::One => O,
        Input::Any => 0,
        Input::OneNonZero => O | N,
        Input::AnyNonZero => N,
    };
    if t.corr.dissatisfiable {
        r |= D;
    }
    if t.corr.unit {
        r |= U;
    }
    r |= match t.mall.dissat {
        Dissat::None => F,
        Dissat::Unique => E,
        Dissat::Unknown => 0,
    };
    if t.mall.signed {
        r |= S;
    }
    if t.mall.non_malleable {
        r |= M;
    }
    r
}

/// All 80 correctness values.
pub fn all_corr() -> Vec<Correctness> {
    let mut v = Vec::new();
    for base in [Base::B, Base::V, Base::K, Base::W] {
        for input in [Input::Zero, Input::One, Input::Any, Input::OneNonZero, Input::AnyNonZero] {
            for d in [false, true] {
                for u in [false, true] {
                    v.push(Correctness { base, input, dissatisfiable: d, unit: u });
                }
            }
        }
    }
    v
}

/// All 12 malleability values.
pub fn all_mall() -> Vec<Malleability> {
    let mut v = Vec::new();
    for dissat in [Dissat::None, Dissat::Unique, Dissat::Unknown] {
        for s in [false, true] {
            for m in [false, true] {
                v.push(Malleability { dissat, signed: s, non_malleable: m });
            }
        }
    }
    v
}

/// All 960 type values.
pub fn all_types() -> Vec<Type> {
    let mut v = Vec::new();
    for c in all_corr() {
        for m in all_mall() {
            v.push(Type { corr: c, mall: m });
        }
    }
    v
}
