//! The Miniscript specification's type system, transcribed from the specification as
//! implemented by its authors (Bitcoin Core `miniscript.cpp::ComputeType`): every rule is a
//! formula over property bit sets, exactly as published.  Independent of the crate's
//! `types` module.

use super::ast::Node;

pub type T = u32;
pub const B: T = 1 << 0;
pub const V: T = 1 << 1;
pub const K: T = 1 << 2;
pub const W: T = 1 << 3;
pub const Z: T = 1 << 4;
pub const O: T = 1 << 5;
pub const N: T = 1 << 6;
pub const D: T = 1 << 7;
pub const U: T = 1 << 8;
pub const E: T = 1 << 9;
pub const F: T = 1 << 10;
pub const S: T = 1 << 11;
pub const M: T = 1 << 12;
pub const BASES: T = B | V | K | W;
pub const ALL: T = (1 << 13) - 1;

pub fn mst(s: &str) -> T {
    let mut t = 0;
    for c in s.chars() {
        t |= match c {
            'B' => B,
            'V' => V,
            'K' => K,
            'W' => W,
            'z' => Z,
            'o' => O,
            'n' => N,
            'd' => D,
            'u' => U,
            'e' => E,
            'f' => F,
            's' => S,
            'm' => M,
            // x, g, h, i, j, k are not modelled here
            'x' | 'g' | 'h' | 'i' | 'j' | 'k' => 0,
            _ => panic!("bad type char {}", c),
        };
    }
    t
}

pub fn show(t: T) -> String {
    let mut s = String::new();
    for (b, c) in [(B, 'B'), (V, 'V'), (K, 'K'), (W, 'W'), (Z, 'z'), (O, 'o'), (N, 'n'), (D, 'd'), (U, 'u'), (E, 'e'), (F, 'f'), (S, 's'), (M, 'm')] {
        if t & b != 0 {
            s.push(c);
        }
    }
    s
}

#[inline]
fn has(x: T, s: T) -> bool { x & s == s }
#[inline]
fn iff(t: T, c: bool) -> T {
    if c {
        t
    } else {
        0
    }
}

/// `None` = the specification rejects the combination (no base type results).
fn finish(t: T) -> Option<T> {
    if t & BASES == 0 {
        None
    } else {
        Some(t)
    }
}

#[derive(Clone, Copy, Debug, PartialEq, Eq, Hash)]
pub enum Frag {
    WrapA,
    WrapS,
    WrapC,
    WrapD,
    WrapV,
    WrapJ,
    WrapN,
    AndV,
    AndB,
    OrB,
    OrD,
    OrC,
    OrI,
    AndOr,
}

pub fn leaf_true() -> T { mst("Bzufm") }
pub fn leaf_false() -> T { mst("Bzudems") }
pub fn leaf_pk_k() -> T { mst("Konudems") }
pub fn leaf_pk_h() -> T { mst("Knudems") }
pub fn leaf_time() -> T { mst("Bzfm") }
pub fn leaf_hash() -> T { mst("Bonudm") }
pub fn leaf_multi() -> T { mst("Bnudems") }
pub fn leaf_multi_a() -> T { mst("Budems") }

pub fn unary(f: Frag, x: T, tapscript: bool) -> Option<T> {
    let r = match f {
        Frag::WrapA => iff(W, has(x, B)) | (x & mst("udfems")),
        Frag::WrapS => iff(W, has(x, B | O)) | (x & mst("udfems")),
        Frag::WrapC => iff(B, has(x, K)) | (x & mst("ondfem")) | mst("us"),
        Frag::WrapD => {
            iff(B, has(x, V | Z)) | iff(O, has(x, Z)) | iff(E, has(x, F)) | (x & mst("ms")) | iff(U, tapscript) | mst("nd")
        }
        Frag::WrapV => iff(V, has(x, B)) | (x & mst("zonms")) | mst("f"),
        Frag::WrapJ => iff(B, has(x, B | N)) | iff(E, has(x, F)) | (x & mst("oums")) | mst("nd"),
        Frag::WrapN => (x & mst("Bzondfems")) | mst("u"),
        _ => panic!("not unary"),
    };
    finish(r)
}

pub fn binary(f: Frag, x: T, y: T) -> Option<T> {
    let r = match f {
        Frag::AndV => {
            iff(y & mst("KVB"), has(x, V))
                | (x & N)
                | iff(y & N, has(x, Z))
                | iff((x | y) & O, has(x | y, Z))
                | (x & y & mst("dmz"))
                | ((x | y) & S)
                | iff(F, has(y, F) || has(x, S))
                | (y & U)
        }
        Frag::AndB => {
            iff(x & B, has(y, W))
                | iff((x | y) & O, has(x | y, Z))
                | (x & N)
                | iff(y & N, has(x, Z))
                | iff(x & y & E, has(x & y, S))
                | (x & y & mst("dzm"))
                | iff(F, has(x & y, F) || has(x, S | F) || has(y, S | F))
                | ((x | y) & S)
                | U
        }
        Frag::OrB => {
            iff(B, has(x, B | D) && has(y, W | D))
                | iff((x | y) & O, has(x | y, Z))
                | iff(x & y & M, has(x | y, S) && has(x & y, E))
                // `e` is unconditional in the specification's table: the table states each
                // property under the fragment's non-malleability requirement (for or_b:
                // eX*eZ*(sX+sZ)).  The specification authors' Alloy model, whose vectors are in the
                // repository's suite, types or_b(j:multi(..),a:andor(..)) as `e` accordingly.
                // (The reference C++ implementation uses the more conservative e=eX*eZ.)
                | (x & y & mst("zs"))
                | mst("due")
        }
        Frag::OrD => {
            iff(y & B, has(x, B | D | U))
                | iff(x & O, has(y, Z))
                | iff(x & y & M, has(x, E) && has(x | y, S))
                | (x & y & mst("zs"))
                | (y & mst("ufde"))
        }
        Frag::OrC => {
            iff(y & V, has(x, B | D | U))
                | iff(x & O, has(y, Z))
                | iff(x & y & M, has(x, E) && has(x | y, S))
                | (x & y & mst("zs"))
                | F
        }
        Frag::OrI => {
            (x & y & mst("VBKufs"))
                | iff(O, has(x & y, Z))
                | iff((x | y) & E, has(x | y, F))
                | iff(x & y & M, has(x | y, S))
                | ((x | y) & D)
        }
        _ => panic!("not binary"),
    };
    finish(r)
}

pub fn and_or(x: T, y: T, z: T) -> Option<T> {
    let r = iff(y & z & mst("BKV"), has(x, B | D | U))
        | (x & y & z & Z)
        | iff((x | (y & z)) & O, has(x | (y & z), Z))
        | (y & z & U)
        | iff(z & F, has(x, S) || has(y, F))
        | (z & D)
        | iff(z & E, has(x, S) || has(y, F))
        | iff(x & y & z & M, has(x, E) && has(x | y | z, S))
        | (z & (x | y) & S);
    finish(r)
}

/// `thresh(k, subs)`; the specification's domain is 1 <= k <= n.
pub fn thresh(k: usize, subs: &[T]) -> Option<T> {
    let n = subs.len();
    if k < 1 || k > n {
        return None;
    }
    let mut all_e = true;
    let mut all_m = true;
    let mut args = 0u32;
    let mut num_s = 0usize;
    for (i, t) in subs.iter().enumerate() {
        let need = if i == 0 { B | D | U } else { W | D | U };
        if !has(*t, need) {
            return None;
        }
        if !has(*t, E) {
            all_e = false;
        }
        if !has(*t, M) {
            all_m = false;
        }
        if has(*t, S) {
            num_s += 1;
        }
        args += if has(*t, Z) {
            0
        } else if has(*t, O) {
            1
        } else {
            2
        };
    }
    Some(
        mst("Bdu")
            | iff(Z, args == 0)
            | iff(O, args == 1)
            | iff(E, all_e && num_s == n)
            | iff(M, all_e && all_m && num_s >= n - k)
            | iff(S, num_s >= n - k + 1),
    )
}

/// The specification's sanity invariants on a type (SanitizeType).  Types violating them
/// cannot be produced by any fragment.
pub fn sanitary(t: T) -> bool {
    let nb = (t & BASES).count_ones();
    if nb != 1 {
        return false;
    }
    let h = |s: T| has(t, s);
    !(h(Z) && h(O))
        && !(h(N) && h(Z))
        && !(h(N) && h(W))
        && !(h(V) && h(D))
        && !(h(K) && !h(U))
        && !(h(V) && h(U))
        && !(h(E) && h(F))
        && !(h(E) && !h(D))
        && !(h(V) && h(E))
        && !(h(D) && h(F))
        && !(h(V) && !h(F))
        && !(h(K) && !h(S))
        && !(h(Z) && !h(M))
}

#[derive(Clone, Copy, Debug, PartialEq, Eq)]
pub enum Ctx {
    Bare,
    Legacy,
    Segwitv0,
    Tap,
}

/// Type of a whole mirror AST per the specification; `Err` describes the first rejection.
/// Key/threshold arity limits are part of the spec's fragment validity and are checked here.
pub fn type_of(n: &Node, ctx: Ctx) -> Result<T, String> { type_of_ex(n, ctx, true) }

/// `d_unit_in_tap = false` gives the library's documented conservative variant in which `d:`
/// is never `u` (2022-04-20 advisory), in every context.
pub fn type_of_ex(n: &Node, ctx: Ctx, d_unit_in_tap: bool) -> Result<T, String> {
    let tap = ctx == Ctx::Tap;
    let tapd = tap && d_unit_in_tap;
    let rej = |what: &str, n: &Node| format!("{}: {}", what, super::ast::print(n, false));
    match n {
        Node::True => Ok(leaf_true()),
        Node::False => Ok(leaf_false()),
        Node::PkK(_) => Ok(leaf_pk_k()),
        Node::PkH(_) | Node::RawPkH(_) => Ok(leaf_pk_h()),
        Node::After(t) => {
            if *t >= 1 && *t < 0x8000_0000 {
                Ok(leaf_time())
            } else {
                Err(rej("after out of range", n))
            }
        }
        Node::Older(t) => {
            if *t >= 1 && *t < 0x8000_0000 {
                Ok(leaf_time())
            } else {
                Err(rej("older out of range", n))
            }
        }
        Node::Sha256(_) | Node::Hash256(_) | Node::Ripemd160(_) | Node::Hash160(_) => Ok(leaf_hash()),
        Node::Alt(x) => unary(Frag::WrapA, type_of_ex(x, ctx, d_unit_in_tap)?, tap).ok_or_else(|| rej("a:", n)),
        Node::Swap(x) => unary(Frag::WrapS, type_of_ex(x, ctx, d_unit_in_tap)?, tap).ok_or_else(|| rej("s:", n)),
        Node::Check(x) => unary(Frag::WrapC, type_of_ex(x, ctx, d_unit_in_tap)?, tap).ok_or_else(|| rej("c:", n)),
        Node::DupIf(x) => unary(Frag::WrapD, type_of_ex(x, ctx, d_unit_in_tap)?, tapd).ok_or_else(|| rej("d:", n)),
        Node::Verify(x) => unary(Frag::WrapV, type_of_ex(x, ctx, d_unit_in_tap)?, tap).ok_or_else(|| rej("v:", n)),
        Node::NonZero(x) => unary(Frag::WrapJ, type_of_ex(x, ctx, d_unit_in_tap)?, tap).ok_or_else(|| rej("j:", n)),
        Node::ZeroNotEqual(x) => unary(Frag::WrapN, type_of_ex(x, ctx, d_unit_in_tap)?, tap).ok_or_else(|| rej("n:", n)),
        Node::AndV(x, y) => binary(Frag::AndV, type_of_ex(x, ctx, d_unit_in_tap)?, type_of_ex(y, ctx, d_unit_in_tap)?).ok_or_else(|| rej("and_v", n)),
        Node::AndB(x, y) => binary(Frag::AndB, type_of_ex(x, ctx, d_unit_in_tap)?, type_of_ex(y, ctx, d_unit_in_tap)?).ok_or_else(|| rej("and_b", n)),
        Node::OrB(x, y) => binary(Frag::OrB, type_of_ex(x, ctx, d_unit_in_tap)?, type_of_ex(y, ctx, d_unit_in_tap)?).ok_or_else(|| rej("or_b", n)),
        Node::OrD(x, y) => binary(Frag::OrD, type_of_ex(x, ctx, d_unit_in_tap)?, type_of_ex(y, ctx, d_unit_in_tap)?).ok_or_else(|| rej("or_d", n)),
        Node::OrC(x, y) => binary(Frag::OrC, type_of_ex(x, ctx, d_unit_in_tap)?, type_of_ex(y, ctx, d_unit_in_tap)?).ok_or_else(|| rej("or_c", n)),
        Node::OrI(x, y) => binary(Frag::OrI, type_of_ex(x, ctx, d_unit_in_tap)?, type_of_ex(y, ctx, d_unit_in_tap)?).ok_or_else(|| rej("or_i", n)),
        Node::AndOr(x, y, z) => {
            and_or(type_of_ex(x, ctx, d_unit_in_tap)?, type_of_ex(y, ctx, d_unit_in_tap)?, type_of_ex(z, ctx, d_unit_in_tap)?).ok_or_else(|| rej("andor", n))
        }
        Node::Thresh(k, subs) => {
            let mut ts = Vec::new();
            for s in subs {
                ts.push(type_of_ex(s, ctx, d_unit_in_tap)?);
            }
            thresh(*k, &ts).ok_or_else(|| rej("thresh", n))
        }
        Node::Multi(k, ks) | Node::SortedMulti(k, ks) => {
            if tap {
                return Err(rej("multi in tapscript", n));
            }
            if *k >= 1 && *k <= ks.len() && ks.len() <= 20 {
                Ok(leaf_multi())
            } else {
                Err(rej("multi arity", n))
            }
        }
        Node::MultiA(k, ks) | Node::SortedMultiA(k, ks) => {
            if !tap {
                return Err(rej("multi_a outside tapscript", n));
            }
            if *k >= 1 && *k <= ks.len() && ks.len() <= 999 {
                Ok(leaf_multi_a())
            } else {
                Err(rej("multi_a arity", n))
            }
        }
    }
}

// ---------------------------------------------------------------------------------------
// mapping from the crate's representation

use miniscript::miniscript::types::{Base, Correctness, Dissat, Input, Malleability, Type};

pub fn from_lib(t: &Type) -> T {
    let mut r = match t.corr.base {
        Base::B => B,
        Base::V => V,
        Base::K => K,
        Base::W => W,
    };
    r |= match t.corr.input {
        Input::Zero => Z,
        Input::One => O,
        Input::Any => 0,
        Input::OneNonZero => O | N,
        Input::AnyNonZero => N,
    };
    if t.corr.dissatisfiable {
        r |= D;
    }
    if t.corr.unit {
        r |= U;
    }
    r |= match t.mall.dissat {
        Dissat::None => F,
        Dissat::Unique => E,
        Dissat::Unknown => 0,
    };
    if t.mall.signed {
        r |= S;
    }
    if t.mall.non_malleable {
        r |= M;
    }
    r
}

/// All 80 correctness values.
pub fn all_corr() -> Vec<Correctness> {
    let mut v = Vec::new();
    for base in [Base::B, Base::V, Base::K, Base::W] {
        for input in [Input::Zero, Input::One, Input::Any, Input::OneNonZero, Input::AnyNonZero] {
            for d in [false, true] {
                for u in [false, true] {
                    v.push(Correctness { base, input, dissatisfiable: d, unit: u });
                }
            }
        }
    }
    v
}

/// All 12 malleability values.
pub fn all_mall() -> Vec<Malleability> {
    let mut v = Vec::new();
    for dissat in [Dissat::None, Dissat::Unique, Dissat::Unknown] {
        for s in [false, true] {
            for m in [false, true] {
                v.push(Malleability { dissat, signed: s, non_malleable: m });
            }
        }
    }
    v
}

/// All 960 type values.
pub fn all_types() -> Vec<Type> {
    let mut v = Vec::new();
    for c in all_corr() {
        for m in all_mall() {
            v.push(Type { corr: c, mall: m });
        }
    }
    v
}

// ---------------------------------------------------------------------------------------
// reachable types

use std::collections::BTreeSet;
use std::sync::OnceLock;

pub fn to_lib(t: T) -> Option<Type> {
    let base = match t & BASES {
        x if x == B => Base::B,
        x if x == V => Base::V,
        x if x == K => Base::K,
        x if x == W => Base::W,
        _ => return None,
    };
    let input = match (t & Z != 0, t & O != 0, t & N != 0) {
        (true, false, false) => Input::Zero,
        (false, true, false) => Input::One,
        (false, false, false) => Input::Any,
        (false, true, true) => Input::OneNonZero,
        (false, false, true) => Input::AnyNonZero,
        _ => return None,
    };
    let dissat = match (t & F != 0, t & E != 0) {
        (true, false) => Dissat::None,
        (false, true) => Dissat::Unique,
        (false, false) => Dissat::Unknown,
        _ => return None,
    };
    Some(Type {
        corr: Correctness { base, input, dissatisfiable: t & D != 0, unit: t & U != 0 },
        mall: Malleability { dissat, signed: t & S != 0, non_malleable: t & M != 0 },
    })
}

/// Least fixpoint of the given rules over the leaves (thresholds with up to 3 children).
pub fn closure(
    leaves: &[T],
    unary_rules: &dyn Fn(T) -> Vec<T>,
    binary_rules: &dyn Fn(T, T) -> Vec<T>,
    ternary_rule: &dyn Fn(T, T, T) -> Option<T>,
    thresh_rule: &dyn Fn(usize, &[T]) -> Option<T>,
) -> BTreeSet<T> {
    let mut set: BTreeSet<T> = leaves.iter().copied().collect();
    loop {
        let cur: Vec<T> = set.iter().copied().collect();
        let before = set.len();
        for &x in &cur {
            set.extend(unary_rules(x));
        }
        for &x in &cur {
            for &y in &cur {
                set.extend(binary_rules(x, y));
            }
        }
        let bdu: Vec<T> = cur.iter().copied().filter(|t| has(*t, B | D | U)).collect();
        for &x in &bdu {
            for &y in &cur {
                for &z in &cur {
                    if (y & BASES) != (z & BASES) {
                        continue;
                    }
                    if let Some(r) = ternary_rule(x, y, z) {
                        set.insert(r);
                    }
                }
            }
        }
        let wdu: Vec<T> = cur.iter().copied().filter(|t| has(*t, W | D | U)).collect();
        for &a in &bdu {
            if let Some(r) = thresh_rule(1, &[a]) {
                set.insert(r);
            }
            for &b2 in &wdu {
                for k in 1..=2 {
                    if let Some(r) = thresh_rule(k, &[a, b2]) {
                        set.insert(r);
                    }
                }
                for &c in &wdu {
                    for k in 1..=3 {
                        if let Some(r) = thresh_rule(k, &[a, b2, c]) {
                            set.insert(r);
                        }
                    }
                }
            }
        }
        if set.len() == before {
            return set;
        }
    }
}

fn leaves_all() -> Vec<T> {
    vec![leaf_true(), leaf_false(), leaf_pk_k(), leaf_pk_h(), leaf_time(), leaf_hash(), leaf_multi(), leaf_multi_a()]
}

/// Types some fragment can have according to the specification (either context).
pub fn reachable_spec() -> &'static BTreeSet<T> {
    static R: OnceLock<BTreeSet<T>> = OnceLock::new();
    R.get_or_init(|| {
        closure(
            &leaves_all(),
            &|x| {
                let mut v = Vec::new();
                for f in [Frag::WrapA, Frag::WrapS, Frag::WrapC, Frag::WrapD, Frag::WrapV, Frag::WrapJ, Frag::WrapN] {
                    v.extend(unary(f, x, false));
                    v.extend(unary(f, x, true));
                }
                v
            },
            &|x, y| {
                let mut v = Vec::new();
                for f in [Frag::AndV, Frag::AndB, Frag::OrB, Frag::OrD, Frag::OrC, Frag::OrI] {
                    v.extend(binary(f, x, y));
                }
                v
            },
            &and_or,
            &thresh,
        )
    })
}

/// Types some fragment can have according to the library's own rules (as spec bits).
pub fn reachable_lib() -> &'static BTreeSet<T> {
    static R: OnceLock<BTreeSet<T>> = OnceLock::new();
    R.get_or_init(|| {
        let l = |r: Result<Type, miniscript::miniscript::types::ErrorKind>| r.ok().map(|t| from_lib(&t));
        let leaves: Vec<T> = [
            Type::TRUE,
            Type::FALSE,
            Type::pk_k(),
            Type::pk_h(),
            Type::time(),
            Type::hash(),
            Type::multi(),
            Type::multi_a(),
            Type::sortedmulti(),
            Type::sortedmulti_a(),
        ]
        .iter()
        .map(from_lib)
        .collect();
        closure(
            &leaves,
            &|x| {
                let mut v = Vec::new();
                if let Some(t) = to_lib(x) {
                    v.extend(l(t.cast_alt()));
                    v.extend(l(t.cast_swap()));
                    v.extend(l(t.cast_check()));
                    v.extend(l(t.cast_dupif()));
                    v.extend(l(t.cast_verify()));
                    v.extend(l(t.cast_nonzero()));
                    v.extend(l(t.cast_zeronotequal()));
                    v.extend(l(t.cast_true()));
                    v.extend(l(t.cast_likely()));
                    v.extend(l(t.cast_unlikely()));
                }
                v
            },
            &|x, y| {
                let mut v = Vec::new();
                if let (Some(a), Some(b2)) = (to_lib(x), to_lib(y)) {
                    v.extend(l(Type::and_v(a, b2)));
                    v.extend(l(Type::and_b(a, b2)));
                    v.extend(l(Type::or_b(a, b2)));
                    v.extend(l(Type::or_d(a, b2)));
                    v.extend(l(Type::or_c(a, b2)));
                    v.extend(l(Type::or_i(a, b2)));
                }
                v
            },
            &|x, y, z| match (to_lib(x), to_lib(y), to_lib(z)) {
                (Some(a), Some(b2), Some(c)) => l(Type::and_or(a, b2, c)),
                _ => None,
            },
            &|k, subs| {
                let ts: Option<Vec<Type>> = subs.iter().map(|s| to_lib(*s)).collect();
                ts.and_then(|ts| l(Type::threshold(k, ts.iter())))
            },
        )
    })
}

/// The domain on which property letters are compared: types reachable under either rule set.
pub fn meaningful(t: T) -> bool { reachable_spec().contains(&t) || reachable_lib().contains(&t) }
