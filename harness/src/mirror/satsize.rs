//! Exact worst-case size of a canonical satisfaction / dissatisfaction, from the satisfaction
//! table of the Miniscript specification (independent of the library's `ExtData`).
//!
//! Conventions (the library's documented ones): an ECDSA signature element is 72 bytes (73 with
//! its push opcode / length prefix), a Schnorr signature 65 (66), a preimage 32 (33), an empty
//! element costs 1 byte, the element `0x01` costs 2 bytes in a witness and 1 byte (OP_1) in a
//! scriptSig.  Every dimension is maximised on its own (as the library does).

use crate::mirror::ast::Node;
use crate::mirror::encode::key_bytes;
use crate::mirror::spec::Ctx;

#[derive(Clone, Copy, Debug, PartialEq, Eq)]
pub struct Cost {
    /// witness bytes incl. the per-element length prefix
    pub wit: usize,
    /// number of elements
    pub elems: usize,
    /// scriptSig bytes (pushes)
    pub ssig: usize,
    /// keys of the CHECKMULTISIGs that are executed (each adds its key count to the consensus
    /// opcode counter; all other opcodes count whether executed or not)
    pub mops: usize,
}

impl Cost {
    pub const ZERO: Cost = Cost { wit: 0, elems: 0, ssig: 0, mops: 0 };
    fn add(self, o: Cost) -> Cost { Cost { wit: self.wit + o.wit, elems: self.elems + o.elems, ssig: self.ssig + o.ssig, mops: self.mops + o.mops } }
    fn max(self, o: Cost) -> Cost { Cost { wit: self.wit.max(o.wit), elems: self.elems.max(o.elems), ssig: self.ssig.max(o.ssig), mops: self.mops.max(o.mops) } }
}

fn omax(a: Option<Cost>, b: Option<Cost>) -> Option<Cost> {
    match (a, b) {
        (Some(x), Some(y)) => Some(x.max(y)),
        (x, None) => x,
        (None, y) => y,
    }
}
fn oadd(a: Option<Cost>, b: Option<Cost>) -> Option<Cost> { Some(a?.add(b?)) }

const EMPTY: Cost = Cost { wit: 1, elems: 1, ssig: 1, mops: 0 };
const ONE: Cost = Cost { wit: 2, elems: 1, ssig: 1, mops: 0 };
const PREIMAGE: Cost = Cost { wit: 33, elems: 1, ssig: 33, mops: 0 };

fn sig(ctx: Ctx) -> Cost {
    if ctx == Ctx::Tap {
        Cost { wit: 66, elems: 1, ssig: 66, mops: 0 }
    } else {
        Cost { wit: 73, elems: 1, ssig: 73, mops: 0 }
    }
}

fn push_len(n: usize) -> usize {
    if n < 76 {
        1 + n
    } else {
        2 + n
    }
}

#[derive(Clone, Copy, Debug)]
pub struct SD {
    pub sat: Option<Cost>,
    pub dis: Option<Cost>,
}

/// `None`: the node contains something whose size this model does not fix (raw pkh).
pub fn sizes(n: &Node, ctx: Ctx) -> Option<SD> {
    use Node::*;
    Some(match n {
        True => SD { sat: Some(Cost::ZERO), dis: None },
        False => SD { sat: None, dis: Some(Cost::ZERO) },
        PkK(_) => SD { sat: Some(sig(ctx)), dis: Some(EMPTY) },
        PkH(k) => {
            let kl = key_bytes(k, ctx).ok()?.len();
            let key = Cost { wit: 1 + kl, elems: 1, ssig: push_len(kl), mops: 0 };
            SD { sat: Some(sig(ctx).add(key)), dis: Some(EMPTY.add(key)) }
        }
        RawPkH(_) => return None,
        After(_) | Older(_) => SD { sat: Some(Cost::ZERO), dis: None },
        Sha256(_) | Hash256(_) | Ripemd160(_) | Hash160(_) => SD { sat: Some(PREIMAGE), dis: Some(PREIMAGE) },
        Alt(x) | Swap(x) | Check(x) | ZeroNotEqual(x) => sizes(x, ctx)?,
        DupIf(x) => {
            let s = sizes(x, ctx)?;
            SD { sat: oadd(s.sat, Some(ONE)), dis: Some(EMPTY) }
        }
        Verify(x) => SD { sat: sizes(x, ctx)?.sat, dis: None },
        NonZero(x) => SD { sat: sizes(x, ctx)?.sat, dis: Some(EMPTY) },
        AndV(x, y) => {
            let (a, b) = (sizes(x, ctx)?, sizes(y, ctx)?);
            SD { sat: oadd(a.sat, b.sat), dis: None }
        }
        AndB(x, y) => {
            let (a, b) = (sizes(x, ctx)?, sizes(y, ctx)?);
            SD { sat: oadd(a.sat, b.sat), dis: oadd(a.dis, b.dis) }
        }
        AndOr(x, y, z) => {
            let (a, b, c) = (sizes(x, ctx)?, sizes(y, ctx)?, sizes(z, ctx)?);
            SD { sat: omax(oadd(a.sat, b.sat), oadd(a.dis, c.sat)), dis: oadd(a.dis, c.dis) }
        }
        OrB(x, z) => {
            let (a, b) = (sizes(x, ctx)?, sizes(z, ctx)?);
            SD { sat: omax(oadd(a.sat, b.dis), oadd(a.dis, b.sat)), dis: oadd(a.dis, b.dis) }
        }
        OrC(x, z) => {
            let (a, b) = (sizes(x, ctx)?, sizes(z, ctx)?);
            SD { sat: omax(a.sat, oadd(a.dis, b.sat)), dis: None }
        }
        OrD(x, z) => {
            let (a, b) = (sizes(x, ctx)?, sizes(z, ctx)?);
            SD { sat: omax(a.sat, oadd(a.dis, b.sat)), dis: oadd(a.dis, b.dis) }
        }
        OrI(x, z) => {
            let (a, b) = (sizes(x, ctx)?, sizes(z, ctx)?);
            SD { sat: omax(oadd(a.sat, Some(ONE)), oadd(b.sat, Some(EMPTY))), dis: omax(oadd(a.dis, Some(ONE)), oadd(b.dis, Some(EMPTY))) }
        }
        Thresh(k, subs) => {
            let mut v = Vec::new();
            for s in subs {
                v.push(sizes(s, ctx)?);
            }
            let dis = v.iter().fold(Some(Cost::ZERO), |acc, s| oadd(acc, s.dis));
            // exact maximum of every dimension over the choices of k satisfied children
            let dim = |f: &dyn Fn(Cost) -> usize| -> Option<usize> {
                // best[j] = max total with j satisfied among the children seen so far
                let mut best: Vec<Option<usize>> = vec![None; k + 1];
                best[0] = Some(0);
                for s in &v {
                    let mut next: Vec<Option<usize>> = vec![None; k + 1];
                    for j in 0..=*k {
                        if let Some(b) = best[j] {
                            if let Some(d) = s.dis {
                                let c = b + f(d);
                                next[j] = Some(next[j].map_or(c, |x: usize| x.max(c)));
                            }
                            if j < *k {
                                if let Some(st) = s.sat {
                                    let c = b + f(st);
                                    next[j + 1] = Some(next[j + 1].map_or(c, |x: usize| x.max(c)));
                                }
                            }
                        }
                    }
                    best = next;
                }
                best[*k]
            };
            let sat = match (dim(&|c| c.wit), dim(&|c| c.elems), dim(&|c| c.ssig), dim(&|c| c.mops)) {
                (Some(w), Some(e), Some(s), Some(m)) => Some(Cost { wit: w, elems: e, ssig: s, mops: m }),
                _ => None,
            };
            SD { sat, dis }
        }
        Multi(k, ks) | SortedMulti(k, ks) => {
            let s = sig(ctx);
            SD {
                sat: Some(Cost { wit: 1 + k * s.wit, elems: k + 1, ssig: 1 + k * s.ssig, mops: ks.len() }),
                dis: Some(Cost { wit: k + 1, elems: k + 1, ssig: k + 1, mops: ks.len() }),
            }
        }
        MultiA(k, ks) | SortedMultiA(k, ks) => {
            let s = sig(ctx);
            let n = ks.len();
            SD {
                sat: Some(Cost { wit: k * s.wit + (n - k), elems: n, ssig: k * s.ssig + (n - k), mops: 0 }),
                dis: Some(Cost { wit: n, elems: n, ssig: n, mops: 0 }),
            }
        }
    })
}

/// Number of opcodes that the consensus opcode counter counts (everything above OP_16), whether
/// executed or not; `None` for a malformed script.
pub fn count_ops(script: &[u8]) -> Option<usize> {
    let mut i = 0usize;
    let mut n = 0usize;
    while i < script.len() {
        let op = script[i];
        i += 1;
        let skip = match op {
            0x01..=0x4b => op as usize,
            0x4c => {
                let l = *script.get(i)? as usize;
                i += 1;
                l
            }
            0x4d => {
                let l = u16::from_le_bytes([*script.get(i)?, *script.get(i + 1)?]) as usize;
                i += 2;
                l
            }
            0x4e => {
                let l = u32::from_le_bytes([*script.get(i)?, *script.get(i + 1)?, *script.get(i + 2)?, *script.get(i + 3)?]) as usize;
                i += 4;
                l
            }
            _ => 0,
        };
        if i + skip > script.len() {
            return None;
        }
        i += skip;
        if op > 0x60 {
            n += 1;
        }
    }
    Some(n)
}
