pub mod analysis;
pub mod ast;
pub mod encode;
pub mod spec;
