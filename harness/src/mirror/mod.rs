pub mod analysis;
pub mod ast;
pub mod canon;
pub mod encode;
pub mod satsize;
pub mod spec;
