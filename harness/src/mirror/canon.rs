//! Enumeration of the canonical satisfactions and dissatisfactions of a miniscript as concrete
//! witness stacks (bottom first), following the satisfaction table of the specification.
//! Signatures are supplied by the caller (symbolic ones for the table-based checker).

use crate::keys;
use crate::mirror::ast::Node;
use crate::mirror::encode::{key_bytes, multi_keys_in_script_order};
use crate::mirror::spec::Ctx;

pub type Stack = Vec<Vec<u8>>;

pub struct Env<'a> {
    pub ctx: Ctx,
    /// signature for the key with these script bytes
    pub sig: &'a dyn Fn(&[u8]) -> Option<Vec<u8>>,
    /// at most this many stacks are kept per node and kind (the largest ones by byte size first,
    /// then the ones with most elements)
    pub cap: usize,
    /// false: a pk_h can be satisfied (signature + key) but not dissatisfied (the key behind
    /// the hash is only known together with a signature)
    pub pkh_dissat: bool,
}

pub struct SD {
    pub sat: Vec<Stack>,
    pub dis: Vec<Stack>,
}

fn size_of(s: &Stack) -> (usize, usize) { (s.iter().map(|e| e.len() + 1).sum(), s.len()) }

fn trim(mut v: Vec<Stack>, cap: usize) -> Vec<Stack> {
    v.sort();
    v.dedup();
    if v.len() > cap {
        // keep the heaviest, the ones with most elements, and the lightest (half / quarter / quarter)
        let mut by_size = v.clone();
        by_size.sort_by_key(|s| std::cmp::Reverse(size_of(s).0));
        let mut by_elems = v.clone();
        by_elems.sort_by_key(|s| std::cmp::Reverse(size_of(s).1));
        let mut keep: Vec<Stack> = Vec::new();
        for s in by_size.iter().take(cap / 2).chain(by_elems.iter().take(cap / 4)).chain(by_size.iter().rev().take(cap / 4)) {
            if !keep.contains(s) {
                keep.push(s.clone());
            }
        }
        v = keep;
    }
    v
}

/// every `lo ++ hi` (the `hi` part ends up on top, i.e. is consumed first)
fn cat(lo: &[Stack], hi: &[Stack], cap: usize) -> Vec<Stack> {
    let mut out = Vec::new();
    for a in lo {
        for b2 in hi {
            let mut s = a.clone();
            s.extend(b2.iter().cloned());
            out.push(s);
            if out.len() > cap * 8 {
                return trim(out, cap);
            }
        }
    }
    trim(out, cap)
}

fn with_top(v: &[Stack], top: Vec<u8>) -> Vec<Stack> {
    v.iter()
        .map(|s| {
            let mut s = s.clone();
            s.push(top.clone());
            s
        })
        .collect()
}

/// `None`: a raw key hash, an unknown key or an unknown preimage.
pub fn canon(n: &Node, env: &Env) -> Option<SD> {
    use Node::*;
    let cap = env.cap;
    let empty: Vec<u8> = vec![];
    let one: Vec<u8> = vec![1];
    Some(match n {
        True => SD { sat: vec![vec![]], dis: vec![] },
        False => SD { sat: vec![], dis: vec![vec![]] },
        PkK(k) => {
            let kb = key_bytes(k, env.ctx).ok()?;
            let sat = match (env.sig)(&kb) {
                Some(sg) => vec![vec![sg]],
                None if !env.pkh_dissat => vec![],
                None => return None,
            };
            SD { sat, dis: vec![vec![empty]] }
        }
        PkH(k) => {
            let kb = key_bytes(k, env.ctx).ok()?;
            let sat = match (env.sig)(&kb) {
                Some(sg) => vec![vec![sg, kb.clone()]],
                None if !env.pkh_dissat => vec![],
                None => return None,
            };
            SD { sat, dis: if env.pkh_dissat { vec![vec![empty, kb]] } else { vec![] } }
        }
        RawPkH(_) => return None,
        After(_) | Older(_) => SD { sat: vec![vec![]], dis: vec![] },
        Sha256(h) | Hash256(h) | Ripemd160(h) | Hash160(h) => {
            let d = keys::unhex(h).ok()?;
            let p = keys::preimage_for_digest(&d)?;
            SD { sat: vec![vec![p.to_vec()]], dis: vec![vec![vec![0u8; 32]]] }
        }
        Alt(x) | Swap(x) | Check(x) | ZeroNotEqual(x) => canon(x, env)?,
        DupIf(x) => {
            let s = canon(x, env)?;
            SD { sat: with_top(&s.sat, one), dis: vec![vec![empty]] }
        }
        Verify(x) => SD { sat: canon(x, env)?.sat, dis: vec![] },
        NonZero(x) => SD { sat: canon(x, env)?.sat, dis: vec![vec![empty]] },
        AndV(x, y) => {
            let (a, b2) = (canon(x, env)?, canon(y, env)?);
            SD { sat: cat(&b2.sat, &a.sat, cap), dis: vec![] }
        }
        AndB(x, y) => {
            let (a, b2) = (canon(x, env)?, canon(y, env)?);
            SD { sat: cat(&b2.sat, &a.sat, cap), dis: cat(&b2.dis, &a.dis, cap) }
        }
        AndOr(x, y, z) => {
            let (a, b2, c) = (canon(x, env)?, canon(y, env)?, canon(z, env)?);
            let mut sat = cat(&b2.sat, &a.sat, cap);
            sat.extend(cat(&c.sat, &a.dis, cap));
            SD { sat: trim(sat, cap), dis: cat(&c.dis, &a.dis, cap) }
        }
        OrB(x, z) => {
            let (a, b2) = (canon(x, env)?, canon(z, env)?);
            let mut sat = cat(&b2.dis, &a.sat, cap);
            sat.extend(cat(&b2.sat, &a.dis, cap));
            SD { sat: trim(sat, cap), dis: cat(&b2.dis, &a.dis, cap) }
        }
        OrC(x, z) => {
            let (a, b2) = (canon(x, env)?, canon(z, env)?);
            let mut sat = a.sat.clone();
            sat.extend(cat(&b2.sat, &a.dis, cap));
            SD { sat: trim(sat, cap), dis: vec![] }
        }
        OrD(x, z) => {
            let (a, b2) = (canon(x, env)?, canon(z, env)?);
            let mut sat = a.sat.clone();
            sat.extend(cat(&b2.sat, &a.dis, cap));
            SD { sat: trim(sat, cap), dis: cat(&b2.dis, &a.dis, cap) }
        }
        OrI(x, z) => {
            let (a, b2) = (canon(x, env)?, canon(z, env)?);
            let mut sat = with_top(&a.sat, one.clone());
            sat.extend(with_top(&b2.sat, empty.clone()));
            let mut dis = with_top(&a.dis, one);
            dis.extend(with_top(&b2.dis, empty));
            SD { sat: trim(sat, cap), dis: trim(dis, cap) }
        }
        Thresh(k, subs) => {
            let mut v = Vec::new();
            for s in subs {
                v.push(canon(s, env)?);
            }
            // the first child runs first: its inputs are on top
            // acc[j] = stacks for the children processed so far (last child first) with j satisfied
            let mut acc: Vec<Vec<Stack>> = vec![Vec::new(); k + 1];
            acc[0] = vec![vec![]];
            for s in v.iter().rev() {
                let mut next: Vec<Vec<Stack>> = vec![Vec::new(); k + 1];
                for j in 0..=*k {
                    if acc[j].is_empty() {
                        continue;
                    }
                    next[j].extend(cat(&acc[j], &s.dis, cap));
                    if j < *k {
                        next[j + 1].extend(cat(&acc[j], &s.sat, cap));
                    }
                }
                acc = next.into_iter().map(|x| trim(x, cap)).collect();
            }
            let dis = v.iter().rev().fold(vec![vec![]], |a: Vec<Stack>, s| cat(&a, &s.dis, cap));
            SD { sat: acc[*k].clone(), dis }
        }
        Multi(k, _) | SortedMulti(k, _) => {
            let keys = multi_keys_in_script_order(n, env.ctx).ok()?;
            let mut sat = Vec::new();
            // first k keys, last k keys, every other key from the start
            let nk = keys.len();
            let mut subsets: Vec<Vec<usize>> = vec![(0..*k).collect(), (nk - k..nk).collect()];
            subsets.push((0..nk).step_by(2).chain((1..nk).step_by(2)).take(*k).collect::<Vec<_>>());
            if !env.pkh_dissat {
                // holdings mode: only keys with a signature
                let held: Vec<usize> = (0..nk).filter(|i| (env.sig)(&keys[*i]).is_some()).collect();
                subsets = if held.len() >= *k { vec![held[..*k].to_vec(), held[held.len() - k..].to_vec()] } else { vec![] };
            }
            for mut sub in subsets {
                sub.sort();
                sub.dedup();
                if sub.len() != *k {
                    continue;
                }
                let mut s: Stack = vec![empty.clone()];
                for i in sub {
                    s.push((env.sig)(&keys[i])?);
                }
                sat.push(s);
            }
            SD { sat: trim(sat, cap), dis: vec![vec![empty; k + 1]] }
        }
        MultiA(k, _) | SortedMultiA(k, _) => {
            let keys = multi_keys_in_script_order(n, env.ctx).ok()?;
            let nk = keys.len();
            let mut sat = Vec::new();
            let mut subsets: Vec<Vec<usize>> = vec![(0..*k).collect(), (nk - k..nk).collect()];
            if !env.pkh_dissat {
                let held: Vec<usize> = (0..nk).filter(|i| (env.sig)(&keys[*i]).is_some()).collect();
                subsets = if held.len() >= *k { vec![held[..*k].to_vec(), held[held.len() - k..].to_vec()] } else { vec![] };
            }
            for sub in subsets {
                // key 1 is checked first: its element is on top
                let mut s: Stack = Vec::new();
                for i in (0..nk).rev() {
                    if sub.contains(&i) {
                        s.push((env.sig)(&keys[i])?);
                    } else {
                        s.push(empty.clone());
                    }
                }
                sat.push(s);
            }
            SD { sat: trim(sat, cap), dis: vec![vec![empty; nk]] }
        }
    })
}
