//! Mirror AST: plain enum with the same shape as `Terminal`, over string atoms.
//! Structural equality here is derived, so it cannot share a bug with the library's
//! hand-written `PartialEq`.

use miniscript::{Miniscript, MiniscriptKey, ScriptContext, Terminal};

#[derive(Clone, Debug, PartialEq, Eq, Hash, PartialOrd, Ord)]
pub enum Node {
    True,
    False,
    PkK(String),
    PkH(String),
    RawPkH(String),
    After(u32),
    Older(u32),
    Sha256(String),
    Hash256(String),
    Ripemd160(String),
    Hash160(String),
    Alt(Box<Node>),
    Swap(Box<Node>),
    Check(Box<Node>),
    DupIf(Box<Node>),
    Verify(Box<Node>),
    NonZero(Box<Node>),
    ZeroNotEqual(Box<Node>),
    AndV(Box<Node>, Box<Node>),
    AndB(Box<Node>, Box<Node>),
    AndOr(Box<Node>, Box<Node>, Box<Node>),
    OrB(Box<Node>, Box<Node>),
    OrD(Box<Node>, Box<Node>),
    OrC(Box<Node>, Box<Node>),
    OrI(Box<Node>, Box<Node>),
    Thresh(usize, Vec<Node>),
    Multi(usize, Vec<String>),
    SortedMulti(usize, Vec<String>),
    MultiA(usize, Vec<String>),
    SortedMultiA(usize, Vec<String>),
}

use Node::*;

pub fn b(n: Node) -> Box<Node> { Box::new(n) }

impl Node {
    pub fn children(&self) -> Vec<&Node> {
        match self {
            Alt(x) | Swap(x) | Check(x) | DupIf(x) | Verify(x) | NonZero(x) | ZeroNotEqual(x) => vec![x],
            AndV(x, y) | AndB(x, y) | OrB(x, y) | OrD(x, y) | OrC(x, y) | OrI(x, y) => vec![x, y],
            AndOr(x, y, z) => vec![x, y, z],
            Thresh(_, v) => v.iter().collect(),
            _ => vec![],
        }
    }
    pub fn children_mut(&mut self) -> Vec<&mut Node> {
        match self {
            Alt(x) | Swap(x) | Check(x) | DupIf(x) | Verify(x) | NonZero(x) | ZeroNotEqual(x) => vec![x],
            AndV(x, y) | AndB(x, y) | OrB(x, y) | OrD(x, y) | OrC(x, y) | OrI(x, y) => vec![x, y],
            AndOr(x, y, z) => vec![x, y, z],
            Thresh(_, v) => v.iter_mut().collect(),
            _ => vec![],
        }
    }
    pub fn n_nodes(&self) -> usize { 1 + self.children().iter().map(|c| c.n_nodes()).sum::<usize>() }
    pub fn height(&self) -> usize { 1 + self.children().iter().map(|c| c.height()).max().unwrap_or(0) }
    pub fn n_leaves(&self) -> usize {
        let c = self.children();
        if c.is_empty() {
            1
        } else {
            c.iter().map(|c| c.n_leaves()).sum()
        }
    }
    pub fn is_wrapper(&self) -> bool {
        matches!(self, Alt(_) | Swap(_) | Check(_) | DupIf(_) | Verify(_) | NonZero(_) | ZeroNotEqual(_))
    }
    /// pre-order traversal
    pub fn walk<'a>(&'a self, f: &mut dyn FnMut(&'a Node)) {
        f(self);
        for c in self.children() {
            c.walk(f);
        }
    }
    /// All keys, in left-to-right order of appearance (multiset).
    pub fn keys(&self) -> Vec<String> {
        let mut out = Vec::new();
        self.walk(&mut |n| match n {
            PkK(k) | PkH(k) => out.push(k.clone()),
            Multi(_, ks) | SortedMulti(_, ks) | MultiA(_, ks) | SortedMultiA(_, ks) => out.extend(ks.iter().cloned()),
            _ => {}
        });
        out
    }
    pub fn map_keys(&self, f: &mut dyn FnMut(&str) -> String) -> Node {
        match self {
            PkK(k) => PkK(f(k)),
            PkH(k) => PkH(f(k)),
            Multi(k, ks) => Multi(*k, ks.iter().map(|x| f(x)).collect()),
            SortedMulti(k, ks) => SortedMulti(*k, ks.iter().map(|x| f(x)).collect()),
            MultiA(k, ks) => MultiA(*k, ks.iter().map(|x| f(x)).collect()),
            SortedMultiA(k, ks) => SortedMultiA(*k, ks.iter().map(|x| f(x)).collect()),
            Alt(x) => Alt(b(x.map_keys(f))),
            Swap(x) => Swap(b(x.map_keys(f))),
            Check(x) => Check(b(x.map_keys(f))),
            DupIf(x) => DupIf(b(x.map_keys(f))),
            Verify(x) => Verify(b(x.map_keys(f))),
            NonZero(x) => NonZero(b(x.map_keys(f))),
            ZeroNotEqual(x) => ZeroNotEqual(b(x.map_keys(f))),
            AndV(x, y) => {
                let x2 = x.map_keys(f);
                AndV(b(x2), b(y.map_keys(f)))
            }
            AndB(x, y) => {
                let x2 = x.map_keys(f);
                AndB(b(x2), b(y.map_keys(f)))
            }
            OrB(x, y) => {
                let x2 = x.map_keys(f);
                OrB(b(x2), b(y.map_keys(f)))
            }
            OrD(x, y) => {
                let x2 = x.map_keys(f);
                OrD(b(x2), b(y.map_keys(f)))
            }
            OrC(x, y) => {
                let x2 = x.map_keys(f);
                OrC(b(x2), b(y.map_keys(f)))
            }
            OrI(x, y) => {
                let x2 = x.map_keys(f);
                OrI(b(x2), b(y.map_keys(f)))
            }
            AndOr(x, y, z) => {
                let x2 = x.map_keys(f);
                let y2 = y.map_keys(f);
                AndOr(b(x2), b(y2), b(z.map_keys(f)))
            }
            Thresh(k, v) => Thresh(*k, v.iter().map(|x| x.map_keys(f)).collect()),
            other => other.clone(),
        }
    }
    pub fn frag_name(&self) -> &'static str {
        match self {
            True => "1",
            False => "0",
            PkK(_) => "pk_k",
            PkH(_) => "pk_h",
            RawPkH(_) => "expr_raw_pkh",
            After(_) => "after",
            Older(_) => "older",
            Sha256(_) => "sha256",
            Hash256(_) => "hash256",
            Ripemd160(_) => "ripemd160",
            Hash160(_) => "hash160",
            Alt(_) => "a",
            Swap(_) => "s",
            Check(_) => "c",
            DupIf(_) => "d",
            Verify(_) => "v",
            NonZero(_) => "j",
            ZeroNotEqual(_) => "n",
            AndV(..) => "and_v",
            AndB(..) => "and_b",
            AndOr(..) => "andor",
            OrB(..) => "or_b",
            OrD(..) => "or_d",
            OrC(..) => "or_c",
            OrI(..) => "or_i",
            Thresh(..) => "thresh",
            Multi(..) => "multi",
            SortedMulti(..) => "sortedmulti",
            MultiA(..) => "multi_a",
            SortedMultiA(..) => "sortedmulti_a",
        }
    }
}

// ---------------------------------------------------------------------------------------
// printing

/// Print. `sugar = true` uses pk/pkh/and_n/t:/l:/u: like the spec's canonical form;
/// `sugar = false` prints every node explicitly (c:pk_k(..), and_v(X,1), or_i(0,X)).
pub fn print(n: &Node, sugar: bool) -> String {
    let mut s = String::new();
    print_into(n, sugar, &mut s, false);
    s
}

fn print_into(n: &Node, sugar: bool, out: &mut String, after_wrapper: bool) {
    // returns nothing; `after_wrapper` = parent was a wrapper char, so we need ':' before a
    // non-wrapper name
    let wrapper_char: Option<(char, &Node)> = match n {
        Alt(x) => Some(('a', x)),
        Swap(x) => Some(('s', x)),
        Check(x) => {
            if sugar && matches!(**x, PkK(_) | PkH(_)) {
                None
            } else {
                Some(('c', x))
            }
        }
        DupIf(x) => Some(('d', x)),
        Verify(x) => Some(('v', x)),
        NonZero(x) => Some(('j', x)),
        ZeroNotEqual(x) => Some(('n', x)),
        AndV(x, y) if sugar && **y == True => Some(('t', x)),
        OrI(x, y) if sugar && **x == False => Some(('l', y)),
        OrI(x, y) if sugar && **y == False => Some(('u', x)),
        _ => None,
    };
    if let Some((c, x)) = wrapper_char {
        out.push(c);
        print_into(x, sugar, out, true);
        return;
    }
    if after_wrapper {
        out.push(':');
    }
    let args = |out: &mut String, v: &[&Node]| {
        out.push('(');
        for (i, c) in v.iter().enumerate() {
            if i > 0 {
                out.push(',');
            }
            print_into(c, sugar, out, false);
        }
        out.push(')');
    };
    match n {
        True => out.push('1'),
        False => out.push('0'),
        PkK(k) => {
            out.push_str("pk_k(");
            out.push_str(k);
            out.push(')');
        }
        PkH(k) => {
            out.push_str("pk_h(");
            out.push_str(k);
            out.push(')');
        }
        RawPkH(h) => {
            out.push_str("expr_raw_pkh(");
            out.push_str(h);
            out.push(')');
        }
        Check(x) => match &**x {
            PkK(k) => {
                out.push_str("pk(");
                out.push_str(k);
                out.push(')');
            }
            PkH(k) => {
                out.push_str("pkh(");
                out.push_str(k);
                out.push(')');
            }
            _ => unreachable!(),
        },
        After(t) => out.push_str(&format!("after({})", t)),
        Older(t) => out.push_str(&format!("older({})", t)),
        Sha256(h) => out.push_str(&format!("sha256({})", h)),
        Hash256(h) => out.push_str(&format!("hash256({})", h)),
        Ripemd160(h) => out.push_str(&format!("ripemd160({})", h)),
        Hash160(h) => out.push_str(&format!("hash160({})", h)),
        AndV(x, y) => {
            out.push_str("and_v");
            args(out, &[x, y]);
        }
        AndB(x, y) => {
            out.push_str("and_b");
            args(out, &[x, y]);
        }
        AndOr(x, y, z) => {
            if sugar && **z == False {
                out.push_str("and_n");
                args(out, &[x, y]);
            } else {
                out.push_str("andor");
                args(out, &[x, y, z]);
            }
        }
        OrB(x, y) => {
            out.push_str("or_b");
            args(out, &[x, y]);
        }
        OrD(x, y) => {
            out.push_str("or_d");
            args(out, &[x, y]);
        }
        OrC(x, y) => {
            out.push_str("or_c");
            args(out, &[x, y]);
        }
        OrI(x, y) => {
            out.push_str("or_i");
            args(out, &[x, y]);
        }
        Thresh(k, v) => {
            out.push_str(&format!("thresh({}", k));
            for c in v {
                out.push(',');
                print_into(c, sugar, out, false);
            }
            out.push(')');
        }
        Multi(k, ks) | SortedMulti(k, ks) | MultiA(k, ks) | SortedMultiA(k, ks) => {
            out.push_str(n.frag_name());
            out.push_str(&format!("({}", k));
            for key in ks {
                out.push(',');
                out.push_str(key);
            }
            out.push(')');
        }
        _ => unreachable!("wrappers handled above"),
    }
}

// ---------------------------------------------------------------------------------------
// parsing (spec grammar incl. sugar)

pub fn split_top(s: &str) -> Option<Vec<&str>> {
    // split on top-level commas; None on unbalanced parens
    let mut out = Vec::new();
    let mut depth = 0i32;
    let mut start = 0usize;
    for (i, c) in s.char_indices() {
        match c {
            '(' | '{' => depth += 1,
            ')' | '}' => {
                depth -= 1;
                if depth < 0 {
                    return None;
                }
            }
            ',' if depth == 0 => {
                out.push(&s[start..i]);
                start = i + 1;
            }
            _ => {}
        }
    }
    if depth != 0 {
        return None;
    }
    out.push(&s[start..]);
    Some(out)
}

pub fn parse(s: &str) -> Result<Node, String> {
    // wrappers: a run of wrapper chars followed by ':' where the run contains no '(' etc.
    if let Some(colon) = s.find(':') {
        let pre = &s[..colon];
        if !pre.is_empty() && pre.chars().all(|c| "asctdvjnlu".contains(c)) && !s[..colon].contains('(') {
            let inner = parse(&s[colon + 1..])?;
            let mut n = inner;
            for c in pre.chars().rev() {
                n = match c {
                    'a' => Alt(b(n)),
                    's' => Swap(b(n)),
                    'c' => Check(b(n)),
                    'd' => DupIf(b(n)),
                    'v' => Verify(b(n)),
                    'j' => NonZero(b(n)),
                    'n' => ZeroNotEqual(b(n)),
                    't' => AndV(b(n), b(True)),
                    'l' => OrI(b(False), b(n)),
                    'u' => OrI(b(n), b(False)),
                    _ => unreachable!(),
                };
            }
            return Ok(n);
        }
    }
    if s == "0" {
        return Ok(False);
    }
    if s == "1" {
        return Ok(True);
    }
    let open = s.find('(').ok_or_else(|| format!("no paren in `{}`", s))?;
    if !s.ends_with(')') {
        return Err(format!("no closing paren in `{}`", s));
    }
    let name = &s[..open];
    let inner = &s[open + 1..s.len() - 1];
    let args = split_top(inner).ok_or("unbalanced")?;
    let num = |x: &str| -> Result<u32, String> { x.parse::<u32>().map_err(|e| format!("{}: {}", x, e)) };
    let one = |args: &[&str]| -> Result<String, String> {
        if args.len() == 1 {
            Ok(args[0].to_string())
        } else {
            Err(format!("{} expects 1 arg", name))
        }
    };
    let two = |args: &[&str]| -> Result<(Node, Node), String> {
        if args.len() == 2 {
            Ok((parse(args[0])?, parse(args[1])?))
        } else {
            Err(format!("{} expects 2 args", name))
        }
    };
    Ok(match name {
        "pk_k" => PkK(one(&args)?),
        "pk_h" => PkH(one(&args)?),
        "pk" => Check(b(PkK(one(&args)?))),
        "pkh" => Check(b(PkH(one(&args)?))),
        "expr_raw_pkh" => RawPkH(one(&args)?),
        "after" => After(num(&one(&args)?)?),
        "older" => Older(num(&one(&args)?)?),
        "sha256" => Sha256(one(&args)?),
        "hash256" => Hash256(one(&args)?),
        "ripemd160" => Ripemd160(one(&args)?),
        "hash160" => Hash160(one(&args)?),
        "and_v" => {
            let (x, y) = two(&args)?;
            AndV(b(x), b(y))
        }
        "and_b" => {
            let (x, y) = two(&args)?;
            AndB(b(x), b(y))
        }
        "and_n" => {
            let (x, y) = two(&args)?;
            AndOr(b(x), b(y), b(False))
        }
        "or_b" => {
            let (x, y) = two(&args)?;
            OrB(b(x), b(y))
        }
        "or_c" => {
            let (x, y) = two(&args)?;
            OrC(b(x), b(y))
        }
        "or_d" => {
            let (x, y) = two(&args)?;
            OrD(b(x), b(y))
        }
        "or_i" => {
            let (x, y) = two(&args)?;
            OrI(b(x), b(y))
        }
        "andor" => {
            if args.len() != 3 {
                return Err("andor expects 3".into());
            }
            AndOr(b(parse(args[0])?), b(parse(args[1])?), b(parse(args[2])?))
        }
        "thresh" => {
            if args.len() < 2 {
                return Err("thresh expects k and children".into());
            }
            let k = num(args[0])? as usize;
            let mut v = Vec::new();
            for a in &args[1..] {
                v.push(parse(a)?);
            }
            Thresh(k, v)
        }
        "multi" | "sortedmulti" | "multi_a" | "sortedmulti_a" => {
            if args.len() < 2 {
                return Err("multi expects k and keys".into());
            }
            let k = num(args[0])? as usize;
            let ks: Vec<String> = args[1..].iter().map(|x| x.to_string()).collect();
            match name {
                "multi" => Multi(k, ks),
                "sortedmulti" => SortedMulti(k, ks),
                "multi_a" => MultiA(k, ks),
                _ => SortedMultiA(k, ks),
            }
        }
        _ => return Err(format!("unknown fragment `{}`", name)),
    })
}

// ---------------------------------------------------------------------------------------
// from the library value (pattern-matching public fields only)

pub fn from_lib<Pk: MiniscriptKey, Ctx: ScriptContext>(ms: &Miniscript<Pk, Ctx>) -> Node { from_term(&ms.node) }

pub fn from_term<Pk: MiniscriptKey, Ctx: ScriptContext>(t: &Terminal<Pk, Ctx>) -> Node {
    let ks = |th: &dyn Fn() -> Vec<String>| th();
    match t {
        Terminal::True => True,
        Terminal::False => False,
        Terminal::PkK(k) => PkK(k.to_string()),
        Terminal::PkH(k) => PkH(k.to_string()),
        Terminal::RawPkH(h) => RawPkH(h.to_string()),
        Terminal::After(t) => After(t.to_consensus_u32()),
        Terminal::Older(t) => Older(t.to_consensus_u32()),
        Terminal::Sha256(h) => Sha256(h.to_string()),
        Terminal::Hash256(h) => Hash256(h.to_string()),
        Terminal::Ripemd160(h) => Ripemd160(h.to_string()),
        Terminal::Hash160(h) => Hash160(h.to_string()),
        Terminal::Alt(x) => Alt(b(from_lib(x))),
        Terminal::Swap(x) => Swap(b(from_lib(x))),
        Terminal::Check(x) => Check(b(from_lib(x))),
        Terminal::DupIf(x) => DupIf(b(from_lib(x))),
        Terminal::Verify(x) => Verify(b(from_lib(x))),
        Terminal::NonZero(x) => NonZero(b(from_lib(x))),
        Terminal::ZeroNotEqual(x) => ZeroNotEqual(b(from_lib(x))),
        Terminal::AndV(x, y) => AndV(b(from_lib(x)), b(from_lib(y))),
        Terminal::AndB(x, y) => AndB(b(from_lib(x)), b(from_lib(y))),
        Terminal::AndOr(x, y, z) => AndOr(b(from_lib(x)), b(from_lib(y)), b(from_lib(z))),
        Terminal::OrB(x, y) => OrB(b(from_lib(x)), b(from_lib(y))),
        Terminal::OrD(x, y) => OrD(b(from_lib(x)), b(from_lib(y))),
        Terminal::OrC(x, y) => OrC(b(from_lib(x)), b(from_lib(y))),
        Terminal::OrI(x, y) => OrI(b(from_lib(x)), b(from_lib(y))),
        Terminal::Thresh(th) => Thresh(th.k(), th.iter().map(|x| from_lib(x)).collect()),
        Terminal::Multi(th) => Multi(th.k(), ks(&|| th.iter().map(|x| x.to_string()).collect())),
        Terminal::SortedMulti(th) => SortedMulti(th.k(), ks(&|| th.iter().map(|x| x.to_string()).collect())),
        Terminal::MultiA(th) => MultiA(th.k(), ks(&|| th.iter().map(|x| x.to_string()).collect())),
        Terminal::SortedMultiA(th) => SortedMultiA(th.k(), ks(&|| th.iter().map(|x| x.to_string()).collect())),
    }
}
